"""
C05 / defect 2: the file cache layouts `quadkey` and `arcgis` ignore dimension
values - tiles that differ only in a dimension value share one file.

FileCache announces supports_dimensions = True for every directory_layout, so the
configuration loader accepts a layer with `dimensions:` on top of such a cache.
tile_location_quadkey() and tile_location_arcgiscache() never look at their
`dimensions` argument (all other layouts insert dimensions_part()).  Storing
(x, y, z) for TIME=B overwrites what was stored for TIME=A, a load for TIME=A
returns the TIME=B bytes, and removing one removes the other.

Part 1 uses the FileCache API directly (quadkey and arcgis, the other layouts as
control).  Part 2 goes through a real configuration (make_wsgi_app + WMTS KVP).

Run:  cd /tmp/wt/hunt/C05 && /venv/bin/python demo.py
"""
import os
import shutil
import sys
import tempfile
from io import BytesIO

import yaml
from PIL import Image
from webtest import TestApp

from mapproxy.cache.file import FileCache
from mapproxy.cache.tile import Tile
from mapproxy.image import ImageSource
from mapproxy.wsgiapp import make_wsgi_app


def png(color):
    buf = BytesIO()
    Image.new('RGB', (256, 256), color).save(buf, 'png')
    return buf.getvalue()


RED = png((255, 0, 0))
BLUE = png((0, 0, 255))


def new_tile(coord, data):
    return Tile(coord, ImageSource(BytesIO(data)))


def content(tile):
    if tile.source is None:
        return None
    return tile.source.as_buffer().read()


def name_of(data):
    return {RED: 'RED (stored for TIME=A)', BLUE: 'BLUE (stored for TIME=B)', None: 'nothing'}.get(data, repr(data))


def api_check(tmp):
    failures = []
    coord = (5, 3, 4)
    for layout in ('tc', 'mp', 'tms', 'reverse_tms', 'quadkey', 'arcgis'):
        cache = FileCache(os.path.join(tmp, 'api_' + layout), 'png', directory_layout=layout)
        assert cache.supports_dimensions
        cache.store_tile(new_tile(coord, RED), dimensions={'time': 'A'})
        cache.store_tile(new_tile(coord, BLUE), dimensions={'time': 'B'})

        t = Tile(coord)
        cache.load_tile(t, dimensions={'time': 'A'})
        if content(t) != RED:
            failures.append('layout %s: load %r TIME=A -> %s, expected RED'
                            % (layout, coord, name_of(content(t))))

        # removing the TIME=B tile must not touch the TIME=A tile
        cache.remove_tile(Tile(coord), dimensions={'time': 'B'})
        if not cache.is_cached(Tile(coord), dimensions={'time': 'A'}):
            failures.append('layout %s: remove %r TIME=B also removed the TIME=A tile'
                            % (layout, coord))
    return failures


def wmts_check(tmp):
    failures = []
    cache_dir = os.path.join(tmp, 'wmts_cache')
    conf = {
        'services': {'wmts': {'kvp': True, 'restful': False}},
        'layers': [{
            'name': 'dim', 'title': 'layer with a TIME dimension', 'sources': ['dim_cache'],
            'dimensions': {'time': {'values': ['A', 'B'], 'default': 'A'}},
        }],
        'caches': {'dim_cache': {
            'grids': ['GLOBAL_MERCATOR'], 'sources': [],
            'cache': {'type': 'file', 'directory_layout': 'quadkey', 'directory': cache_dir},
        }},
        'globals': {'cache': {'base_dir': tmp, 'lock_dir': os.path.join(tmp, 'locks'),
                              'tile_lock_dir': os.path.join(tmp, 'tile_locks')}},
    }
    conf_file = os.path.join(tmp, 'mapproxy.yaml')
    with open(conf_file, 'w') as f:
        yaml.safe_dump(conf, f)
    # the configuration is accepted: FileCache.supports_dimensions is True for quadkey
    app = TestApp(make_wsgi_app(conf_file))

    # fill the configured cache directory the way MapProxy itself would
    cache = FileCache(cache_dir, 'png', directory_layout='quadkey')
    coord = (1, 1, 1)
    cache.store_tile(new_tile(coord, RED), dimensions={'time': 'A'})
    cache.store_tile(new_tile(coord, BLUE), dimensions={'time': 'B'})

    for time, expected in (('A', (255, 0, 0)), ('B', (0, 0, 255))):
        # GLOBAL_MERCATOR has origin 'll', WMTS rows count from the top: level 1 row 0 is y=1
        resp = app.get('/service?service=WMTS&request=GetTile&version=1.0.0&layer=dim&style='
                       '&tilematrixset=GLOBAL_MERCATOR&tilematrix=1&tilecol=1&tilerow=0'
                       '&format=image/png&time=' + time, expect_errors=True)
        if resp.status_int != 200 or not resp.content_type.startswith('image/'):
            failures.append('WMTS GetTile TIME=%s: status %s %s' % (time, resp.status, resp.body[:200]))
            continue
        pixel = Image.open(BytesIO(resp.body)).convert('RGB').getpixel((10, 10))
        if pixel != expected:
            failures.append('WMTS GetTile layer=dim quadkey cache TIME=%s -> pixel %r, expected %r'
                            % (time, pixel, expected))
    return failures


def main():
    tmp = tempfile.mkdtemp(prefix='c05_demo2_')
    try:
        failures = api_check(tmp) + wmts_check(tmp)
    finally:
        shutil.rmtree(tmp, ignore_errors=True)
    if failures:
        print('PROPERTY C05 VIOLATED: tiles that differ only in a dimension value share one file')
        for f in failures:
            print('  ' + f)
        return 1
    print('ok: every layout keeps tiles with different dimension values apart')
    return 0


if __name__ == '__main__':
    sys.exit(main())
