#!/venv/bin/python
"""Run the pinned test suite in a mapproxy tree and compare with BASELINE.json's stable_pass set.
usage: baseline_check.py <tree>   -> exit 0 iff every stable_pass test passed."""
import sys, os, json, subprocess, tempfile, xml.etree.ElementTree as ET
tree = os.path.abspath(sys.argv[1])
base = json.load(open('/root/.vp/BASELINE.json'))
want = set(base['stable_pass'])
fd, xmlf = tempfile.mkstemp(suffix='.xml'); os.close(fd)
env = dict(os.environ, MAPPROXY_VERIF='')
env.pop('MAPPROXY_VERIF')
subprocess.run(['/venv/bin/python', '-m', 'pytest', '-ra', '-q', '-p', 'no:cacheprovider', '--timeout=900',
                '--continue-on-collection-errors', '--junitxml=' + xmlf], cwd=tree, env=env,
               stdout=subprocess.DEVNULL, stderr=subprocess.DEVNULL)
passed = set()
for tc in ET.parse(xmlf).getroot().iter('testcase'):
    if not any(c.tag in ('failure', 'error', 'skipped') for c in tc):
        passed.add('%s::%s' % (tc.get('classname'), tc.get('name')))
os.unlink(xmlf)
missing = sorted(want - passed)
print('stable_pass=%d passed_now=%d missing=%d' % (len(want), len(passed), len(missing)))
for m in missing[:40]:
    print('  NOT PASSING:', m)
sys.exit(1 if missing else 0)
