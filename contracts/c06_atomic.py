"""C06 - a crash while storing never leaves a corrupt or foreign tile visible: ordering of the file-system operations."""
from pyvc.api import contract, cls, ghost, lemma
from pyvc import tracelib as T
from . import shared_grid, c05_compact  # noqa


def _atomic_protocol(ex, st, post, result):
    """temp file created exclusively next to the target, payload written to the temp handle, handle closed, THEN renamed
    over the target; the target itself is never opened, written or unlinked"""
    import z3
    from pyvc.values import eq
    fname = post.env['filename']
    data = post.env['data']
    opens = T.evs(st, 'open')
    fdopens = T.evs(st, 'fdopen')
    writes = T.evs(st, 'write')
    renames = T.evs(st, 'rename')
    exits = T.evs(st, '__exit__')
    unlinks = T.evs(st, 'unlink', 'remove')
    ok = len(opens) == 1 and len(fdopens) == 1 and len(writes) == 1 and len(renames) == 1 and len(exits) >= 1
    goal = z3.BoolVal(ok)
    if ok:
        tmp = opens[0][1].args[0]
        flags = opens[0][1].args[1]
        fl = flags.conc() if hasattr(flags, 'conc') else None
        goal = z3.And(goal, z3.BoolVal(fl is not None and fl & 128 != 0 and fl & 64 != 0))      # O_EXCL | O_CREAT
        goal = z3.And(goal, z3.Not(eq(tmp, fname)), z3.PrefixOf(fname.t, tmp.t))                # a sibling name, not the target
        goal = z3.And(goal, z3.BoolVal(fdopens[0][1].args[0] is opens[0][1].result))             # the handle of the temp file
        w = writes[0][1]
        goal = z3.And(goal, z3.BoolVal(w.args[0] is data))                                       # the complete payload
        r_i, r = renames[0]
        goal = z3.And(goal, eq(r.args[0], tmp), eq(r.args[1], fname))
        # ordering: write < close (exit of the with block) < rename
        goal = z3.And(goal, z3.BoolVal(writes[0][0] < exits[0][0] < r_i))
    yield ('write_temp_close_then_rename', goal,
           'os.open(tmp, O_EXCL|O_CREAT) -> write(data) on that handle -> handle closed -> os.rename(tmp, filename); the rename '
           'comes after the close so the published file is complete')
    yield ('target_never_touched_directly', z3.And([z3.Not(eq(u.args[0], fname)) for i, u in unlinks] or [z3.BoolVal(True)]),
           'the target name is never unlinked by the writer')


def _atomic_failure(ex, st, post, exc):
    """on failure the temp file is removed and the target is left alone"""
    import z3
    from pyvc.values import eq
    fname = post.env['filename']
    renames = [e for i, e in T.evs(st, 'rename') if not e.raised]
    unl = T.evs(st, 'unlink')
    opens = T.evs(st, 'open')
    g = z3.BoolVal(not renames)
    for i, u in unl:
        g = z3.And(g, z3.Not(eq(u.args[0], fname)))
    yield ('failure_leaves_target', g, 'if anything fails before the rename completed, the target is neither replaced nor removed')


contract('mapproxy.util.fs:write_atomic', props=['C06'],
         types=dict(filename='str', data='blob'), returns='none', default_callee='opaque',
         opaque_spec={'randint': {'returns': 'int', 'pure': True}, 'open': {'raises': ['OSError']}, 'fdopen': {'raises': ['OSError']},
                      'write': {'raises': ['OSError']}, 'rename': {'raises': ['OSError']}, 'unlink': {'raises': ['OSError']}},
         raises={'OSError': True}, raises_ensures={'OSError': [_atomic_failure]},
         trace=[_atomic_protocol])


# ---- file cache stores ------------------------------------------------------------------------------------------------------
F = 'mapproxy.cache.file:'


def _store_protocol(ex, st, post, result):
    import z3
    from pyvc.values import eq
    loc = post.env['location']
    wa = T.evs(st, 'write_atomic')
    unl = T.evs(st, 'unlink', 'remove')
    isl = T.evs(st, 'islink')
    goal = z3.BoolVal(len(wa) == 1 and len(isl) == 1)
    if wa:
        goal = z3.And(goal, eq(wa[0][1].args[0], loc))
    for i, u in unl:
        # the only thing ever unlinked is a symlink AT the location (a stale single-colour link), before the write
        goal = z3.And(goal, eq(u.args[0], loc), ex.truth(st, isl[0][1].result) if isl else z3.BoolVal(False),
                      z3.BoolVal(bool(wa) and i < wa[0][0]))
    yield ('store_writes_location_atomically', goal,
           'the tile bytes reach `location` only through write_atomic(location, ...); nothing but a symlink at that very '
           'location is unlinked')


contract(F + 'FileCache._store', props=['C06', 'C05'],
         types=dict(tile='opaque', location='str'), returns='none', default_callee='opaque',
         opaque_spec={'islink': {'returns': 'bool', 'pure': True}, 'tile_buffer': {'pure': True}, 'read': {'pure': True},
                      'write_atomic': {'raises': ['OSError']}, 'unlink': {'raises': ['OSError']}, 'chmod': {}},
         opaque=['write_atomic'],
         raises={'OSError': True, 'ValueError': True}, trace=[_store_protocol])


def _link_replaces_existing(ex, st, post, result):
    """C05: a linked single-colour store replaces whatever is at the tile location (regular file, hard link or symlink)"""
    import z3
    from pyvc.values import eq
    loc = post.env['tile_loc']
    links = T.evs(st, 'link', 'symlink')
    ex_ = [e for i, e in T.evs(st, 'exists') if eq(e.args[0], loc) is not None and e.args[0] is loc]
    il_ = [e for i, e in T.evs(st, 'islink') if e.args[0] is loc]
    unl = [(i, e) for i, e in T.evs(st, 'unlink', 'remove') if e.args[0] is loc]
    goal = z3.BoolVal(len(links) == 1)
    for i, l in links:
        occupied = z3.Or([ex.truth(st, e.result) for e in ex_ + il_] or [z3.BoolVal(False)])
        removed_first = bool([j for j, u in unl if j < i])
        goal = z3.And(goal, z3.Or(z3.Not(occupied), z3.BoolVal(removed_first)),
                      # both tests are made (exists() is False for a dangling link); islink may be skipped only when
                      # exists() already said yes
                      z3.BoolVal(len(ex_) >= 1), z3.Or(z3.BoolVal(len(il_) >= 1), *[ex.truth(st, e.result) for e in ex_]),
                      eq(l.args[1], loc))
    yield ('existing_entry_removed_before_linking', goal,
           'if anything exists at the tile location (exists() or islink()) it is unlinked before the new link is created, so '
           'the address returns the latest store')


def _single_colour_target(ex, st, post, result):
    """the link created at the tile location points at a file that holds the tile: the shared single-colour file, written
    first if it did not exist"""
    import z3
    from pyvc.values import eq
    tile, loc, color = post.env['tile'], post.env['tile_loc'], post.env['color']
    sl = [e for i, e in T.evs(st, '_single_color_tile_location', 'FileCache._single_color_tile_location')]
    stores = [(i, e) for i, e in T.evs(st, '_store', 'FileCache._store')]
    links = [(i, e) for i, e in T.evs(st, 'link', 'symlink')]
    if len(sl) != 1:
        yield ('single_colour_file_is_the_link_target', z3.BoolVal(False), 'the shared file location is computed once')
        return
    real = sl[0].result
    a0 = [x for x in sl[0].args if x is not post.env['self']]
    ok_loc = len(a0) >= 1 and a0[0] is color and 'create_dir' in sl[0].kwargs
    ex_real = [(i, e) for i, e in T.evs(st, 'exists') if e.args and e.args[0] is real]
    g = z3.BoolVal(bool(ok_loc and len(ex_real) == 1 and len(stores) <= 1))
    if ok_loc and len(ex_real) == 1:
        there = ex.truth(st, ex_real[0][1].result)
        # written exactly when missing, before the link is made, with this tile's data
        g = z3.And(g, z3.Not(there) == z3.BoolVal(len(stores) == 1), ex.truth(st, sl[0].kwargs['create_dir']))
        for i, e in stores:
            a = [x for x in e.args if x is not post.env['self']]
            g = z3.And(g, z3.BoolVal(len(a) == 2 and a[0] is tile and a[1] is real and ex_real[0][0] < i
                                     and all(i < j for j, l in links)))
    yield ('single_colour_file_written_when_missing', g,
           'the shared single-colour file is written (self._store(tile, that file)) exactly when it does not exist yet, before '
           'anything is linked to it')
    g2 = z3.BoolVal(len(links) == 1)
    for i, l in links:
        if l.name == 'link':
            g2 = z3.And(g2, z3.BoolVal(l.args[0] is real))
        else:
            rp = [e for j, e in T.evs(st, 'relpath')]
            def is_dirname_of_loc(v):
                t = getattr(v, 't', None)
                return t is not None and z3.is_app(t) and t.decl().name() == 'path_dirname' and t.arg(0).eq(loc.t)
            okr = len(rp) == 1 and len(rp[0].args) == 2 and rp[0].args[0] is real and is_dirname_of_loc(rp[0].args[1]) \
                and l.args[0] is rp[0].result
            g2 = z3.And(g2, z3.BoolVal(bool(okr)))
        h = st.heap[post.env['self'].ref]
        from pyvc.values import opaque_eq_str
        hard = opaque_eq_str(h['link_single_color_images'].t, z3.StringVal('hardlink')) if hasattr(h['link_single_color_images'], 't') else None
        if hard is not None:
            g2 = z3.And(g2, hard == z3.BoolVal(l.name == 'link'))
    yield ('single_colour_file_is_the_link_target', g2,
           'exactly one link is made at the tile location: a hard link to the shared file, or a symlink whose target is the '
           'shared file relative to the directory of the tile (relpath(shared, dirname(tile location)))')


contract(F + 'FileCache._store_single_color_tile', props=['C05', 'C06'],
         types=dict(tile='opaque', tile_loc='str', color='opaque'), returns='none', default_callee='opaque',
         opaque_spec={'exists': {'returns': 'bool', 'pure': True}, 'islink': {'returns': 'bool', 'pure': True},
                      '_single_color_tile_location': {'returns': 'str', 'pure': True}, '_store': {'raises': ['OSError']},
                      'link': {'raises': ['OSError']}, 'symlink': {'raises': ['OSError']}, 'unlink': {'raises': ['OSError']},
                      'relpath': {'returns': 'str', 'pure': True}, 'dirname': {'returns': 'str', 'pure': True}},
         opaque=['_store', '_single_color_tile_location', 'dirname'],
         raises={'OSError': True}, trace=[_link_replaces_existing, _single_colour_target])


# ---- legend cache and seed progress file: the file is only ever replaced through write_atomic ------------------------------
def _only_write_atomic(target_of, skipped_if=None):
    def clause(ex, st, post, result):
        import z3
        from pyvc.values import eq
        wa = T.evs(st, 'write_atomic')
        direct = T.evs(st, 'open', 'write', 'unlink', 'remove', 'rename')
        goal = z3.BoolVal(len(wa) <= 1 and not direct)
        if not wa:
            # nothing written on this path: only allowed in the stated case (already stored) - a store is never silently dropped
            goal = z3.And(goal, skipped_if(ex, st, post) if skipped_if is not None else z3.BoolVal(False))
        for i, e in wa:
            goal = z3.And(goal, eq(e.args[0], target_of(ex, st, post, e)))
        yield ('replaced_only_through_write_atomic', goal,
               'the file is written only by one write_atomic(<its own location>, <complete payload>) call: a reader sees the old '
               'or the new complete file (write_atomic contract), never a partial one; nothing is opened, unlinked or renamed directly')
    return clause


def _legend_payload_and_location(ex, st, post, result):
    import z3
    from pyvc.values import eq, VStr
    from pyvc.builtins import os_path_join
    lg = post.env['legend']
    h = st.heap[post.env['self'].ref]
    wa = [e for i, e in T.evs(st, 'write_atomic')]
    if not wa:
        return
    ab = [(i, e) for i, e in T.evs(st, 'as_buffer')]
    sk = [(i, e) for i, e in T.evs(st, 'seek')]
    rd = [(i, e) for i, e in T.evs(st, 'read')]
    iw = st.trace.index(wa[0])
    ok = len(ab) == 1 and len(rd) == 1 and rd[0][1].recv is not None and rd[0][1].recv.t.eq(ab[0][1].result.t) \
        and not rd[0][1].args and wa[0].args[1] is rd[0][1].result and ab[0][0] < rd[0][0] < iw
    rewound = [1 for i, e in sk if ok and ab[0][0] < i < rd[0][0] and e.recv is not None and e.recv.t.eq(ab[0][1].result.t)
               and len(e.args) == 1 and e.args[0].conc() == 0] if ok else []
    yield ('legend_payload_is_the_whole_image', z3.BoolVal(bool(ok and rewound)),
           'what is written is buffer.read() of the legend image buffer after buffer.seek(0): the complete encoded image, not the '
           'rest after some earlier read position')
    lh = [e for i, e in T.evs(st, 'legend_hash')]
    sl = [e for e in st.trace if e.name == 'setattr:location']
    loc0 = ex.opaque_field_at(st, st.trace[0], lg, 'location') if st.trace else None
    if sl:
        ok = len(sl) == 1 and len(lh) == 1 and len(lh[0].args) == 2
        g = z3.BoolVal(bool(ok))
        if ok:
            g = z3.And(g, eq(lh[0].args[0], ex.opaque_field_at(st, lh[0], lg, 'id')),
                       eq(lh[0].args[1], ex.opaque_field_at(st, lh[0], lg, 'scale')),
                       sl[0].args[1].t == z3.Concat(os_path_join(ex, st, [h['cache_dir'], lh[0].result], {}, None)[0][1].t, z3.StringVal('.'),
                                                      h['file_ext'].t))
        yield ('legend_location_from_id_and_scale', g,
               'a legend without location is stored at join(cache_dir, legend_hash(id, scale)) + "." + file_ext - the same path '
               'load() looks at')


cls('mapproxy.cache.legend:LegendCache', fields=dict(cache_dir='str', file_ext='str', directory_permissions='opaque',
                                                     file_permissions='opaque'))
contract('mapproxy.cache.legend:LegendCache.store', props=['C06'],
         types=dict(legend='opaque'), returns='none', default_callee='opaque',
         opaque_fields={'location': 'opt[str]', 'stored': 'opaque', 'id': 'opaque', 'scale': 'opaque'}, stable_fields=['id', 'scale'],
         opaque_spec={'legend_hash': {'returns': 'str', 'pure': True}, 'ensure_directory': {'pure': True}, 'as_buffer': {'pure': True},
                      'ImageOptions': {'pure': True}, 'seek': {'pure': True}, 'read': {'pure': True}, 'exists': {'returns': 'bool', 'pure': True},
                      'write_atomic': {'raises': ['OSError'], 'pure': True}, 'chmod': {'pure': True}},
         opaque=['write_atomic', 'legend_hash', 'ensure_directory'],
         raises={'OSError': True, 'ValueError': True},
         trace=[_only_write_atomic(lambda ex, st, post, e: ex.opaque_field_at(st, e, post.env['legend'], 'location').val,
                                   skipped_if=lambda ex, st, post: ex.truth(st, ex.opaque_field(post.old if getattr(post, 'old', None) is not None else st, post.env['legend'], 'stored'))),
                _legend_payload_and_location])

cls('mapproxy.seed.util:ProgressStore', fields=dict(filename='str', status='opaque'))
contract('mapproxy.seed.util:ProgressStore.write', props=['C06'],
         types={}, returns='none', default_callee='opaque',
         opaque_spec={'dumps': {'pure': True}, 'write_atomic': {'raises': ['OSError', 'IOError'], 'pure': True}},
         opaque=['write_atomic'],
         trace=[_only_write_atomic(lambda ex, st, post, e: st.heap[post.env['self'].ref]['filename'])])


# ---- file cache: every operation on an address works on tile_location(tile, dimensions=<the caller's dimensions>) -------------------
def _same_location(op_events, needs_create_dir=False):
    def clause(ex, st, post, result):
        import z3
        from pyvc.values import eq
        locs = [e for i, e in T.evs(st, 'tile_location', 'FileCache.tile_location')]
        tile, dims = post.env['tile'], post.env['dimensions']
        goal = z3.BoolVal(len(locs) <= 1)
        for e in locs:
            ok = any(a is tile for a in e.args) and 'dimensions' in e.kwargs and e.kwargs['dimensions'] is dims
            goal = z3.And(goal, z3.BoolVal(bool(ok)))
        for i, e in T.evs(st, *op_events):
            # the file-system operation is applied to that location and to nothing else
            ok = bool(locs) and e.args and any(a is locs[0].result for a in e.args)
            goal = z3.And(goal, z3.BoolVal(bool(ok)))
        yield ('operates_on_the_tile_location_of_these_dimensions', goal,
               'the path touched is self.tile_location(tile, dimensions=dimensions) - the caller\'s dimension values, so tiles that '
               'differ only in a dimension value never share a file')
    return clause


_FC_SPEC = {'is_missing': {'returns': 'bool', 'pure': True}, 'tile_location': {'returns': 'str', 'pure': True},
            'exists': {'returns': 'bool', 'pure': True}, 'ImageSource': {'pure': True}, 'load_tile_metadata': {},
            'remove': {'raises': ['OSError']}, 'lstat': {'raises': ['OSError']}, 'as_image': {'pure': True},
            'is_single_color_image': {'pure': True}, '_store': {'raises': ['OSError']}, '_store_single_color_tile': {'raises': ['OSError']}}


def _fc_answer(fn):
    """what the operation answers / does, in terms of the one existence test on the tile's own location"""
    def clause(ex, st, post, result):
        import z3
        from pyvc.values import eq
        tile = post.env['tile']
        miss = [e for i, e in T.evs(st, 'is_missing')]
        exi = [e for i, e in T.evs(st, 'exists')]
        srcs = [e for i, e in T.evs(st, 'setattr:source')]
        meta = [e for i, e in T.evs(st, 'load_tile_metadata', 'FileCache.load_tile_metadata')]
        goal = z3.BoolVal(len(miss) == 1 and miss[0].recv is not None and miss[0].recv.t.eq(tile.t))
        if len(miss) == 1:
            missing = ex.truth(st, miss[0].result)
            present = ex.truth(st, exi[0].result) if exi else z3.BoolVal(False)
            # the answer: True iff the tile already carries its data, or a file exists at its location
            goal = z3.And(goal, ex.truth(st, result) == z3.Or(z3.Not(missing), present),
                          z3.BoolVal(len(exi) <= 1), z3.Implies(missing, z3.BoolVal(len(exi) == 1)))
            if fn == 'load_tile':
                wm = ex.truth(st, post.env['with_metadata'])
                # the bytes are attached exactly when they were missing and the file exists; metadata read iff asked for
                goal = z3.And(goal, z3.And(missing, present) == z3.BoolVal(len(srcs) == 1),
                              z3.Implies(z3.And(missing, present), wm == z3.BoolVal(len(meta) == 1)),
                              z3.BoolVal(all(any(a is tile for a in m.args) for m in meta)))
            else:
                goal = z3.And(goal, z3.BoolVal(not srcs))
        yield ('answer_is_presence_at_own_location', goal,
               'result == (tile already has its data or os.path.exists(tile location)); load_tile attaches ImageSource(location) '
               'exactly in the second case (with the metadata iff requested), is_cached changes nothing')
    return clause


def _fc_effect(fn):
    """the operation really happens: store writes the tile (once, unless it is marked stored), remove removes the file"""
    def clause(ex, st, post, result):
        import z3
        tile = post.env['tile']
        loc = [e for i, e in T.evs(st, 'tile_location', 'FileCache.tile_location')]
        if fn == 'remove_tile':
            rm = [e for i, e in T.evs(st, 'remove')]
            ok = len(rm) == 1 and len(loc) == 1 and rm[0].args[-1] is loc[0].result
            yield ('remove_removes_the_file', z3.BoolVal(bool(ok)), 'exactly one os.remove(tile location) (a missing file is not an error)')
            return
        plain = [e for i, e in T.evs(st, '_store', 'FileCache._store')]
        link = [e for i, e in T.evs(st, '_store_single_color_tile', 'FileCache._store_single_color_tile')]
        stored = ex.truth(st, ex.opaque_field_at(st, (plain + link + loc)[0], tile, 'stored')) if (plain + link + loc) else \
            ex.truth(st, ex.opaque_field(st, tile, 'stored'))
        n = len(plain) + len(link)
        goal = z3.BoolVal(n <= 1)
        if n == 0:
            goal = z3.And(goal, stored)               # nothing written: only for a tile that is already stored
        for e in plain + link:
            a = [x for x in e.args if x is not post.env['self']]
            ok = len(loc) == 1 and len(a) >= 2 and a[0] is tile and a[1] is loc[0].result and loc[0].kwargs.get('create_dir') is not None
            goal = z3.And(goal, z3.BoolVal(bool(ok)), z3.Not(stored))
        if link:
            # the shared single-colour file is used only when linking is configured and the image IS single-coloured
            h = st.heap[post.env['self'].ref]
            col = [e for i, e in T.evs(st, 'is_single_color_image')]
            goal = z3.And(goal, ex.truth(st, h['link_single_color_images']),
                          z3.BoolVal(len(col) == 1 and [x for x in link[0].args if x is not post.env['self']][2] is col[0].result),
                          ex.truth(st, col[0].result) if col else z3.BoolVal(False))
        yield ('store_writes_tile_once_at_its_location', goal,
               'unless the tile is marked stored, exactly one of _store(tile, location) / _store_single_color_tile(tile, location, '
               'colour) runs, on self.tile_location(tile, create_dir=True, dimensions=..); the shared-colour path only for a '
               'single-coloured image with linking configured')
    return clause


for _fn, _ops, _types in (
        ('is_cached', ('exists',), dict(tile='opaque', dimensions='opaque')),
        ('load_tile', ('exists', 'ImageSource'), dict(tile='opaque', with_metadata='bool', dimensions='opaque')),
        ('remove_tile', ('remove',), dict(tile='opaque', dimensions='opaque')),
        ('store_tile', ('_store', '_store_single_color_tile', 'FileCache._store', 'FileCache._store_single_color_tile'),
         dict(tile='opaque', dimensions='opaque')),
        ('load_tile_metadata', ('lstat',), dict(tile='opaque', dimensions='opaque'))):
    _extra = [_fc_answer(_fn)] if _fn in ('is_cached', 'load_tile') else [_fc_effect(_fn)] if _fn in ('store_tile', 'remove_tile') else []
    contract(F + 'FileCache.' + _fn, props=['C05'], merge=(_fn == 'load_tile_metadata'),
             types=_types, returns='opaque', default_callee='opaque',
             opaque_fields={'stored': 'opaque', 'source': 'opt[opaque]', 'coord': 'opt[tuple[int,int,int]]'},
             opaque_spec=_FC_SPEC, opaque=['tile_location', 'load_tile_metadata', '_store', '_store_single_color_tile'],
             raises={'OSError': True},
             requires=['tile.source is not None'] if _fn == 'store_tile' else [],
             trace=[_same_location(_ops)] + _extra, trace_extra=[_same_location(_ops)])


def _layout_gets_dimensions(ex, st, post, result):
    import z3
    from pyvc.values import eq
    calls = [e for i, e in T.evs(st, '_tile_location')]
    ok = len(calls) == 1 and calls[0].args[0] is post.env['tile'] and calls[0].kwargs.get('dimensions') is post.env['dimensions'] \
        and result is calls[0].result
    goal = z3.BoolVal(bool(ok))
    if ok:
        h = st.heap[post.env['self'].ref]
        goal = z3.And(goal, eq(calls[0].args[1], h['cache_dir']), eq(calls[0].args[2], h['file_ext']))
    yield ('layout_function_gets_tile_and_dimensions', goal,
           'tile_location returns self._tile_location(tile, self.cache_dir, self.file_ext, .., dimensions=dimensions): the layout '
           'function (path formulas in c05_paths) sees the address and the caller\'s dimension values')


contract(F + 'FileCache.tile_location', props=['C05'],
         types=dict(tile='opaque', create_dir='bool', dimensions='opaque'), returns='opaque', default_callee='opaque',
         opaque_spec={'keys': {'pure': True}, 'sort': {'pure': True}, 'replace': {'pure': True}, '_tile_location': {'pure': True}},
         raises={'AttributeError': True, 'TypeError': True},
         trace=[_layout_gets_dimensions])
