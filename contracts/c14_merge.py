"""C14 (and the global-limit clause of C10) - layer composition and its shortcuts: LayerMerger.merge."""
from pyvc.api import contract, cls, ghost, lemma
from pyvc import tracelib as T
M = 'mapproxy.image.merge:'

cls(M + 'LayerMerger', fields=dict(layers='list[tuple[opaque,opt[opaque]]]', cacheable='bool'))

MF = {'transparent': 'bool', 'clip': 'bool', 'size': 'tuple[int,int]', 'cacheable': 'bool', 'opacity': 'opt[real]',
      'mode': 'str', 'image_opts': 'opt[opaque]'}


def _fast_path_guard(ex, st, post, result):
    """the single-layer shortcut (return the layer image itself, no recomposition) is taken only when recomposition
    would not change the picture"""
    import z3
    from pyvc.values import eq, VOpaque
    self_ = post.env['self']
    layers = st.heap[self_.ref]['layers']
    created = T.evs(st, 'create_image')
    blank = T.evs(st, 'BlankImageSource')
    if created or blank:
        return
    # no image was created: the result is a layer image handed through
    first = layers.elem(z3.IntVal(0))
    img, lcov = first.items[0], first.items[1]
    cov = post.env['coverage']
    size = post.env['size']
    io = post.env['image_opts']
    opts = ex.opaque_field(st, img, 'image_opts')
    yield ('shortcut_returns_the_only_layer', z3.And(layers.length() == 1, eq(result, img)), 'shortcut: exactly one layer, returned as is')
    yield ('shortcut_not_with_global_limit', z3.Not(ex.truth(st, cov)),
           'C10: a request-wide limited_to coverage is never skipped by the shortcut')
    yield ('shortcut_not_with_layer_clip',
           z3.Or(z3.Not(ex.truth(st, lcov)), z3.Not(ex.truth(st, ex.opaque_field(st, lcov.val, 'clip')))),
           'shortcut only without a clipping layer coverage')
    yield ('shortcut_same_size', z3.Or(z3.Not(ex.truth(st, size)), eq(size.val if hasattr(size, 'val') else size, ex.opaque_field(st, img, 'size'))),
           'shortcut only when no resize is needed')
    yield ('shortcut_opaque_or_transparent_output',
           z3.Or(z3.And(z3.Not(opts.isnone), z3.Not(ex.truth(st, ex.opaque_field(st, opts.val, 'transparent')))),
                 ex.truth(st, ex.opaque_field(st, io, 'transparent'))),
           'shortcut only if the layer is opaque or the output may be transparent')
    op = ex.opaque_field(st, opts.val, 'opacity')
    yield ('shortcut_not_with_opacity',
           z3.Or(z3.Not(ex.truth(st, opts)), op.isnone, op.val.t >= 1),
           'C14: a layer with opacity < 1 is never handed through unblended (full composition would fade it)')


def _global_limit_applied(ex, st, post, result):
    import z3
    cov = post.env['coverage']
    created = T.evs(st, 'create_image')
    if not created:
        return
    def same(a, b):
        a = a.val if hasattr(a, 'val') else a
        b = b.val if hasattr(b, 'val') else b
        return hasattr(a, 't') and hasattr(b, 't') and a.t.eq(b.t)
    masks = [(i, e) for i, e in T.evs(st, 'mask_image') if len(e.args) == 4 and same(e.args[3], cov)]
    srcs = T.evs(st, 'ImageSource')
    ok = bool(masks) and bool(srcs) and masks[-1][0] < srcs[-1][0]
    yield ('global_limit_masks_result', z3.Or(z3.Not(ex.truth(st, cov)), z3.BoolVal(ok)),
           'C10: with a request-wide coverage the composed result is masked with it before it is returned')


def _layer_ops(ex, st, k):
    """per layer (bottom to top): the image composited is layer k's image; clipped iff its coverage clips; the operation
    is chosen by mode / opacity"""
    import z3
    self_ = st.env['self']
    layers = st.heap[self_.ref]['layers']
    n0 = getattr(st, 'iter_start_trace', 0)
    evs_ = st.trace[n0:]
    as_img = [e for e in evs_ if e.name == 'as_image']
    cur = layers.elem(k).items[0]
    ok = len(as_img) == 1 and as_img[0].recv is not None and as_img[0].recv.t.eq(cur.t)
    yield ('composites_layer_k', z3.BoolVal(ok), 'iteration k composites layer k (bottom-to-top order, each layer once)')
    ops = [e for e in evs_ if e.name in ('alpha_composite', 'blend', 'paste')]
    yield ('one_operation_per_layer', z3.BoolVal(len(ops) == 1), 'each layer is combined into the result exactly once')


contract(M + 'LayerMerger.merge', props=['C14', 'C10'],
         types=dict(image_opts='opaque', size='opt[tuple[int,int]]', bbox='opaque', bbox_srs='opaque', coverage='opt[opaque]'),
         returns='opaque', default_callee='opaque', opaque_fields=MF, stable_fields=list(MF),
         opaque_spec={'has_alpha_composite_support': {'returns': 'bool', 'pure': True}, 'create_image': {'pure': True},
                      'as_image': {'pure': True}, 'mask_image': {'pure': True}, 'convert': {'pure': True},
                      'split': {'returns': 'tuple[opaque,opaque,opaque,opaque]', 'pure': True}, 'multiply': {'pure': True},
                      'constant': {'pure': True}, 'putalpha': {'pure': True}, 'alpha_composite': {'pure': True},
                      'blend': {'pure': True}, 'paste': {'pure': True}, 'ImageSource': {'pure': True},
                      'BlankImageSource': {'pure': True}},
         loops={0: dict(inv=[], types={'result': 'opaque'}, body_trace=[_layer_ops])},
         trace=[_fast_path_guard, _global_limit_applied])
