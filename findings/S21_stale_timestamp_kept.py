"""
C20 / defect 2: single-tile creation path (meta_size [1, 1], tile sources, ...)
with an expiring cache (refresh_before).

TileManager.is_cached() loads the metadata of the STALE file into the request
tile (load_tile_metadata), the tile is then re-created and stored, but
mapproxy.cache.base.tile_buffer only sets a timestamp `if not tile.timestamp`.
The rewritten tile is therefore answered with the timestamp of the file it
replaced: Last-Modified is the old date and the ETag is md5(old timestamp,
new size).  When the new content has the same byte size (very common:
single-colour tiles, same-size re-renderings) the ETag equals the old one and
the client is told 304 although the tile was just rewritten with different
content.
"""
import os
import shutil
import sys
import tempfile
import threading
import time
from io import BytesIO
from http.server import BaseHTTPRequestHandler, HTTPServer
from urllib.parse import urlparse, parse_qs

sys.path.insert(0, os.getcwd())

from PIL import Image  # noqa: E402
from webtest import TestApp  # noqa: E402
from mapproxy.wsgiapp import make_wsgi_app  # noqa: E402


def png(color, size):
    buf = BytesIO()
    Image.new('RGB', size, color).save(buf, 'png')
    return buf.getvalue()


class Upstream(object):
    """Local stand-in for the upstream WMS: answers every GetMap with a
    single-colour PNG of the requested size, or with an HTTP error."""

    def __init__(self):
        self.status = 200
        self.color = (10, 20, 30)
        self.count = 0
        up = self

        class Handler(BaseHTTPRequestHandler):
            def do_GET(self):
                up.count += 1
                query = parse_qs(urlparse(self.path).query)
                q = dict((k.lower(), v[0]) for k, v in query.items())
                size = (int(q.get('width', 256)), int(q.get('height', 256)))
                if up.status == 200:
                    body, ctype = png(up.color, size), 'image/png'
                else:
                    body, ctype = b'upstream error', 'text/plain'
                self.send_response(up.status)
                self.send_header('Content-type', ctype)
                self.send_header('Content-length', str(len(body)))
                self.end_headers()
                self.wfile.write(body)

            def log_message(self, *args):
                pass

        self.server = HTTPServer(('127.0.0.1', 0), Handler)
        self.port = self.server.server_address[1]
        thread = threading.Thread(target=self.server.serve_forever)
        thread.daemon = True
        thread.start()

    def close(self):
        self.server.shutdown()
        self.server.server_close()


CONF = """
globals:
  cache:
    base_dir: %(base)s/cache_data
%(globals_extra)s
services:
  tms:
  wmts:
    restful: true
    kvp: true
  kml:
  wms:
layers:
  - name: lyr
    title: Layer
    sources: [c]
caches:
  c:
    grids: [GLOBAL_MERCATOR]
    format: image/png
    sources: [src]
%(cache_extra)s
sources:
  src:
    type: wms
    req:
      url: http://127.0.0.1:%(port)d/service
      layers: bar
    on_error:
      404:
        response: '#ff0000'
        cache: False
"""

SINGLE_TILES = "    meta_size: [1, 1]\n    meta_buffer: 0\n"


def make_app(base, port, globals_extra='', cache_extra=''):
    conf = os.path.join(base, 'mapproxy.yaml')
    with open(conf, 'w') as f:
        f.write(CONF % dict(base=base, port=port, globals_extra=globals_extra,
                            cache_extra=cache_extra))
    return TestApp(make_wsgi_app(conf))


def pixel(resp):
    if not resp.body:
        return None
    return Image.open(BytesIO(resp.body)).convert('RGB').getpixel((5, 5))


def cache_headers(resp):
    return [(k, v) for k, v in resp.headers.items()
            if k.lower() in ('etag', 'last-modified', 'cache-control', 'pragma', 'expires')]


def show(tag, resp):
    print('%-34s %s body=%d bytes pixel=%s\n%36s%s' % (
        tag, resp.status, len(resp.body), pixel(resp), '', cache_headers(resp)))


def main():
    problems = []
    up = Upstream()
    base = tempfile.mkdtemp(prefix='c20_2_')
    try:
        marker = os.path.join(base, 'marker')
        open(marker, 'w').close()
        os.utime(marker, (1000000000, 1000000000))
        app = make_app(base, up.port, globals_extra=SINGLE_TILES,
                       cache_extra='    refresh_before:\n      mtime: %s\n' % marker)
        old_color, new_color = (10, 20, 30), (30, 20, 10)
        print('upstream PNG sizes: old %d bytes, new %d bytes' % (
            len(png(old_color, (256, 256))), len(png(new_color, (256, 256)))))

        for name, url in [
            ('TMS', '/tms/1.0.0/lyr/3/0/0.png'),
            ('WMTS', '/wmts/lyr/GLOBAL_MERCATOR/5/2/2.png'),
            ('WMS-C', '/service?SERVICE=WMS&VERSION=1.1.1&REQUEST=GetMap&LAYERS=lyr&STYLES='
                      '&SRS=EPSG:900913&BBOX=0,0,20037508.342789244,20037508.342789244'
                      '&WIDTH=256&HEIGHT=256&FORMAT=image/png&TILED=true'),
        ]:
            print('---- %s' % name)
            os.utime(marker, (1000000000, 1000000000))
            up.color = old_color
            app.get(url)                       # creates and stores the tile
            r2 = app.get(url)
            show('1 cached tile', r2)
            old_etag = r2.headers['ETag']

            time.sleep(1.1)
            os.utime(marker, None)             # every tile written before now is stale
            up.color = new_color               # upstream content changed
            time.sleep(1.1)

            before = up.count
            r3 = app.get(url, headers={'If-None-Match': old_etag})
            show('2 If-None-Match: <old ETag>', r3)
            rewritten = up.count > before
            r4 = app.get(url)
            show('3 plain request afterwards', r4)
            print('   tile was re-fetched and rewritten during step 2: %s' % rewritten)

            if not rewritten:
                problems.append('%s: setup problem, tile was not refreshed' % name)
            elif r3.status_int == 304:
                problems.append(
                    '%s: 304 for ETag %s although the tile was rewritten by this very request; '
                    'stored tile is now %s (was %s) with ETag %s'
                    % (name, old_etag, pixel(r4), pixel(r2), r4.headers.get('ETag')))
            elif r3.headers.get('ETag') == old_etag and pixel(r3) != pixel(r2):
                problems.append('%s: new body %s sent with the old ETag %s'
                                % (name, pixel(r3), old_etag))
    finally:
        up.close()
        shutil.rmtree(base, ignore_errors=True)

    print()
    if problems:
        print('PROPERTY C20 VIOLATED:')
        for p in problems:
            print('  - ' + p)
        return 1
    print('OK: no violation')
    return 0


if __name__ == '__main__':
    sys.exit(main())
