"""
C18 / defect 1: control characters from the request are copied into XML error
documents, which makes them not well-formed.

run:  cd /tmp/wt/hunt/C18 && /venv/bin/python demo.py
"""
import io
import logging
import os
import shutil
import sys
import tempfile
import xml.etree.ElementTree as ET

sys.path.insert(0, os.getcwd())
logging.disable(logging.CRITICAL)

from mapproxy.wsgiapp import make_wsgi_app  # noqa: E402

CONF = """
services:
  tms:
  wmts:
  wms:
    srs: ['EPSG:4326']
    md:
      title: demo
layers:
  - name: dbg
    title: Debug
    sources: [dbg_cache]
caches:
  dbg_cache:
    sources: [dbg]
    grids: [GLOBAL_MERCATOR]
    disable_storage: true
sources:
  dbg:
    type: debug
"""


def call(app, path, qs=''):
    env = {
        'REQUEST_METHOD': 'GET', 'PATH_INFO': path, 'QUERY_STRING': qs,
        'SCRIPT_NAME': '', 'SERVER_NAME': 'localhost', 'SERVER_PORT': '80',
        'HTTP_HOST': 'localhost', 'wsgi.url_scheme': 'http',
        'wsgi.errors': io.StringIO(), 'wsgi.input': io.BytesIO(),
    }
    out = {}

    def start_response(status, headers, exc_info=None):
        out['status'] = status
        out['headers'] = dict((k.lower(), v) for k, v in headers)
    body = b''.join(app(env, start_response))
    return out['status'], out['headers'], body


GETMAP = ('service=WMS&version=%s&request=GetMap&layers=%s&styles=&srs=EPSG:4326&crs=EPSG:4326'
          '&bbox=0,0,10,10&width=100&height=100&format=image/png')

# (description, path, query string, expected root element (local name))
CASES = [
    ('WMS 1.1.1 GetMap, LAYERS=%01', '/service', GETMAP % ('1.1.1', 'a%01b'), 'ServiceExceptionReport'),
    ('WMS 1.3.0 GetMap, LAYERS=%08', '/service', GETMAP % ('1.3.0', 'a%08b'), 'ServiceExceptionReport'),
    ('WMS 1.1.1 GetMap, STYLES=%0B', '/service',
     (GETMAP % ('1.1.1', 'dbg')).replace('styles=', 'styles=%0B'), 'ServiceExceptionReport'),
    ('WMS unknown REQUEST=%1F', '/service', 'service=WMS&version=1.1.1&request=a%1Fb', 'ServiceExceptionReport'),
    ('OWS dispatcher, SERVICE=%02', '/service', 'service=a%02b&request=GetCapabilities', 'ExceptionReport'),
    ('WMTS KVP GetTile, LAYER=%01', '/service',
     'service=WMTS&version=1.0.0&request=GetTile&layer=a%01b&style=&tilematrixset=GLOBAL_MERCATOR'
     '&tilematrix=0&tilerow=0&tilecol=0&format=image/png', 'ExceptionReport'),
    ('WMTS REST, layer with \\x01 in the path', '/wmts/a\x01b/GLOBAL_MERCATOR/0/0/0.png', '', None),
    ('TMS, layer with \\x01 in the path', '/tms/1.0.0/a\x01b/0/0/0.png', '', 'TileMapServerError'),
]


def main():
    tmp = tempfile.mkdtemp(prefix='c18_demo1_')
    failures = []
    try:
        conf = os.path.join(tmp, 'mapproxy.yaml')
        with open(conf, 'w') as f:
            f.write(CONF)
        app = make_wsgi_app(conf, ignore_config_warnings=True)
        for desc, path, qs, root_name in CASES:
            status, headers, body = call(app, path, qs)
            ctype = headers.get('content-type', '')
            if 'xml' not in ctype:
                print('ok      %-45s -> %s %s (not an XML document)' % (desc, status, ctype))
                continue
            try:
                root = ET.fromstring(body)
            except ET.ParseError as ex:
                failures.append(desc)
                print('FAILED  %-45s -> %s %s: error document is not well-formed XML: %s'
                      % (desc, status, ctype, ex))
                print('        body: %r' % body[-160:])
                continue
            local = root.tag.split('}')[-1]
            if root_name and local != root_name:
                failures.append(desc)
                print('FAILED  %-45s -> root element %s, expected %s' % (desc, local, root_name))
                continue
            print('ok      %-45s -> %s %s, well-formed <%s>' % (desc, status, ctype, local))
    finally:
        shutil.rmtree(tmp, ignore_errors=True)

    if failures:
        print('\nPROPERTY C18 VIOLATED: %d error document(s) contain raw control characters taken from the '
              'request and cannot be parsed as XML' % len(failures))
        return 1
    print('\nall error documents are well-formed')
    return 0


if __name__ == '__main__':
    sys.exit(main())
