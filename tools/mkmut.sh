#!/bin/sh
# usage: mkmut.sh <Cxx> <name> <file relative to /repo> <sed expression>   -- writes selftest/<Cxx>/<name>.diff (a/ b/ prefixes)
P=$1; N=$2; F=$3; S=$4
D=$(mktemp -d /tmp/pyvc-mk.XXXXXX); mkdir -p "$D/a/$(dirname $F)" "$D/b/$(dirname $F)"
cp /repo/$F "$D/a/$F"; sed "$S" /repo/$F > "$D/b/$F"
mkdir -p "$(dirname "$0")/../selftest/$P"
( cd "$D" && diff -u a/$F b/$F ) > "$(dirname "$0")/../selftest/$P/$N.diff"
n=$(grep -c '^[-+][^-+]' "$(dirname "$0")/../selftest/$P/$N.diff")
rm -rf "$D"
[ "$n" -ge 1 ] || { echo "no change produced for $N"; rm -f "$(dirname "$0")/../selftest/$P/$N.diff"; exit 1; }
echo "selftest/$P/$N.diff ($n changed lines)"
