"""
C20 / defect 1: with meta tiles (the default for WMS sources) the tile that is
handed to the tile services is not the tile that was created and stored:
TileManager._load_tile_coords copies only `.source` from the created tile, so
timestamp, size and the cacheable flag of the created tile are lost.

  A. refresh: the request tile still carries the timestamp/size of the STALE
     file (loaded by TileManager.is_cached), the response has the new body
     with the old validators -> a client holding the old ETag gets 304 although
     the tile was just rewritten with different content.
  B. upstream error mapped to an uncached fill image (on_error, cache: False):
     the response tile keeps cacheable=True -> 'public, max-age', an ETag and
     no no-store directive.
"""
import os
import shutil
import sys
import tempfile
import threading
import time
from io import BytesIO
from http.server import BaseHTTPRequestHandler, HTTPServer
from urllib.parse import urlparse, parse_qs

sys.path.insert(0, os.getcwd())

from PIL import Image  # noqa: E402
from webtest import TestApp  # noqa: E402
from mapproxy.wsgiapp import make_wsgi_app  # noqa: E402


def png(color, size):
    buf = BytesIO()
    Image.new('RGB', size, color).save(buf, 'png')
    return buf.getvalue()


class Upstream(object):
    """Local stand-in for the upstream WMS: answers every GetMap with a
    single-colour PNG of the requested size, or with an HTTP error."""

    def __init__(self):
        self.status = 200
        self.color = (10, 20, 30)
        self.count = 0
        up = self

        class Handler(BaseHTTPRequestHandler):
            def do_GET(self):
                up.count += 1
                query = parse_qs(urlparse(self.path).query)
                q = dict((k.lower(), v[0]) for k, v in query.items())
                size = (int(q.get('width', 256)), int(q.get('height', 256)))
                if up.status == 200:
                    body, ctype = png(up.color, size), 'image/png'
                else:
                    body, ctype = b'upstream error', 'text/plain'
                self.send_response(up.status)
                self.send_header('Content-type', ctype)
                self.send_header('Content-length', str(len(body)))
                self.end_headers()
                self.wfile.write(body)

            def log_message(self, *args):
                pass

        self.server = HTTPServer(('127.0.0.1', 0), Handler)
        self.port = self.server.server_address[1]
        thread = threading.Thread(target=self.server.serve_forever)
        thread.daemon = True
        thread.start()

    def close(self):
        self.server.shutdown()
        self.server.server_close()


CONF = """
globals:
  cache:
    base_dir: %(base)s/cache_data
%(globals_extra)s
services:
  tms:
  wmts:
    restful: true
    kvp: true
  kml:
  wms:
layers:
  - name: lyr
    title: Layer
    sources: [c]
caches:
  c:
    grids: [GLOBAL_MERCATOR]
    format: image/png
    sources: [src]
%(cache_extra)s
sources:
  src:
    type: wms
    req:
      url: http://127.0.0.1:%(port)d/service
      layers: bar
    on_error:
      404:
        response: '#ff0000'
        cache: False
"""

SINGLE_TILES = "    meta_size: [1, 1]\n    meta_buffer: 0\n"


def make_app(base, port, globals_extra='', cache_extra=''):
    conf = os.path.join(base, 'mapproxy.yaml')
    with open(conf, 'w') as f:
        f.write(CONF % dict(base=base, port=port, globals_extra=globals_extra,
                            cache_extra=cache_extra))
    return TestApp(make_wsgi_app(conf))


def pixel(resp):
    if not resp.body:
        return None
    return Image.open(BytesIO(resp.body)).convert('RGB').getpixel((5, 5))


def cache_headers(resp):
    return [(k, v) for k, v in resp.headers.items()
            if k.lower() in ('etag', 'last-modified', 'cache-control', 'pragma', 'expires')]


def show(tag, resp):
    print('%-34s %s body=%d bytes pixel=%s\n%36s%s' % (
        tag, resp.status, len(resp.body), pixel(resp), '', cache_headers(resp)))


def main():
    problems = []
    up = Upstream()
    base = tempfile.mkdtemp(prefix='c20_1_')
    try:
        marker = os.path.join(base, 'marker')
        open(marker, 'w').close()
        os.utime(marker, (1000000000, 1000000000))
        # default meta_size/meta_buffer -> meta tile path
        app = make_app(base, up.port,
                       cache_extra='    refresh_before:\n      mtime: %s\n' % marker)

        # ---- A: conditional request that triggers a refresh ---------------
        url = '/tms/1.0.0/lyr/3/0/0.png'
        r1 = app.get(url)
        show('A1 creating request', r1)
        r2 = app.get(url)
        show('A2 cached', r2)
        old_etag = r2.headers['ETag']

        time.sleep(1.1)
        os.utime(marker, None)      # every tile written before now is stale
        up.color = (200, 0, 0)      # upstream content changed
        time.sleep(1.1)

        before = up.count
        r3 = app.get(url, headers={'If-None-Match': old_etag})
        show('A3 If-None-Match: <old ETag>', r3)
        rewritten = up.count > before
        r4 = app.get(url)
        show('A4 plain request afterwards', r4)
        print('   tile was re-fetched and rewritten during A3: %s' % rewritten)

        if rewritten and r3.status_int == 304:
            problems.append(
                'A: 304 for ETag %s although the tile was rewritten by this very request '
                '(stored tile is now %s, ETag %s)' % (old_etag, pixel(r4), r4.headers.get('ETag')))
        elif rewritten and r3.headers.get('ETag') == old_etag and pixel(r3) != pixel(r2):
            problems.append('A: new body %s sent with the old ETag %s' % (pixel(r3), old_etag))

        # ---- B: uncached error tiles ----------------------------------------
        up.status = 404
        for name, eurl in [
            ('TMS', '/tms/1.0.0/lyr/4/1/1.png'),
            ('WMTS', '/wmts/lyr/GLOBAL_MERCATOR/6/2/2.png'),
            ('KML', '/kml/lyr/7/3/3.png'),
        ]:
            r = app.get(eurl)
            show('B  %s error tile (upstream 404)' % name, r)
            cc = ', '.join(v for k, v in r.headers.items() if k.lower() == 'cache-control')
            if pixel(r) != (255, 0, 0):
                problems.append('B: %s: expected the red on_error fill image' % name)
            if 'no-store' not in cc or 'public' in cc or 'max-age' in cc:
                problems.append('B: %s: uncached error tile sent with Cache-control %r, ETag %r'
                                % (name, cc, r.headers.get('ETag')))
        cached_files = [f for _, _, fs in os.walk(os.path.join(base, 'cache_data'))
                        for f in fs if f.endswith('.png')]
        print('   tiles in cache after the error requests: %d (only the meta tile of A)' % len(cached_files))
    finally:
        up.close()
        shutil.rmtree(base, ignore_errors=True)

    print()
    if problems:
        print('PROPERTY C20 VIOLATED:')
        for p in problems:
            print('  - ' + p)
        return 1
    print('OK: no violation')
    return 0


if __name__ == '__main__':
    sys.exit(main())
