"""Symbolic values of pyvc: shape-concrete, leaf-symbolic.

Every Python value met during symbolic execution has a *concrete shape* (int / real / bool / str / None /
tuple of known arity / sequence of symbolic length / object reference / ...) and *symbolic leaves* (z3
terms).  Unions with None are carried by VOpt (a symbolic is-None flag); other unions are forked by the
executor when the input is created.
"""
import itertools
import z3

_ctr = itertools.count()


def uid(prefix='t'):
    return '%s!%d' % (prefix, next(_ctr))


ObjSort = z3.DeclareSort('Obj')
BlobSort = z3.DeclareSort('Blob')


opaque_eq_str = z3.Function('opaque_eq_str', ObjSort, z3.StringSort(), z3.BoolSort())
opaque_eq_int = z3.Function('opaque_eq_int', ObjSort, z3.IntSort(), z3.BoolSort())
opaque_is_none = z3.Function('opaque_is_none', ObjSort, z3.BoolSort())
opaque_is_true = z3.Function('opaque_is_true', ObjSort, z3.BoolSort())


class Value(object):
    shape = '?'


class VInt(Value):
    shape = 'int'

    def __init__(self, t):
        self.t = z3.IntVal(t) if isinstance(t, int) else t

    def conc(self):
        return self.t.as_long() if z3.is_int_value(self.t) else None

    def __repr__(self):
        return 'VInt(%s)' % self.t


class VReal(Value):
    shape = 'real'

    def __init__(self, t):
        if isinstance(t, (int, float)):
            t = z3.RealVal(repr(t) if isinstance(t, float) else t)
        self.t = t

    def __repr__(self):
        return 'VReal(%s)' % self.t


class VBool(Value):
    shape = 'bool'

    def __init__(self, t):
        self.t = z3.BoolVal(t) if isinstance(t, bool) else t

    def conc(self):
        if z3.is_true(self.t):
            return True
        if z3.is_false(self.t):
            return False
        return None

    def __repr__(self):
        return 'VBool(%s)' % self.t


class VStr(Value):
    shape = 'str'

    def __init__(self, t, isbytes=False):
        self.t = z3.StringVal(t) if isinstance(t, str) else t
        self.isbytes = isbytes

    def conc(self):
        return self.t.as_string() if z3.is_string_value(self.t) else None

    def __repr__(self):
        return 'VStr(%s)' % self.t


class VNone(Value):
    shape = 'none'

    def __repr__(self):
        return 'VNone'


NONE = VNone()


class VOpt(Value):
    """None (isnone) or `val`."""
    shape = 'opt'

    def __init__(self, isnone, val):
        self.isnone = isnone
        self.val = val

    def __repr__(self):
        return 'VOpt(%s, %r)' % (self.isnone, self.val)


class VSeq(Value):
    """tuple or list.  Concrete length: `items` (python list of Values).  Symbolic length: `length` (z3 Int)
    and `elem` (python closure z3 Int -> Value)."""
    shape = 'seq'

    def __init__(self, items=None, length=None, elem=None, kind='tuple'):
        self.items = list(items) if items is not None else None
        self._length = length
        self._elem = elem
        self.kind = kind
        self.keep = None       # filtered view: closure(z3 Int) -> z3 Bool (only all()/any()/opaque use)

    @property
    def concrete(self):
        return self.items is not None

    def length(self):
        if self.items is not None:
            return z3.IntVal(len(self.items))
        return self._length

    def elem(self, i):
        """element at z3 Int index i (0 <= i < len assumed by the caller)."""
        if self.items is not None:
            if isinstance(i, int):
                return self.items[i]
            if z3.is_int_value(i):
                return self.items[i.as_long()]
            if not self.items:
                raise Unsupported('index into empty concrete sequence')
            r = self.items[-1]
            for k in range(len(self.items) - 2, -1, -1):
                r = ite(i == k, self.items[k], r)
            return r
        if isinstance(i, int):
            i = z3.IntVal(i)
        return self._elem(i)

    def with_kind(self, kind):
        return VSeq(self.items, self._length, self._elem, kind)

    def __repr__(self):
        if self.items is not None:
            return 'VSeq%s' % (self.items,)
        return 'VSeq(len=%s)' % (self._length,)


class VObj(Value):
    shape = 'obj'

    def __init__(self, ref, cls):
        self.ref = ref
        self.cls = cls      # qualified class key 'module:Class' or a stub class name

    def __repr__(self):
        return 'VObj(%s#%s)' % (self.cls, self.ref)


class VOpaque(Value):
    """a value we know nothing about except identity."""
    shape = 'opaque'

    def __init__(self, t=None, name='o'):
        self.t = t if t is not None else z3.Const(uid(name), ObjSort)

    def __repr__(self):
        return 'VOpaque(%s)' % self.t


class VBlob(Value):
    """byte string treated abstractly: identity (uninterpreted) + length."""
    shape = 'blob'

    def __init__(self, t, length):
        self.t = t
        self.len = length

    def __repr__(self):
        return 'VBlob(%s)' % self.t


class VFunc(Value):
    """a callable known to the executor (module function, bound method, builtin, lambda)."""
    shape = 'func'

    def __init__(self, kind, target, selfv=None, name=None):
        self.kind = kind        # 'py' (FunctionInfo), 'builtin', 'lambda', 'class', 'exc', 'module'
        self.target = target
        self.selfv = selfv
        self.name = name

    def __repr__(self):
        return 'VFunc(%s %s)' % (self.kind, self.name or self.target)


class VDict(Value):
    """dict with concrete python keys (str/int/tuple constants) -> Value, insertion ordered; or a symbolic
    map (z3 arrays) when `sym` is set: (present: Array K Bool, val closure)."""
    shape = 'dict'

    def __init__(self, items=None, sym=None):
        self.items = dict(items) if items is not None else None
        self.sym = sym

    def __repr__(self):
        return 'VDict(%s)' % (self.items if self.items is not None else 'sym')


class VDictItems(Value):
    """d.items() of a symbolic dict: only usable as the iterable of a filtering comprehension / argument of dict()"""
    shape = 'dictitems'

    def __init__(self, d):
        self.d = d

    def __repr__(self):
        return 'VDictItems(sym)'


def subst_value(v, old, new):
    """v[old := new] on the z3 leaves (old, new: z3 terms of the same sort)"""
    if isinstance(new, int):
        new = z3.IntVal(new)
    sb = lambda t: z3.substitute(t, (old, new))      # noqa
    if isinstance(v, VInt):
        return VInt(sb(v.t))
    if isinstance(v, VReal):
        return VReal(sb(v.t))
    if isinstance(v, VBool):
        return VBool(sb(v.t))
    if isinstance(v, VStr):
        return VStr(sb(v.t), isbytes=v.isbytes)
    if isinstance(v, VOpaque):
        return VOpaque(sb(v.t))
    if isinstance(v, VBlob):
        return VBlob(sb(v.t), sb(v.len))
    if isinstance(v, VOpt):
        return VOpt(sb(v.isnone), subst_value(v.val, old, new))
    if isinstance(v, VSeq):
        if v.concrete:
            return VSeq([subst_value(x, old, new) for x in v.items], kind=v.kind)
        return VSeq(length=sb(v.length()), elem=lambda i, v=v: subst_value(v.elem(i), old, new), kind=v.kind)
    return v


class Unsupported(Exception):
    """construct outside the supported subset (never a verdict about the code)."""


class Raised(object):
    """exceptional outcome of an expression/statement."""

    def __init__(self, cls, args=(), note=''):
        self.cls = cls          # exception class name (str)
        self.args = args
        self.note = note

    def __repr__(self):
        return 'Raised(%s %s)' % (self.cls, self.note)


# ---------------------------------------------------------------------------------------------------------
def is_num(v):
    return isinstance(v, (VInt, VReal, VBool))


def int_term_to_real(t, depth=0):
    """ToReal pushed inward over + - * ite and numerals, so that int-then-real and real-only products of the
    same quantities become the same polynomial (z3 does not distribute to_real over nonlinear products)"""
    if z3.is_int_value(t):
        return z3.RealVal(t.as_long())
    if depth < 12 and z3.is_app(t):
        k = t.decl().kind()
        ch = t.children()
        if k == z3.Z3_OP_ADD:
            r = int_term_to_real(ch[0], depth + 1)
            for c in ch[1:]:
                r = r + int_term_to_real(c, depth + 1)
            return r
        if k == z3.Z3_OP_SUB and len(ch) >= 2:
            r = int_term_to_real(ch[0], depth + 1)
            for c in ch[1:]:
                r = r - int_term_to_real(c, depth + 1)
            return r
        if k == z3.Z3_OP_UMINUS:
            return -int_term_to_real(ch[0], depth + 1)
        if k == z3.Z3_OP_MUL:
            r = int_term_to_real(ch[0], depth + 1)
            for c in ch[1:]:
                r = r * int_term_to_real(c, depth + 1)
            return r
        if k == z3.Z3_OP_ITE:
            return z3.If(ch[0], int_term_to_real(ch[1], depth + 1), int_term_to_real(ch[2], depth + 1))
    return z3.ToReal(t)


def to_real(v):
    if isinstance(v, VReal):
        return v.t
    if isinstance(v, VInt):
        return int_term_to_real(v.t)
    if isinstance(v, VBool):
        return z3.If(v.t, z3.RealVal(1), z3.RealVal(0))
    raise Unsupported('to_real(%r)' % (v,))


def to_int(v):
    if isinstance(v, VInt):
        return v.t
    if isinstance(v, VBool):
        return z3.If(v.t, z3.IntVal(1), z3.IntVal(0))
    raise Unsupported('to_int(%r)' % (v,))


def ite(c, a, b):
    """merge two values under condition c (z3 Bool)."""
    if z3.is_true(c):
        return a
    if z3.is_false(c):
        return b
    if a is b:
        return a
    if isinstance(a, VNone) and isinstance(b, VNone):
        return a
    if isinstance(a, VNone):
        if isinstance(b, VOpt):
            return VOpt(z3.Or(c, b.isnone), b.val)
        return VOpt(c, b)
    if isinstance(b, VNone):
        if isinstance(a, VOpt):
            return VOpt(z3.Or(z3.Not(c), a.isnone), a.val)
        return VOpt(z3.Not(c), a)
    if isinstance(a, VOpt) or isinstance(b, VOpt):
        ai, av = (a.isnone, a.val) if isinstance(a, VOpt) else (z3.BoolVal(False), a)
        bi, bv = (b.isnone, b.val) if isinstance(b, VOpt) else (z3.BoolVal(False), b)
        return VOpt(z3.If(c, ai, bi), ite(c, av, bv))
    if isinstance(a, VBool) and isinstance(b, VBool):
        return VBool(z3.If(c, a.t, b.t))
    if isinstance(a, VInt) and isinstance(b, VInt):
        return VInt(z3.If(c, a.t, b.t))
    if is_num(a) and is_num(b):
        return VReal(z3.If(c, to_real(a), to_real(b)))
    if isinstance(a, VStr) and isinstance(b, VStr):
        return VStr(z3.If(c, a.t, b.t))
    if isinstance(a, VOpaque) and isinstance(b, VOpaque):
        return VOpaque(z3.If(c, a.t, b.t))
    if isinstance(a, VBlob) and isinstance(b, VBlob):
        return VBlob(z3.If(c, a.t, b.t), z3.If(c, a.len, b.len))
    if isinstance(a, VSeq) and isinstance(b, VSeq):
        if a.concrete and b.concrete and len(a.items) == len(b.items):
            return VSeq([ite(c, x, y) for x, y in zip(a.items, b.items)], kind=a.kind)
        return VSeq(length=z3.If(c, a.length(), b.length()),
                    elem=lambda i, a=a, b=b, c=c: ite(c, a.elem(i), b.elem(i)), kind=a.kind)
    if isinstance(a, VObj) and isinstance(b, VObj) and a.ref == b.ref:
        return a
    # a concrete tuple stored where only "some object" is known (e.g. appended to a list of unknown objects): box it - an
    # object that is a FUNCTION of its fields (the constructor name carries the field sorts; contracts may take it apart)
    if isinstance(a, VOpaque) and isinstance(b, VSeq) and b.concrete:
        bb = box_seq(b)
        if bb is not None:
            return VOpaque(z3.If(c, a.t, bb.t))
    if isinstance(b, VOpaque) and isinstance(a, VSeq) and a.concrete:
        ab = box_seq(a)
        if ab is not None:
            return VOpaque(z3.If(c, ab.t, b.t))
    raise Unsupported('cannot merge %r and %r' % (a, b))


def box_seq(v):
    """VSeq of scalar/opaque items -> VOpaque(opaque_box_<sorts>(items...)); None if an item has no single term"""
    terms, names = [], []
    for x in v.items:
        if isinstance(x, VInt):
            terms.append(x.t); names.append('I')
        elif isinstance(x, VReal):
            terms.append(x.t); names.append('R')
        elif isinstance(x, VBool):
            terms.append(x.t); names.append('B')
        elif isinstance(x, VStr):
            terms.append(x.t); names.append('S')
        elif isinstance(x, VOpaque):
            terms.append(x.t); names.append('O')
        else:
            return None
    f = z3.Function('opaque_box_%s_%s' % (v.kind, ''.join(names)), *([t.sort() for t in terms] + [ObjSort]))
    return VOpaque(f(*terms))


def unbox_seq(t):
    """the field terms of a boxed tuple term (after simplification), or None"""
    t = z3.simplify(t)
    if z3.is_app(t) and t.decl().name().startswith('opaque_box_'):
        return [t.arg(i) for i in range(t.num_args())]
    return None


def eq(a, b):
    """structural equality as z3 Bool (Python ==)."""
    if isinstance(a, VNone) and isinstance(b, VNone):
        return z3.BoolVal(True)
    if isinstance(a, VOpt) or isinstance(b, VOpt):
        if isinstance(a, VNone):
            return b.isnone
        if isinstance(b, VNone):
            return a.isnone
        ai, av = (a.isnone, a.val) if isinstance(a, VOpt) else (z3.BoolVal(False), a)
        bi, bv = (b.isnone, b.val) if isinstance(b, VOpt) else (z3.BoolVal(False), b)
        return z3.Or(z3.And(ai, bi), z3.And(z3.Not(ai), z3.Not(bi), eq(av, bv)))
    if isinstance(a, VNone) or isinstance(b, VNone):
        return z3.BoolVal(False)
    if isinstance(a, (VInt, VBool)) and isinstance(b, (VInt, VBool)):
        if isinstance(a, VBool) and isinstance(b, VBool):
            return a.t == b.t
        return to_int(a) == to_int(b)
    if is_num(a) and is_num(b):
        return to_real(a) == to_real(b)
    if isinstance(a, VStr) and isinstance(b, VStr):
        return a.t == b.t
    if isinstance(a, VOpaque) and isinstance(b, VOpaque):
        return a.t == b.t
    if isinstance(a, VBlob) and isinstance(b, VBlob):
        return a.t == b.t
    if isinstance(a, VSeq) and isinstance(b, VSeq):
        if a.concrete and b.concrete:
            if len(a.items) != len(b.items):
                return z3.BoolVal(False)
            return z3.And([eq(x, y) for x, y in zip(a.items, b.items)] or [z3.BoolVal(True)])
        if a.concrete or b.concrete:
            c, s = (a, b) if a.concrete else (b, a)
            n = len(c.items)
            return z3.And([s.length() == n] + [eq(c.items[k], s.elem(z3.IntVal(k))) for k in range(n)])
        i = z3.Int(uid('qi'))
        return z3.And(a.length() == b.length(),
                      z3.ForAll([i], z3.Implies(z3.And(0 <= i, i < a.length()), eq(a.elem(i), b.elem(i)))))
    if isinstance(a, VObj) and isinstance(b, VObj):
        return z3.BoolVal(a.ref == b.ref)
    if isinstance(a, VFunc) and isinstance(b, VFunc):
        return z3.BoolVal(a.kind == b.kind and a.target is b.target)
    if isinstance(a, VOpaque) or isinstance(b, VOpaque):
        # an opaque value compared with a modelled value: unknown (the opaque one may be a str, an int ...);
        # comparisons with literals are functional (the same question gets the same answer)
        o, x = (a, b) if isinstance(a, VOpaque) else (b, a)
        if isinstance(x, VStr) and z3.is_string_value(x.t):
            return opaque_eq_str(o.t, x.t)
        if isinstance(x, VInt) and z3.is_int_value(x.t):
            return opaque_eq_int(o.t, x.t)
        return z3.Bool(uid('opaque_eq'))
    # different shapes are never equal in Python (int vs str, tuple vs None ...)
    return z3.BoolVal(False)


from .values_types import Ty, parse_type, expand_unions     # noqa  (z3-free module, shared with the replayer)
