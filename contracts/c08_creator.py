"""C08 / C13 / C04 - per-thread protocol of tile creation: lock on the meta tile's main tile, re-check under the lock,
one upstream fetch per meta tile, store before release, stale fallback.  Trace conditions (DESIGN.md 2.7)."""
from pyvc.api import contract, cls, ghost, lemma
from pyvc import tracelib as T
from . import shared_grid, c03_grid, c04_meta  # noqa

# one declaration of TileManager for every module that puts its methods under contract (a later, different declaration would
# silently replace an earlier one and change what the trace clauses of the other module can see)
TILE_MANAGER_FIELDS = dict(grid='opaque', cache='opaque', sources='list[opaque]', rescale_tiles='int', identifier='opaque',
                           meta_grid='opaque', format='opaque', image_opts='opaque', request_format='opaque',
                           minimize_meta_requests='bool', concurrent_tile_creators='int', locker='opaque',
                           _expire_timestamp='opt[real]', _refresh_before='opaque', pre_store_filter='opaque',
                           bulk_meta_tiles='opaque', cache_rescaled_tiles='opaque', dimensions='opaque')
C = 'mapproxy.cache.tile:'
G = 'mapproxy.grid:'

cls(C + 'TileCreator', fields=dict(cache='opaque', sources='opaque', grid='obj:mapproxy.grid:TileGrid', meta_grid='opaque',
                                   bulk_meta_tiles='bool', tile_mgr='opaque', dimensions='opaque', image_merger='opaque'))

# ---- MetaTile views -------------------------------------------------------------------------------------------
contract(G + 'MetaTile.tiles', props=['C04', 'C08'], types={}, returns='list[opt[tuple[int,int,int]]]',
         ensures=['len(result) == len(self.tile_patterns)',
                  'forall(lambda m: implies(0 <= m < len(result), result[m] == self.tile_patterns[m][0]))'],
         must_fail='len(result) == 0')

contract(G + 'MetaTile.main_tile_coord', props=['C04', 'C08'], types={}, returns='opt[tuple[int,int,int]]',
         inline=['tiles'],
         ensures=[
             # the first tile of the pattern that lies in the grid; None only if there is none
             """implies(result is not None, exists(lambda k: 0 <= k < len(self.tile_patterns)
                        and self.tile_patterns[k][0] is not None and self.tile_patterns[k][0] == result
                        and forall(lambda j: implies(0 <= j < k, self.tile_patterns[j][0] is None))))""",
             'implies(result is None, forall(lambda j: implies(0 <= j < len(self.tile_patterns), self.tile_patterns[j][0] is None)))'],
         loops={0: dict(inv=['forall(lambda j: implies(0 <= j < _k, self.tile_patterns[j][0] is None))'])},
         must_fail='result is None')

OPAQUE_FIELDS = {'cacheable': 'bool', 'coord': 'opt[tuple[int,int,int]]', 'authorize_stale': 'bool'}
OPAQUE_SPEC = {
    '_query_sources': {'returns': 'opt[opaque]', 'raises': ['SourceError']},
    'Tile': {'fields': {'coord': 'arg0'}, 'pure': True},
    'MapQuery': {'pure': True},
    'is_cached': {'returns': 'bool', 'pure': True},
    'is_stale': {'returns': 'bool', 'pure': True},
    'lock': {'pure': True},
    'tile_bbox': {'pure': True},
    'reraise_exception': {'always_raises': 'reraise'},
    'split_meta_tiles': {'returns': 'list[opaque]'},
    'apply_tile_filter': {'returns': 'opaque'},
}


def _lock_is_on_main_tile(ex, st, post, result):
    """the lock taken is the lock of the meta tile's main tile: lock(Tile(meta_tile.main_tile_coord))"""
    import z3
    from pyvc.values import eq
    goal = z3.BoolVal(True)
    n = 0
    mains = [e for e in st.trace if e.key == G + 'MetaTile.main_tile_coord' and e.args and e.args[0] is post.env['meta_tile']]
    for i, e in T.evs(st, 'lock'):
        n += 1
        coord = ex.opaque_field(st, e.args[0], 'coord')
        goal = z3.And(goal, z3.Or([eq(coord, m.result) for m in mains]) if mains else z3.BoolVal(False))
    yield ('lock_on_main_tile', z3.And(goal, z3.BoolVal(n >= 1)),
           'the lock is taken on Tile(meta_tile.main_tile_coord) (exactly the meta tile, see lemma main_tile_idempotent)')


def _fetch_result_stored_under_lock(ex, st, post, result):
    """fetch path with a cacheable result: store_tiles happens before the lock is released"""
    import z3
    goal = z3.BoolVal(True)
    for i, e in T.evs(st, '_query_sources'):
        if e.raised or e.result is None:
            continue
        res = e.result
        stores = [(j, s) for j, s in T.evs(st, 'store_tiles') if j > i and T.held(s) and T.held(s) == T.held(e)]
        if stores:
            continue
        # no store on this path: only allowed if the fetched image is empty/None or not cacheable
        img = res.val if hasattr(res, 'val') else res
        cacheable = ex.truth(st, ex.opaque_field(st, img, 'cacheable'))
        isnone = res.isnone if hasattr(res, 'isnone') else z3.BoolVal(False)
        truthy = ex.truth(st, res)
        goal = z3.And(goal, z3.Or(z3.Not(truthy), z3.Not(cacheable)))
    yield ('fetched_tiles_stored_under_lock', goal,
           'after an upstream fetch with a cacheable result, store_tiles is called before the lock is released')


def _failed_refresh_keeps_old_tile_ref(ex, st, post, result):
    return _failed_refresh_keeps_old_tile(ex, st, post, result)


contract(C + 'TileCreator._create_meta_tile', props=['C08', 'C04', 'C13'],
         types=dict(meta_tile='obj:mapproxy.grid:MetaTile'), returns='opaque',
         default_callee='opaque', opaque_spec=OPAQUE_SPEC, opaque_fields=OPAQUE_FIELDS, stable_fields=['cacheable', 'coord'],
         requires=[], raises={'SourceError': True, 'IOError': True},      # IOError: an undecodable meta image (split_meta_tiles)
         ensures=[],
         trace=[
             T.only_under_lock('_query_sources', text='C08(iii): the upstream is queried only while the meta tile lock is held'),
             T.preceded_by('_query_sources', 'is_cached', under_same_lock=True, quantified=True,
                           text='C08(iii): the upstream is queried only after a cache re-check of ALL tiles of the meta tile made under the same lock'),
             T.at_most_once('_query_sources', text='C08(iv)/C04: one upstream request per meta tile per invocation'),
             T.only_under_lock('store_tiles', text='C08: tiles are stored while the lock is held'),
             _lock_is_on_main_tile,
             _fetch_result_stored_under_lock,
             T.no_event_after('_query_sources', ['load_tiles'], text='fetch path does not fall back to a cache load'),
             _failed_refresh_keeps_old_tile_ref,
         ])


# ---- single tile creation (no meta tiling): check - lock - recheck - fetch - store; stale fallback (C13) -----------
def _single_lock_on_tile(ex, st, post, result):
    import z3
    ok = all(e.args and e.args[0] is post.env['tile'] for i, e in T.evs(st, 'lock')) and len(T.evs(st, 'lock')) >= 1
    yield ('lock_on_requested_tile', z3.BoolVal(ok), 'the lock is taken on the requested tile')


def _fetch_only_if_recheck_failed(ex, st, post, result):
    """a _query_sources event implies that the is_cached re-check made under the lock returned False"""
    import z3
    goal = z3.BoolVal(True)
    for i, e in T.evs(st, '_query_sources'):
        checks = [c for j, c in T.evs(st, 'is_cached') if j < i and T.held(c) and T.held(c) == T.held(e)]
        if not checks:
            goal = z3.BoolVal(False)
            continue
        goal = z3.And(goal, z3.Not(ex.truth(st, checks[-1].result)))
    yield ('fetch_only_if_not_cached', goal,
           'C13: a tile found fresh by the re-check under the lock causes no upstream request')


def _failed_refresh_keeps_old_tile(ex, st, post, result):
    """C13: when the upstream fails (SourceError from _query_sources) nothing is stored or removed afterwards"""
    import z3
    ok = True
    for i, e in T.evs(st, '_query_sources'):
        if e.raised:
            for j, x in T.evs(st, 'store_tile', 'store_tiles', 'remove_tile', 'remove_tiles'):
                if j > i:
                    ok = False
    yield ('failed_refresh_keeps_old_tile', z3.BoolVal(ok), 'C13: a refresh that fails stores/removes nothing')


def _single_store_under_lock(ex, st, post, result):
    import z3
    goal = z3.BoolVal(True)
    for i, e in T.evs(st, '_query_sources'):
        if e.raised or e.result is None:
            continue
        res = e.result
        stores = [(j, s) for j, s in T.evs(st, 'store_tile') if j > i and T.held(s) and T.held(s) == T.held(e)]
        loads = [(j, s) for j, s in T.evs(st, 'load_tile') if j > i]
        if stores or loads:
            continue
        img = res.val if hasattr(res, 'val') else res
        cacheable = ex.truth(st, ex.opaque_field(st, img, 'cacheable'))
        goal = z3.And(goal, z3.Or(z3.Not(ex.truth(st, res)), z3.Not(cacheable)))
    yield ('fetched_tile_stored_under_lock', goal,
           'after an upstream fetch with a cacheable result, store_tile is called before the lock is released '
           '(or the stale tile is served instead, when the source authorises that)')


contract(C + 'TileCreator._create_single_tile', props=['C08', 'C13'],
         types=dict(tile='opaque', dimensions='opaque'), returns='opaque',
         default_callee='opaque', opaque_spec=OPAQUE_SPEC, opaque_fields=OPAQUE_FIELDS, stable_fields=['cacheable', 'coord'],
         inline=['is_cached', 'is_stale'], opaque=['tile_bbox'],
         requires=[], raises={'SourceError': True, 'Exception': True},
         trace=[
             T.only_under_lock('_query_sources', text='C08(iii): the upstream is queried only while the tile lock is held'),
             T.preceded_by('_query_sources', 'is_cached', under_same_lock=True,
                           text='C08(iii): the upstream is queried only after a cache re-check made under the same lock'),
             T.at_most_once('_query_sources', text='C08(iv): one upstream request per invocation'),
             T.only_under_lock('store_tile', text='tiles are stored while the lock is held'),
             _single_lock_on_tile, _fetch_only_if_recheck_failed, _failed_refresh_keeps_old_tile, _single_store_under_lock,
         ])


# ---- what is asked upstream and what is handed back (added after the mutation audit: argument order and the cached path) ----
def _meta_request_and_result(ex, st, post, result):
    import z3
    from pyvc.values import eq, VSeq
    mt = post.env['meta_tile']
    h = st.heap[mt.ref]
    self_h = st.heap[post.env['self'].ref]
    mq = [e for i, e in T.evs(st, 'MapQuery')]
    qs = [e for i, e in T.evs(st, '_query_sources')]
    sp = [e for i, e in T.evs(st, 'split_meta_tiles')]
    ld = [e for i, e in T.evs(st, 'load_tiles')]
    goal = z3.BoolVal(len(mq) == 1)
    if mq:
        grid = st.heap[self_h['grid'].ref]
        goal = z3.And(goal, eq(mq[0].args[0], h['bbox']), eq(mq[0].args[1], h['size']), eq(mq[0].args[2], grid['srs']))
    for e in qs:
        goal = z3.And(goal, z3.BoolVal(bool(mq) and e.args[-1] is mq[0].result))
    for e in sp:
        ok = len(qs) == 1 and len(e.args) == 4 and (e.args[0] is qs[0].result or getattr(qs[0].result, 'val', None) is e.args[0])
        goal = z3.And(goal, z3.BoolVal(bool(ok)))
        if ok:
            goal = z3.And(goal, eq(e.args[1], h['tile_patterns']), eq(e.args[2], st.heap[self_h['grid'].ref]['tile_size']))
    yield ('upstream_query_is_the_meta_tile', goal,
           'the one upstream query is MapQuery(meta_tile.bbox, meta_tile.size, grid.srs, ..); the answer is split with '
           'meta_tile.tile_patterns and the grid tile size (argument order included)')
    if not qs:
        # everything was cached: the tiles are LOADED from the cache and returned
        ok = len(ld) == 1 and isinstance(ld[0].args[-1] if not ld[0].kwargs.get('tiles') else None, VSeq) and result is ld[0].args[-1]
        g2 = z3.BoolVal(bool(ok))
        if ok:
            tl = ld[0].args[-1]
            g2 = z3.And(g2, tl.length() == h['tile_patterns'].length())
        yield ('cached_meta_tile_is_loaded', g2,
               'when the re-check finds every tile cached, cache.load_tiles([Tile(c) for c in meta_tile.tiles]) is called and '
               'exactly that list is returned (one entry per pattern entry)')


_cm = __import__('pyvc.api', fromlist=['REG']).REG.contracts[C + 'TileCreator._create_meta_tile']
_cm['trace'] = list(_cm['trace']) + [_meta_request_and_result]


def _single_request_and_result(ex, st, post, result):
    import z3
    from pyvc.values import eq, VSeq
    tile = post.env['tile']
    self_h = st.heap[post.env['self'].ref]
    grid = st.heap[self_h['grid'].ref]
    mq = [e for i, e in T.evs(st, 'MapQuery')]
    tb = [e for i, e in T.evs(st, 'tile_bbox', 'TileGrid.tile_bbox')]
    qs = [e for i, e in T.evs(st, '_query_sources')]
    ld = [e for i, e in T.evs(st, 'load_tile')]
    ok = len(mq) == 1 and len(tb) == 1 and mq[0].args[0] is tb[0].result
    goal = z3.BoolVal(bool(ok))
    if ok:
        goal = z3.And(goal, eq(tb[0].args[-1], ex.opaque_field_at(st, tb[0], tile, 'coord')),
                      eq(mq[0].args[1], grid['tile_size']), eq(mq[0].args[2], grid['srs']))
        # the FULL rectangle (not cut to the grid extent: it is rendered at the full tile size)
        lim = tb[0].kwargs.get('limit')
        goal = z3.And(goal, z3.Not(ex.truth(st, lim)) if lim is not None else z3.BoolVal(True))
    for e in qs:
        goal = z3.And(goal, z3.BoolVal(bool(mq) and e.args[-1] is mq[0].result))
    yield ('upstream_query_is_the_tile', goal,
           'the upstream query is MapQuery(grid.tile_bbox(tile.coord), grid.tile_size, grid.srs, ..) - the rectangle of the requested address')
    if not qs:
        ok2 = len(ld) == 1 and ld[0].args[-1] is tile and isinstance(result, VSeq) and result.concrete and len(result.items) == 1 \
            and result.items[0] is tile
        yield ('cached_tile_is_loaded', z3.BoolVal(bool(ok2)),
               'a tile found cached by the re-check is loaded from the cache (cache.load_tile(tile)) and returned as [tile]')


def _recheck_looks_at_the_cache(ex, st, post, result):
    """C08: the re-check under the lock must see what another holder of the lock stored meanwhile.  The requested tile object can
    carry an expired copy loaded before the lock was taken, and several backends (sqlite, mbtiles, s3 ...) answer is_cached /
    load_tile_metadata for a tile that has bytes without reading the cache again: the object that is re-checked is therefore a
    fresh Tile of the same address (S41)"""
    import z3
    from pyvc.values import eq
    tile = post.env['tile']
    checks = [(i, e) for i, e in T.evs(st, 'is_cached') if T.held(e)]
    made = [(i, e) for i, e in T.evs(st, 'Tile')]
    ok = len(checks) >= 1
    g = z3.BoolVal(bool(ok))
    if ok:
        i0, c0 = checks[0]
        a = [x for x in c0.args if x is not c0.recv]
        src = [m for j, m in made if j < i0 and a and a[0] is m.result]
        ok2 = len(a) >= 1 and a[0] is not tile and len(src) == 1 and len(src[0].args) == 1 and not src[0].kwargs
        g = z3.BoolVal(bool(ok2))
        if ok2:
            g = z3.And(g, eq(src[0].args[0], ex.opaque_field_at(st, src[0], tile, 'coord')))
    yield ('recheck_under_lock_reads_the_cache', g,
           'the object re-checked under the lock is a fresh Tile(tile.coord) - never the requested tile object with the copy it '
           'was given before the lock was taken')


def _new_source_gets_own_validators(ex, st, post, result):
    """C20/C13: time stamp and size loaded from a replaced (expired) version do not describe the new source"""
    import z3
    from pyvc.values import VNone
    tile = post.env['tile']
    qs = [e for i, e in T.evs(st, '_query_sources')]
    sets = [(i, e) for i, e in enumerate(st.trace) if e.name == 'setattr:source' and e.recv is not None and hasattr(tile, 't') and e.recv.t.eq(tile.t)]
    g = z3.BoolVal(True)
    for i, e in sets:
        later = st.trace[i:]
        cleared = all(any(x.name == 'setattr:' + a and x.recv is not None and x.recv.t.eq(tile.t) and isinstance(x.args[1], VNone)
                          and not any(y.name in ('store_tile', 'load_tile') for y in later[:later.index(x)])
                          for x in later) for a in ('timestamp', 'size'))
        g = z3.And(g, z3.BoolVal(bool(cleared)))
    yield ('new_source_gets_validators_of_its_own', g,
           'whenever the tile gets another source (the upstream answer, or - after the re-check found it cached - whatever the '
           'cache holds now) its timestamp and size are reset before the tile is stored / loaded: a rewritten tile is never '
           'answered with the Last-Modified / ETag of the version it replaces')


_cs = __import__('pyvc.api', fromlist=['REG']).REG.contracts[C + 'TileCreator._create_single_tile']
_cs['trace'] = list(_cs['trace']) + [_single_request_and_result, _recheck_looks_at_the_cache, _new_source_gets_own_validators]


def recheck_decides(fetch_event):
    """the upstream is asked exactly when the re-check under the lock found at least one tile of the meta tile NOT cached; if all
    are cached nothing is fetched (added after the mutation audit: the condition itself, not only its position)"""
    def clause(ex, st, post, result):
        import z3
        checks = [e for i, e in T.evs(st, 'is_cached') if e.quant is not None]
        fetches = T.evs(st, fetch_event)
        if not checks:
            yield ('recheck_made', z3.BoolVal(False), 'the cache re-check of all tiles of the meta tile is made')
            return
        e = checks[-1]
        gi, n, keep = e.quant
        all_cached = z3.ForAll([gi], z3.Implies(z3.And(gi >= 0, gi < n, keep), ex.truth(st, e.result)))
        # ... over ALL in-grid tiles of THIS meta tile: one test per pattern entry whose tile is not None
        mt_h = st.heap[post.env['meta_tile'].ref]
        targ = e.args[0]
        rng = z3.BoolVal(hasattr(targ, 'isnone'))
        if hasattr(targ, 'isnone'):
            rng = z3.And(n == mt_h['tile_patterns'].length(),
                         z3.ForAll([gi], z3.Implies(z3.And(gi >= 0, gi < n), keep == z3.Not(targ.isnone))))
        yield ('recheck_covers_every_tile_of_the_meta_tile', rng,
               'the re-check tests every tile of meta_tile.tiles that lies in the grid (t is not None), no other set')
        yield ('fetch_iff_something_uncached', (z3.Not(all_cached) if fetches else all_cached),
               'fetch path <=> not all(is_cached(t) for t in meta_tile.tiles if t is not None); cached path <=> all cached')
    return clause


_cm['trace'] = list(_cm['trace']) + [recheck_decides('_query_sources')]
