"""developer CLI:  python3-vt -m pyvc.cli <contracts module> [key-substring]"""
import importlib
import sys
import time
from .api import REG
from .progdb import ProgDB
from .verify import verify_target


def main():
    mods = sys.argv[1].split(',')
    sub = sys.argv[2] if len(sys.argv) > 2 else ''
    for m in mods:
        importlib.import_module(m)
    import os; db = ProgDB(os.environ.get('PYVC_REPO', '/repo'))
    for key, c in REG.contracts.items():
        if sub not in key or not c.get('verify', True):
            continue
        t0 = time.time()
        r = verify_target(db, REG, key)
        print('== %s  (%.2fs) paths=%s' % (key, time.time() - t0, r.info.get('paths')))
        if r.unsupported:
            print('   UNSUPPORTED:', r.unsupported)
        if r.error:
            print('   ERROR:', r.error)
        for oid, o in r.obligations.items():
            flag = {'unsat': 'ok  ', 'sat': 'FAIL', 'unknown': '??  ', 'vacuous': 'VAC ', 'missing': 'MISS'}.get(o['verdict'], o['verdict'])
            print('   %s %-55s paths=%-3d %5dms %s' % (flag, oid, o['paths'], o['ms'], o.get('backend')))
            if o['verdict'] in ('sat', 'unknown'):
                print('        clause:', o.get('clause'))
                print('        where :', o.get('where'), o.get('why', ''))
                if 'model' in o:
                    m = o['model']; print('        model :', str({k: m[k] for k in sorted(m, key=lambda k: k == 'self')})[:900])


if __name__ == '__main__':
    main()
