"""C15 - parallel fan-out returns every result exactly once and in input order (for EVERY arrival order)."""
from pyvc.api import contract, cls, ghost, lemma
from pyvc import tracelib as T
A = 'mapproxy.util.async_:'

cls(A + 'ThreadPool', fields=dict(pool_size='int', task_queue='opaque', result_queue='opaque', pool='opaque'))


# The arrival sequence produced by the workers, in the order in which the consumer receives it: arrival j carries
# index arr_idx(j) and value arr_val(arr_idx(j)).  "Any completion order" = any injective arr_idx.  arr_pos is the
# inverse (position at which an index arrives), used instead of an existential quantifier.
def _mk(name, dom, rng):
    def fn(ex, st, *args):
        import z3
        from pyvc.values import VInt, VOpaque, ObjSort
        sorts = {'int': z3.IntSort(), 'obj': ObjSort}
        f = z3.Function(name, *([sorts[d] for d in dom] + [sorts[rng]]))
        r = f(*[a.t for a in args])
        return VInt(r) if rng == 'int' else VOpaque(r)
    return fn


ghost('arr_idx', ['j'], _mk('arr_idx', ['int'], 'int'))
ghost('arr_pos', ['i'], _mk('arr_pos', ['int'], 'int'))
ghost('arr_val', ['i'], _mk('arr_val', ['int'], 'obj'))
ghost('arr_len', [], _mk('arr_len', [], 'int'))
# index i has arrived among the first k arrivals
ghost('arrived', ['i', 'k'], "0 <= arr_pos(i) and arr_pos(i) < k and arr_idx(arr_pos(i)) == i")


def _make_arrivals(ex, st, args, kwargs):
    import z3
    from pyvc.values import VSeq, VInt, VOpaque, ObjSort
    idx = z3.Function('arr_idx', z3.IntSort(), z3.IntSort())
    val = z3.Function('arr_val', z3.IntSort(), ObjSort)
    n = z3.Function('arr_len')() if False else z3.Const('arr_len', z3.IntSort())
    return VSeq(length=z3.Function('arr_len', z3.IntSort())(), kind='list',
                elem=lambda j: VSeq([VInt(idx(j)), VOpaque(val(idx(j)))], kind='tuple'))


contract(A + 'ThreadPool._get_results', props=['C15'],
         types=dict(next_result='int', results='dict[int,opaque]', raise_exceptions='bool'),
         returns='list[opaque]', default_callee='opaque',
         opaque_spec={'_fetch_results': {'make': _make_arrivals, 'raises': ['Exception'], 'pure': True}},
         # (the arrival sequence is modelled here as an arbitrary injective sequence; _fetch_results' own contract says that it
         # hands on exactly what the queue delivers)
         opaque=['_fetch_results'],
         raises={'Exception': True},
         requires=[
             'arr_len() >= 0',
             # arrivals are distinct indices (arr_pos inverts arr_idx), not before next_result, not already stashed
             """forall(lambda j: implies(0 <= j < arr_len(), arr_pos(arr_idx(j)) == j and arr_idx(j) >= next_result
                       and not (arr_idx(j) in results)))""",
             # stashed (out-of-order) results of an earlier pass are all later than next_result
             'forall(lambda i: implies(i in results, i > next_result))',
         ],
         ensures=[
             # what was yielded: the values of indices next_result, next_result+1, ... without gap, duplicate or reordering
             """forall(lambda m: implies(0 <= m < len(result), result[m] ==
                       (old(results)[next_result + m] if (next_result + m) in old(results) else arr_val(next_result + m))))""",
             # every yielded index was really available, and the first index NOT yielded is not available
             """forall(lambda m: implies(0 <= m < len(result), ((next_result + m) in old(results)) or arrived(next_result + m, arr_len())))""",
             'not ((next_result + len(result)) in old(results)) and not arrived(next_result + len(result), arr_len())',
         ],
         loops={
             0: dict(yield_type='opaque', types={'results': 'dict[int,opaque]', 'next_result': 'int'}, inv=[
                 'next_result == old(next_result) + len(yielded) and len(yielded) >= 0',
                 """forall(lambda m: implies(0 <= m < len(yielded), yielded[m] ==
                       (old(results)[old(next_result) + m] if (old(next_result) + m) in old(results) else arr_val(old(next_result) + m))))""",
                 """forall(lambda m: implies(0 <= m < len(yielded), ((old(next_result) + m) in old(results)) or arrived(old(next_result) + m, _k)))""",
                 # the stash: exactly the available, not yet yielded indices; the next index is not available yet
                 """forall(lambda i: (i in results) == (i > next_result and ((i in old(results)) or arrived(i, _k))))""",
                 """forall(lambda i: implies(i in results, results[i] == (old(results)[i] if i in old(results) else arr_val(i))))""",
                 'not (next_result in old(results)) and not arrived(next_result, _k)',
             ]),
             # ('value' typed so that a version that re-uses the loop variable inside the inner loop stays inside the subset)
             1: dict(yield_type='opaque', types={'results': 'dict[int,opaque]', 'next_result': 'int', 'value': 'opt[opaque]'}, inv=[
                 'next_result == old(next_result) + len(yielded) and len(yielded) >= 1',
                 """forall(lambda m: implies(0 <= m < len(yielded), yielded[m] ==
                       (old(results)[old(next_result) + m] if (old(next_result) + m) in old(results) else arr_val(old(next_result) + m))))""",
                 """forall(lambda m: implies(0 <= m < len(yielded), ((old(next_result) + m) in old(results)) or arrived(old(next_result) + m, _k0 + 1)))""",
                 """forall(lambda i: (i in results) == (i >= next_result and ((i in old(results)) or arrived(i, _k0 + 1))))""",
                 """forall(lambda i: implies(i in results, results[i] == (old(results)[i] if i in old(results) else arr_val(i))))""",
             ]),
         },
         must_fail='len(result) == 0')

lemma('all_results_in_order', ['C15'],
      doc='if the available indices are exactly [n0, N) then the maximal contiguous run starting at n0 (what _get_results '
          'yields) has length N - n0: nothing lost, nothing duplicated',
      fn=lambda z3: (lambda n0, N, L, avail: (
          [n0 <= N, L >= 0,
           z3.ForAll([z3.Int('i')], avail(z3.Int('i')) == z3.And(n0 <= z3.Int('i'), z3.Int('i') < N)),
           z3.ForAll([z3.Int('m')], z3.Implies(z3.And(0 <= z3.Int('m'), z3.Int('m') < L), avail(n0 + z3.Int('m')))),
           z3.Not(avail(n0 + L))],
          L == N - n0))(z3.Int('n0'), z3.Int('N'), z3.Int('L'), z3.Function('avail', z3.IntSort(), z3.BoolSort())))


# ---- worker: exactly one result per task, delivered before the task is marked done --------------------------------------
cls(A + 'ThreadWorker', fields=dict(task_queue='opaque', result_queue='opaque', base_config='opaque'))


def _one_put_per_task(ex, st, k):
    import z3
    from pyvc.values import eq
    n0 = getattr(st, 'iter_start_trace', 0)
    evs_ = st.trace[n0:]
    gets = [e for e in evs_ if e.name == 'get']
    puts = [(i, e) for i, e in enumerate(evs_) if e.name == 'put']
    dones = [(i, e) for i, e in enumerate(evs_) if e.name == 'task_done']
    calls = [e for e in evs_ if e.name == 'func']
    ok = len(gets) == 1 and len(puts) == 1 and len(dones) == 1 and len(calls) == 1 and puts[0][0] < dones[0][0]
    goal = z3.BoolVal(ok)
    if ok:
        task = gets[0].result.val
        payload = puts[0][1].args[0]
        goal = z3.And(goal, eq(payload.items[0], task.items[0]))        # the result carries the task's own id
        if not calls[0].raised:
            goal = z3.And(goal, eq(payload.items[1], calls[0].result))  # ... and the task's own return value
    yield ('one_result_per_task_before_done', goal,
           'each non-sentinel task: one result_queue.put((exec_id, result-or-exc_info)) with the task\'s own id, BEFORE '
           'task_queue.task_done() (so join() cannot return before the last result is queued)')


contract(A + 'ThreadWorker.run', props=['C15'], types={}, returns='none', default_callee='opaque',
         opaque_spec={'get': {'returns': 'opt[tuple[int,opaque,opaque]]', 'pure': True}, 'func': {'raises': ['Exception'], 'pure': True},
                      'put': {'pure': True}, 'task_done': {'pure': True}, 'local_base_config': {'pure': True},
                      'exc_info': {'pure': True}},
         loops={0: dict(inv=[], body_trace=[_one_put_per_task])},
         trace=[])


# ---- map_each: sequential branch (pool size < 2) -----------------------------------------------------------------------
def _sequential_item(ex, st, k):
    import z3
    n0 = getattr(st, 'iter_start_trace', 0)
    evs_ = st.trace[n0:]
    calls = [e for e in evs_ if e.name == 'func']
    ok = len(calls) == 1
    rm = st.env['raise_exceptions']
    goal = z3.BoolVal(ok)
    if ok and calls[0].raised:
        # the item failed and the iteration went on: only allowed when exceptions are reported as values
        goal = z3.And(goal, z3.Not(rm.t))
    yield ('sequential_exception_mode', goal,
           'sequential branch: with raise_exceptions an item\'s exception is re-raised, never handed out as a result value')


def _pooled_submit(ex, st, k):
    """pooled branch, submission loop: item k is queued once, tagged with its own position k"""
    import z3
    from pyvc.values import VSeq, eq, to_int
    evs_ = st.trace[getattr(st, 'iter_start_trace', 0):]
    puts = [e for e in evs_ if e.name == 'put']
    ok = len(puts) == 1 and isinstance(puts[0].args[-1], VSeq) and puts[0].args[-1].concrete and len(puts[0].args[-1].items) == 3
    goal = z3.BoolVal(bool(ok))
    if ok:
        t = puts[0].args[-1].items
        item = st.env['func_args'].elem(k)
        goal = z3.And(goal, to_int(t[0]) == k, eq(t[1], item.items[0]), eq(t[2], item.items[1]))
    yield ('task_tagged_with_its_position', goal,
           'item k of the input is put on the task queue exactly once as (k, func_k, args_k): results can be re-ordered by that tag')


def _pooled_protocol(ex, st, post, result):
    import z3
    from pyvc.values import to_int
    if not T.evs(st, '_init_pool', 'ThreadPool._init_pool'):
        return
    gets = T.evs(st, '_get_results', 'ThreadPool._get_results')
    joins = T.evs(st, 'join')
    shut = T.evs(st, 'shutdown', 'ThreadPool.shutdown')
    ok = len(gets) == 2 and len(joins) == 1 and len(shut) == 1 and gets[0][0] < joins[0][0] < gets[1][0] < shut[0][0]
    goal = z3.BoolVal(bool(ok))
    if ok:
        a0 = [a for a in gets[0][1].args if a is not post.env['self']]
        a1 = [a for a in gets[1][1].args if a is not post.env['self']]
        # both passes use the SAME stash dictionary; the first starts at 0, the second continues where the first stopped
        goal = z3.And(goal, z3.BoolVal(a0[1] is a1[1] and a0[2] is a1[2]), to_int(a0[0]) == 0,
                      to_int(a1[0]) == gets[0][1].result.length())
    # C15 "never attributed to another item": the queues this call reads are its own.  A pool object may be used again after a call
    # was aborted (raise mode, shutdown(force=True)); items of that call which are still running deliver (index, value) later -
    # into queues that a later call must not read (S42)
    init = T.evs(st, '_init_pool', 'ThreadPool._init_pool')
    made = [(i, e) for i, e in T.evs(st, 'Queue')]
    h = st.heap[post.env['self'].ref]
    tq, rq = h['task_queue'], h['result_queue']
    own = len(made) == 2 and all(i < init[0][0] for i, e in made) and any(tq is m.result for j, m in made) \
        and any(rq is m.result for j, m in made) and tq is not rq
    if own:
        # ... and they are the queues the call works with (the join that separates the two collection passes waits on this task queue)
        own = all(e.recv is not None and hasattr(tq, 't') and e.recv.t.eq(tq.t) for j, e in joins)
    yield ('call_has_queues_of_its_own', z3.BoolVal(bool(own)),
           'pooled branch: task queue and result queue are created by this call (two new Queue objects assigned before the workers '
           'are started; the tasks are put on that task queue): a result delivered late by an item of an earlier, aborted call on '
           'the same pool object cannot be read as a result of this call')
    yield ('two_passes_share_stash_and_counter', goal,
           'pooled branch: collect what is available, task_queue.join() (all tasks done, so all results queued), collect the rest '
           'with the same stash dict and next_result = number of results handed out so far, then shut the pool down')


contract(A + 'ThreadPool.map_each', props=['C15'],
         types=dict(func_args='list[tuple[opaque,opaque]]', raise_exceptions='bool'), returns='list[opaque]',
         default_callee='opaque',
         variants=[dict(requires=['self.pool_size < 2'], ensures=['len(result) == len(func_args)'], must_fail='len(result) == 0'),
                   dict(requires=['self.pool_size >= 2'], ensures=[], must_fail=None, raises={'Exception': True})],
         opaque_spec={'func': {'raises': ['Exception'], 'pure': True}, 'exc_info': {'pure': True},
                      '_init_pool': {'pure': True}, 'put': {'pure': True}, 'join': {'pure': True}, 'shutdown': {'pure': True},
                      'Queue': {'pure': True},
                      '_get_results': {'returns': 'list[opaque]', 'raises': ['Exception']}},
         opaque=['_init_pool', '_get_results', 'shutdown'],
         raises={'Exception': 'raise_exceptions'},
         loops={0: dict(yield_type='opaque', inv=['len(yielded) == _k'], body_trace=[_sequential_item]),
                1: dict(yield_type='opaque', inv=['len(yielded) == 0'], types={'i': 'int'}, body_trace=[_pooled_submit]),
                2: dict(yield_type='opaque', inv=['next_result == len(yielded)', 'len(yielded) == _k'], types={'next_result': 'int'}),
                3: dict(yield_type='opaque', inv=['next_result == len(yielded)'], types={'next_result': 'int'})},
         trace=[_pooled_protocol])


# ---- starmap: the one-item shortcut is taken only for ONE item --------------------------------------------------------------------
def _starmap_dispatch(ex, st, post, result):
    import z3
    from pyvc.values import VSeq, eq
    args = post.env['args']
    single = T.evs(st, '_single_call', 'ThreadPool._single_call')
    many = T.evs(st, 'map_each', 'ThreadPool.map_each')
    goal = z3.BoolVal(len(single) + len(many) == 1)
    if single:
        # one direct call stands for the whole input list: only sound if the list has exactly one item, and it is that item
        goal = z3.And(goal, args.length() == 1, eq(single[0][1].args[-2], args.elem(z3.IntVal(0))))
    if many:
        work = [a for a in many[0][1].args if isinstance(a, VSeq)]
        ok = len(work) == 1
        goal = z3.And(goal, z3.BoolVal(ok))
        if ok:
            i = z3.Int('sm_i')
            goal = z3.And(goal, work[0].length() == args.length(),
                          z3.ForAll([i], z3.Implies(z3.And(0 <= i, i < args.length()),
                                                    z3.And(eq(work[0].elem(i).items[1], args.elem(i)),
                                                           z3.BoolVal(True)))))
    yield ('one_work_item_per_input', goal,
           'starmap hands every argument tuple to the pool (one (func, arg) pair per input, in order); the direct-call '
           'shortcut is used only when there is exactly ONE input')


contract(A + 'ThreadPool.starmap', props=['C15'],
         types=dict(func='opaque', args='list[opaque]', kw='opaque'), returns='opaque', default_callee='opaque',
         requires=['len(args) >= 1'],
         opaque_spec={'get': {'pure': True}, '_single_call': {'pure': True}, 'map_each': {'pure': True}, '_result_iter': {'pure': True}},
         opaque=['_single_call', 'map_each', '_result_iter'],
         trace=[_starmap_dispatch])


# ---- the one-item shortcut and the result wrapper -------------------------------------------------------------------------------------
def _single_call_mode(ex, st, post, result):
    import z3
    calls = T.evs(st, 'func')
    wrap = T.evs(st, '_result_iter')
    uro = post.env['use_result_objects']
    goal = z3.BoolVal(len(calls) == 1 and len(wrap) == 1)
    if calls and calls[0][1].raised:
        goal = z3.And(goal, uro.t)        # reached the normal exit although the item failed: only in result-object mode
    yield ('single_call_one_result', goal,
           'one call, one wrapped result; a failing item reaches the caller as a value only in result-object mode')


contract(A + 'ThreadPool._single_call', props=['C15'],
         types=dict(func='opaque', args='opaque', use_result_objects='bool'), returns='opaque', default_callee='opaque',
         opaque_spec={'func': {'raises': ['Exception'], 'pure': True}, 'exc_info': {'pure': True}, '_result_iter': {'pure': True}},
         opaque=['_result_iter'],
         raises={'Exception': 'not use_result_objects'},
         trace=[_single_call_mode])

def _wrap_item(ex, st, k):
    """result-object mode: an exception triple (exc_info of a failed item) is reported as that item's exception, every other
    value as that item's result - never the other way round, never dropped"""
    import z3
    from pyvc.values import ObjSort, VNone, VOpaque
    evs_ = st.trace[getattr(st, 'iter_start_trace', 0):]
    ar = [e for e in evs_ if e.name == 'AsyncResult']
    uro = ex.truth(st, st.env['use_result_objects'])
    item = st.env['results'].elem(k)
    goal = uro == z3.BoolVal(len(ar) == 1)
    if len(ar) == 1 and isinstance(item, VOpaque):
        is_tuple = z3.Function('opaque_isinstance_tuple', ObjSort, z3.BoolSort())(item.t)
        n = z3.Function('opaque_len', ObjSort, z3.IntSort())(item.t)
        second = [z3.Function('opaque_item_%s_%d' % (abs(hash(('i', 1))), ep), ObjSort, ObjSort)(item.t) for ep in range(0, st.epoch + 1)]
        is_exc_obj = z3.Or([z3.Function('opaque_isinstance_Exception', ObjSort, z3.BoolSort())(t_) for t_ in second])
        triple = z3.And(is_tuple, n == 3, is_exc_obj)
        a = ar[0].args
        ok_shape = len(a) == 2
        goal = z3.And(goal, z3.BoolVal(ok_shape))
        if ok_shape:
            as_exc = z3.BoolVal(isinstance(a[0], VNone) and a[1] is not None and hasattr(a[1], 't') and a[1].t.eq(item.t))
            as_res = z3.BoolVal(isinstance(a[1], VNone) and hasattr(a[0], 't') and a[0].t.eq(item.t))
            goal = z3.And(goal, z3.If(triple, as_exc, as_res))
    yield ('item_wrapped_as_result_or_exception', goal,
           'AsyncResult(None, exc_info) for an item that is an exception triple, AsyncResult(value, None) otherwise; one per item')


contract(A + '_result_iter', props=['C15'],
         types=dict(results='list[opaque]', use_result_objects='bool'), returns='list[opaque]', default_callee='opaque',
         opaque_spec={'AsyncResult': {'pure': True}, 'isinstance': {'returns': 'bool', 'pure': True}},
         ensures=['len(result) == len(results)',
                  'implies(not use_result_objects, forall(lambda m: implies(0 <= m < len(result), result[m] == results[m])))'],
         loops={0: dict(yield_type='opaque', inv=['len(yielded) == _k',
                                                 'implies(not use_result_objects, forall(lambda m: implies(0 <= m < _k, yielded[m] == results[m])))'],
                        # (`exception` is local to one iteration in the code; typed here so that a version that carries it from
                        # item to item is still inside the subset and is refuted by the per-item clause)
                        types={'exception': 'opt[opaque]'},
                        body_trace=[_wrap_item])},
         must_fail='len(result) == 0')


# ---- ThreadPool._fetch_results: every queued result is handed on, once, as it came; failures end the run only in raise mode ---------
def _fetched_is_yielded(ex, st, k):
    import z3
    evs_ = st.trace[getattr(st, 'iter_start_trace', 0):]
    pre = st.iter_start_state
    gets = [e for e in evs_ if e.name == 'get']
    y0, y1 = pre.yielded, st.yielded
    h = st.heap[st.env['self'].ref]
    ok = len(gets) == 1 and gets[0].recv is not None and gets[0].recv.t.eq(h['result_queue'].t) and not gets[0].args
    g = z3.BoolVal(bool(ok))
    if ok:
        out = y1.elem(y0.length())
        g = z3.And(g, y1.length() == y0.length() + 1, out.t == gets[0].result.t if hasattr(out, 't') else z3.BoolVal(False),
                   z3.BoolVal(not [e for e in evs_ if e.name in ('shutdown', 'ThreadPool.shutdown')]))
    yield ('each_result_taken_once_and_handed_on', g,
           'one result_queue.get() per step; that very (index, value) pair is yielded next; nothing is dropped, duplicated or reordered here')


def _failure_stops_pool(ex, st, k, pre, exc):
    import z3
    evs_ = st.trace[getattr(st, 'iter_start_trace', 0):]
    sh = [e for e in evs_ if e.name in ('shutdown', 'ThreadPool.shutdown')]
    raise_mode = ex.truth(st, st.env['raise_exceptions'])
    ok = len(sh) == 1 and 'force' in sh[0].kwargs
    g = z3.And(z3.BoolVal(bool(ok)), raise_mode)
    if ok:
        g = z3.And(g, ex.truth(st, sh[0].kwargs['force']))
    yield ('failure_raised_only_in_raise_mode_after_forced_shutdown', g,
           "the exception of a failed item is re-raised only in raise mode, after shutdown(force=True) emptied the queues (no worker "
           'keeps running for a request that already failed)')


cls(A + 'ThreadPool', fields=dict(pool_size='int', task_queue='opaque', result_queue='opaque', pool='opaque'))
contract(A + 'ThreadPool._fetch_results', props=['C15'],
         types=dict(raise_exceptions='bool'), returns='list[opaque]', default_callee='opaque',
         opaque_spec={'empty': {'returns': 'bool', 'pure': True}, 'get': {}, 'shutdown': {}, 'with_traceback': {'pure': True},
                      'isinstance': {'returns': 'bool', 'pure': True}},
         opaque=['shutdown'],
         raises={'Exception': 'raise_exceptions'},
         loops={0: dict(yield_type='opaque', inv=[], types={'task_result': 'opaque'}, body_trace=[_fetched_is_yielded],
                        raise_trace=[_failure_stops_pool])})


# ---- ThreadPool.shutdown: one stop sentinel per worker; a forced shutdown first drops everything that is still queued -----------------
def _one_sentinel(ex, st, k):
    import z3
    from pyvc.values import VNone
    evs_ = st.trace[getattr(st, 'iter_start_trace', 0):]
    h = st.heap[st.env['self'].ref]
    ok = len(evs_) == 1 and evs_[0].name == 'put' and evs_[0].recv is not None and evs_[0].recv.t.eq(h['task_queue'].t) \
        and len(evs_[0].args) == 1 and isinstance(evs_[0].args[0], VNone)
    yield ('one_stop_sentinel_per_worker', z3.BoolVal(bool(ok)), 'each of the pool_size steps puts exactly one None (stop) on the task queue')


def _forced_drops_queues(ex, st, post, result):
    import z3
    h = st.heap[post.env['self'].ref]
    cq = [e for i, e in T.evs(st, '_consume_queue')]
    force = ex.truth(st, post.env['force'])
    ok = len(cq) in (0, 2)
    g = z3.BoolVal(bool(ok))
    if len(cq) == 2:
        g = z3.And(g, force, z3.BoolVal(cq[0].args[0].t.eq(h['task_queue'].t) and cq[1].args[0].t.eq(h['result_queue'].t)))
    else:
        g = z3.And(g, z3.Not(force))
    yield ('forced_shutdown_empties_both_queues_first', g,
           'force=True: pending tasks and pending results are discarded (task queue, then result queue) before the sentinels are '
           'queued; otherwise the queues are left alone')


contract(A + 'ThreadPool.shutdown', props=['C15'],
         types=dict(force='bool'), returns='none', default_callee='opaque',
         opaque_spec={'_consume_queue': {}, 'put': {}},
         opaque=['_consume_queue'],
         loops={0: dict(inv=[], types={}, body_trace=[_one_sentinel])},
         trace=[_forced_drops_queues])


# ---- module-level helpers: a pool sized by the NUMBER OF INPUTS (S43: len(args[0]) was the length of the first argument tuple) --------
def _pool_sized_by_inputs(ex, st, post, result):
    import z3
    from pyvc.values import to_int
    mk = [e for i, e in T.evs(st, 'ThreadPool')]
    run = [e for i, e in T.evs(st, 'starmap', 'starcall', 'ThreadPool.starmap', 'ThreadPool.starcall')]
    ok = len(mk) == 1 and len(mk[0].args) == 1 and len(run) == 1 and run[0].recv is not None and hasattr(mk[0].result, 't') \
        and run[0].recv.t.eq(mk[0].result.t) and result is run[0].result and run[0].args[-1] is post.env['args']
    g = z3.BoolVal(bool(ok))
    if ok:
        n = post.env['args'].length()
        size = to_int(mk[0].args[0])
        g = z3.And(g, z3.Or(size == n, z3.And(size < n, size >= 2)), size <= n)
    yield ('pool_sized_by_number_of_inputs', g,
           'the helper creates one pool with min(number of inputs, MAX) workers - for every input list, the empty one included - '
           'and returns what that pool returns for the whole list')


for _fn in ('starmap', 'starcall'):
    contract(A + _fn, props=['C15'],
             types=dict(func='opaque', args='list[opaque]'), returns='opaque', default_callee='opaque',
             opaque_spec={'ThreadPool': {'pure': True}, 'starmap': {'pure': True}, 'starcall': {'pure': True}},
             opaque=['ThreadPool'],
             trace=[_pool_sized_by_inputs])
