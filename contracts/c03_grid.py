from pyvc.api import contract, loop, ghost, lemma
from . import shared_grid  # noqa
G = 'mapproxy.grid:'

contract(G + 'TileGrid.flip_tile_coord', props=['C03', 'C02'],
         types=dict(tile_coord='tuple[int,int,int]'), returns='tuple[int,int,int]',
         requires=['grid_wf(self)', 'valid_level(self, tile_coord[2])'],
         ensures=['result[0] == tile_coord[0] and result[2] == tile_coord[2]',
                  'result[1] == self.grid_sizes[tile_coord[2]][1] - 1 - tile_coord[1]',
                  # in-grid tiles stay in the grid
                  'implies(0 <= tile_coord[1] < self.grid_sizes[tile_coord[2]][1], 0 <= result[1] < self.grid_sizes[tile_coord[2]][1])'],
         must_fail='result[1] == tile_coord[1]')

contract(G + 'TileGrid.tile_bbox', props=['C03', 'C01', 'C02', 'C04'],
         types=dict(tile_coord='tuple[int,int,int]', limit='bool'), returns='tuple[real,real,real,real]',
         requires=['grid_wf(self)', 'valid_level(self, tile_coord[2])', 'limit == False'],
         ensures=[
             'abs(result[0] - (self.bbox[0] + tile_coord[0] * self.resolutions[tile_coord[2]] * self.tile_size[0])) <= 1e-12',
             'abs(result[2] - (self.bbox[0] + (tile_coord[0] + 1) * self.resolutions[tile_coord[2]] * self.tile_size[0])) <= 1e-12',
             'implies(not self.flipped_y_axis, abs(result[1] - (self.bbox[1] + tile_coord[1] * self.resolutions[tile_coord[2]] * self.tile_size[1])) <= 1e-12)',
             'implies(not self.flipped_y_axis, abs(result[3] - (self.bbox[1] + (tile_coord[1] + 1) * self.resolutions[tile_coord[2]] * self.tile_size[1])) <= 1e-12)',
             'implies(self.flipped_y_axis, abs(result[3] - (self.bbox[3] - tile_coord[1] * self.resolutions[tile_coord[2]] * self.tile_size[1])) <= 1e-12)',
             'implies(self.flipped_y_axis, abs(result[1] - (self.bbox[3] - (tile_coord[1] + 1) * self.resolutions[tile_coord[2]] * self.tile_size[1])) <= 1e-12)',
         ],
         must_fail='result[0] == self.bbox[0]')

contract(G + 'TileGrid.tile', props=['C03'],
         types=dict(x='real', y='real', level='int'), returns='tuple[int,int,int]',
         requires=['grid_wf(self)', 'valid_level(self, level)'],
         ensures=[
             'result[2] == level',
             # the tile found for a point contains that point (half open, exact arithmetic)
             'self.bbox[0] + result[0] * self.resolutions[level] * self.tile_size[0] <= x',
             'x < self.bbox[0] + (result[0] + 1) * self.resolutions[level] * self.tile_size[0]',
             'implies(not self.flipped_y_axis, self.bbox[1] + result[1] * self.resolutions[level] * self.tile_size[1] <= y)',
             'implies(not self.flipped_y_axis, y < self.bbox[1] + (result[1] + 1) * self.resolutions[level] * self.tile_size[1])',
             'implies(self.flipped_y_axis, self.bbox[3] - result[1] * self.resolutions[level] * self.tile_size[1] >= y)',
             'implies(self.flipped_y_axis, y > self.bbox[3] - (result[1] + 1) * self.resolutions[level] * self.tile_size[1])',
         ],
         must_fail='result[0] == 0')

contract(G + 'TileGrid.limit_tile', props=['C16', 'C03', 'C09'],
         types=dict(tile_coord='tuple[int,int,int|str]'), returns='opt[tuple[int,int,int]]',
         requires=['grid_wf(self)'],
         ensures=[
             """iff(result is not None,
                    level_ok(self, tile_coord[2]) and 0 <= tile_coord[0] < self.grid_sizes[tile_coord[2]][0]
                     and 0 <= tile_coord[1] < self.grid_sizes[tile_coord[2]][1])""",
             'implies(result is not None, result == tile_coord)'],
         must_fail='result is None')
