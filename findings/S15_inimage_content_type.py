"""S15 candidate: WMS 1.0.0, unknown layer, FORMAT=PNG, EXCEPTIONS=INIMAGE -> Content-type 'PNG'"""
import sys, os, tempfile, textwrap
from mapproxy.wsgiapp import make_wsgi_app
from webtest import TestApp
d = tempfile.mkdtemp()
open(os.path.join(d, 'm.yaml'), 'w').write(textwrap.dedent('''
services:
  wms:
    md: {title: t}
layers:
  - name: a
    title: A
    sources: [c]
caches:
  c:
    grids: [GLOBAL_GEODETIC]
    sources: []
globals:
  cache:
    base_dir: %s
''' % d))
app = TestApp(make_wsgi_app(os.path.join(d, 'm.yaml')))
r = app.get('/service?WMTVER=1.0.0&REQUEST=map&LAYERS=nope&STYLES=&SRS=EPSG:4326&BBOX=0,0,10,10&WIDTH=100&HEIGHT=100&FORMAT=PNG&EXCEPTIONS=INIMAGE', expect_errors=True)
print(r.status, r.headers.get('Content-type'), r.body[:8])
r2 = app.get('/service?WMTVER=1.0.0&REQUEST=map&LAYERS=a&STYLES=&SRS=EPSG:4326&BBOX=0,0,10,10&WIDTH=100&HEIGHT=100&FORMAT=PNG&EXCEPTIONS=INIMAGE', expect_errors=True)
print(r2.status, r2.headers.get('Content-type'), r2.body[:8])
import shutil; shutil.rmtree(d)
sys.exit(0 if r.headers.get('Content-type','').startswith('image/') else 1)
