"""Witness of defect S6 (C14): a WMS source with opacity 0.0 is reported as opaque (0.0 < opacity < 0.99 is False), so the
layers underneath are pruned and the map comes back empty instead of showing the lower layer.
exit 1 = reproduces, exit 0 = does not."""
import sys, tempfile, shutil, io
from mapproxy.config.loader import load_configuration
from mapproxy.wsgiapp import MapProxyApp
from webtest import TestApp
import mapproxy.client.http as http
from mapproxy.compat.image import Image

tmp = tempfile.mkdtemp()
conf = """
services:
  wms:
    md: {title: t}
layers:
  - name: base
    title: base
    sources: [s_base]
  - name: top
    title: top
    sources: [s_top]
sources:
  s_base:
    type: wms
    req: {url: http://localhost:1/base, layers: a, transparent: false}
  s_top:
    type: wms
    req: {url: http://localhost:1/top, layers: b, transparent: false}
    image: {opacity: 0.0}
"""
open(tmp + '/m.yaml', 'w').write(conf)


class Resp(object):
    def __init__(self, color):
        b = io.BytesIO()
        Image.new('RGB', (100, 100), color).save(b, 'png')
        self.data = b.getvalue()
        self.headers = {'Content-type': 'image/png'}
        self.code = 200

    def read(self):
        return self.data


def fake_open(self, url, data=None, method=None):
    return Resp((0, 160, 0) if '/base' in url else (200, 0, 0))


http.HTTPClient.open = fake_open
cfg = load_configuration(tmp + '/m.yaml')
app = TestApp(MapProxyApp(cfg.configured_services(), cfg.base_config))
r = app.get('/service?SERVICE=WMS&VERSION=1.1.1&REQUEST=GetMap&LAYERS=base,top&STYLES=&SRS=EPSG:4326&BBOX=0,0,10,10'
            '&WIDTH=100&HEIGHT=100&FORMAT=image/png')
px = Image.open(io.BytesIO(r.body)).convert('RGB').getpixel((50, 50))
print('pixel with layers base (green) + top (red, opacity 0.0):', px, '(expected the green base layer)')
shutil.rmtree(tmp)
sys.exit(0 if (abs(px[0] - 0) < 10 and abs(px[1] - 160) < 10) else 1)
