"""Witness of defect S7 (C14): LayerMerger.merge hands a single layer with opacity < 1 through unblended (fast path),
while the full composition fades it against the background.  exit 1 = reproduces, exit 0 = does not."""
import sys
from mapproxy.image import ImageSource
from mapproxy.image.merge import LayerMerger
from mapproxy.image.opts import ImageOptions
from mapproxy.compat.image import Image

img = ImageSource(Image.new('RGB', (10, 10), (200, 0, 0)), image_opts=ImageOptions(opacity=0.5, transparent=False))
m = LayerMerger()
m.add(img)
out = m.merge(ImageOptions(transparent=False, bgcolor=(255, 255, 255)), size=(10, 10)).as_image().convert('RGB')
single = out.getpixel((5, 5))
# reference: the same layer composited by the general loop (forced by a second, fully transparent layer on top)
m2 = LayerMerger()
m2.add(ImageSource(Image.new('RGB', (10, 10), (200, 0, 0)), image_opts=ImageOptions(opacity=0.5, transparent=False)))
m2.add(ImageSource(Image.new('RGBA', (10, 10), (0, 0, 0, 0)), image_opts=ImageOptions(transparent=True)))
full = m2.merge(ImageOptions(transparent=False, bgcolor=(255, 255, 255)), size=(10, 10)).as_image().convert('RGB').getpixel((5, 5))
print('single-layer shortcut pixel', single, ' full composition pixel', full)
sys.exit(1 if max(abs(a - b) for a, b in zip(single, full)) > 2 else 0)
