"""C05 / C12 / C09 - file-cache directory layouts: the path of a tile address as a formula of (dimension sub-path, level,
column, row), injectivity of that formula, and agreement between the level directory (what a level-wise cleanup empties)
and where the tiles of that level are stored."""
from pyvc.api import contract, cls, ghost, lemma
from . import shared_grid  # noqa
P = 'mapproxy.cache.path:'
import os
HOSTILE = ['..', '../..', '../../../x', '/etc/passwd', '/', '', '.', './..', 'a/../../b', '..\\..\\x', 'x/../../../../y', '2020-01-01',
           '2020-01-01/2020-02-01', 'default', 'a b', '%2e%2e', '....//', 'C:\\x', '\\\\host\\share', 'time-..', '-../..', '..-']
HOSTILE_KEYS = ['time', 'elevation', 'dim_x', 'dim_/../..', 'dim_..', 'DIM_/abs', 'dim_a/../../b', 'dim_\\..\\..', 'Time']
# characters a later "clean-up" step might strip or fold: a dot segment disguised with one of them must not become a real one
NOISE = ['\t', '\x00', '\x01', '\x7f', ' ', '\n', '\r', '\x1f', '\u200b']


def hostile_value(rng, pool=None):
    """a hostile string, possibly with noise characters sprinkled into its dot segments"""
    v = rng.choice(pool or HOSTILE)
    if rng.random() < 0.35 and v:
        for _ in range(rng.randint(1, 3)):
            i = rng.randint(0, len(v))
            v = v[:i] + rng.choice(NOISE) + v[i:]
    return v




def _gen_tile_loc(gen, rng):
    from mapproxy.cache.tile import Tile
    big = rng.choice([0, 1, 999, 1000, 999999, 1000000, 123456789, 2 ** 31])
    coord = (rng.choice([0, 5, big]), rng.choice([0, 7, big]), rng.choice([0, 1, 9, 10, 22]))
    d = {}
    for _ in range(rng.randint(0, 2)):
        d[hostile_value(rng, HOSTILE_KEYS)] = hostile_value(rng)
    return {'tile': {'$pyobj': ('mapproxy.cache.tile', 'Tile', [coord])}, 'cache_dir': '/r/cache', 'file_ext': 'png',
            'create_dir': False, 'dimensions': {'$pydict': d} if d else None, 'directory_permissions': None}


def _loc_below_cache_dir(args, result):
    """the tile location lies below cache_dir"""
    p = os.path.normpath(result)
    return p.startswith('/r/cache' + os.sep)




TILE_T = dict(tile='opaque', cache_dir='str', file_ext='str', create_dir='bool', dimensions='opaque', directory_permissions='opaque')
TILE_F = {'coord': 'tuple[int,int,int]', 'location': 'opt[str]'}
TILE_REQ = ['tile.location is None', 'tile.coord[0] >= 0 and tile.coord[1] >= 0 and tile.coord[2] >= 0']
TILE_SPEC = {'dimensions_part': {'returns': 'str', 'pure': True, 'func': True}, 'ensure_directory': {'pure': True}}


def _tile_contract(fn, formula, must_fail):
    contract(P + fn, props=['C05', 'C12', 'C09'],
             types=TILE_T, returns='str', opaque=['dimensions_part', 'ensure_directory'], inline=['level_part'],
             opaque_fields=TILE_F, stable_fields=['coord'], opaque_spec=TILE_SPEC,
             requires=TILE_REQ, modifies=['tile.location'],
             ensures=['result == ' + formula,
                      # the result is remembered on the tile
                      'tile.location == result',
                      # C09 (bounded stand-in, hostile dimension values): the location stays below cache_dir
                      _loc_below_cache_dir],
             fuzz_gen=_gen_tile_loc, bounded=dict(n=1500, seconds=6),
             must_fail=must_fail)


_tile_contract('tile_location_tc',
               """pjoin(cache_dir, dimensions_part(dimensions), fmt0d(2, tile.coord[2]),
                        fmt0d(3, tile.coord[0] // 1000000), fmt0d(3, tile.coord[0] // 1000 % 1000), fmt0d(3, tile.coord[0] % 1000),
                        fmt0d(3, tile.coord[1] // 1000000), fmt0d(3, tile.coord[1] // 1000 % 1000),
                        fmt0d(3, tile.coord[1] % 1000) + '.' + file_ext)""",
               'result == cache_dir')
_tile_contract('tile_location_mp',
               """pjoin(cache_dir, dimensions_part(dimensions), fmt0d(2, tile.coord[2]),
                        fmt0d(4, tile.coord[0] // 10000), fmt0d(4, tile.coord[0] % 10000),
                        fmt0d(4, tile.coord[1] // 10000), fmt0d(4, tile.coord[1] % 10000) + '.' + file_ext)""",
               'result == cache_dir')
_tile_contract('tile_location_tms',
               """pjoin(cache_dir, dimensions_part(dimensions), fmtd(tile.coord[2]), fmtd(tile.coord[0]),
                        fmtd(tile.coord[1]) + '.' + file_ext)""",
               'result == cache_dir')
_tile_contract('tile_location_reverse_tms',
               """pjoin(cache_dir, dimensions_part(dimensions), fmtd(tile.coord[1]), fmtd(tile.coord[0]),
                        fmtd(tile.coord[2]) + '.' + file_ext)""",
               'result == cache_dir')
_tile_contract('tile_location_arcgiscache',
               # (the dimension sub-path is part of EVERY layout: tiles that differ only in a dimension value never share a file)
               """pjoin(cache_dir, dimensions_part(dimensions), 'L' + fmt0d(2, tile.coord[2]), 'R' + fmt0x(8, tile.coord[1]),
                        'C' + fmt0x(8, tile.coord[0]) + '.' + file_ext)""",
               'result == cache_dir')

# ---- level directories ------------------------------------------------------------------------------------------------------
LVL_SPEC = {'dimensions_part': {'returns': 'str', 'pure': True, 'func': True}}
contract(P + 'level_location', props=['C12', 'C05'],
         types=dict(level='union[int,str]', cache_dir='str', dimensions='opaque'), returns='str',
         opaque=['dimensions_part'], opaque_spec=LVL_SPEC,
         requires=['implies(isinstance(level, int), level >= 0)'],
         ensures=['implies(isinstance(level, int), result == pjoin(cache_dir, dimensions_part(dimensions), fmt0d(2, level)))',
                  'implies(isinstance(level, str), result == pjoin(cache_dir, dimensions_part(dimensions), level))'],
         must_fail='result == cache_dir')
contract(P + 'level_location_tms', props=['C12'],
         types=dict(level='int', cache_dir='str', dimensions='opaque'), returns='str',
         opaque=['dimensions_part'], opaque_spec=LVL_SPEC,
         requires=['level >= 0'],
         ensures=['result == pjoin(cache_dir, dimensions_part(dimensions), fmtd(level))'],
         must_fail='result == cache_dir')
contract(P + 'level_location_arcgiscache', props=['C12'],
         types=dict(z='int', cache_dir='str', dimensions='opaque'), returns='str',
         opaque=['dimensions_part'], opaque_spec=LVL_SPEC,
         requires=['z >= 0'],
         ensures=["result == pjoin(cache_dir, dimensions_part(dimensions), 'L' + fmt0d(2, z))"],
         must_fail='result == cache_dir')


# ---- the level directory of a layout contains the tiles of that level (C12: a level-wise cleanup empties the right
#      directory; found violated for the 'tms' layout: S4, fixed) -----------------------------------------------------
H = 'verif_harness.paths:'
contract(H + 'level_dir_and_tile', props=['C12'],
         types=dict(layout='str', tile='opaque', cache_dir='str', file_ext='str', dimensions='opaque'),
         returns='tuple[str,opt[str]]', inline=['location_funcs'], opaque=['dimensions_part'],
         opaque_fields=TILE_F, stable_fields=['coord'], opaque_spec=TILE_SPEC,
         requires=TILE_REQ + ["layout == 'tc' or layout == 'mp' or layout == 'tms' or layout == 'arcgis' or layout == 'reverse_tms' or layout == 'quadkey'",
                              "not cache_dir.endswith('/')", "len(cache_dir) > 0",
                              # the dimension sub-path: empty, or segments joined by '/' without a leading or trailing
                              # '/' (assumed here; the bounded contract of dimensions_part checks it)
                              "not dimensions_part(dimensions).startswith('/') and not dimensions_part(dimensions).endswith('/')",
                              ],
         split=["dimensions_part(dimensions) == ''"],
         # a layout either offers no level directory at all (reverse_tms: the level is the LAST component) or one that
         # contains every tile of that level
         ensures=["result[1] is None or result[0].startswith(result[1] + '/')",
                  # (reverse_tms: the level is the last path component; quadkey: all tiles in one directory)
                  "implies(layout != 'reverse_tms' and layout != 'quadkey', result[1] is not None)"],
         must_fail="result[1] is not None and result[0] == result[1]")


# ---- injectivity of the layouts (C05: two different addresses never share a file) -------------------------------------------
lemma('tc_digit_groups_injective', ['C05'],
      doc='tc layout: (n // 10^6, n // 10^3 % 10^3, n % 10^3) determines n >= 0 (borders 999/1000, 999999/1000000 included)',
      fn=lambda z3: (lambda n, m: ([n >= 0, m >= 0, n / 1000000 == m / 1000000, (n / 1000) % 1000 == (m / 1000) % 1000,
                                    n % 1000 == m % 1000], n == m))(z3.Int('n'), z3.Int('m')))
lemma('mp_digit_groups_injective', ['C05'],
      doc='mp layout: (n // 10^4, n % 10^4) determines n >= 0',
      fn=lambda z3: (lambda n, m: ([n >= 0, m >= 0, n / 10000 == m / 10000, n % 10000 == m % 10000], n == m))(z3.Int('n'), z3.Int('m')))
lemma('path_segment_step', ['C05'],
      doc="p + a + '/' + r == p + b + '/' + s with a, b free of '/'  =>  a == b and r == s  (applied segment by segment, "
          "left to right, this separates every directory component of two tile paths below the same prefix)",
      fn=lambda z3: (lambda p, a, b, r, s: (
          [z3.Concat(p, a, z3.StringVal('/'), r) == z3.Concat(p, b, z3.StringVal('/'), s),
           z3.Not(z3.Contains(a, z3.StringVal('/'))), z3.Not(z3.Contains(b, z3.StringVal('/')))],
          z3.And(a == b, r == s)))(*z3.Strings('p a b r s')))
lemma('path_leaf_step', ['C05'],
      doc="a + '.' + e == b + '.' + e with a, b free of '.'  =>  a == b  (the file name component)",
      fn=lambda z3: (lambda a, b, e: (
          [z3.Concat(a, z3.StringVal('.'), e) == z3.Concat(b, z3.StringVal('.'), e),
           z3.Not(z3.Contains(a, z3.StringVal('.'))), z3.Not(z3.Contains(b, z3.StringVal('.')))],
          a == b))(*z3.Strings('a b e')))

# NOT proved as one obligation: "equal file names => equal addresses" for two symbolic tiles (the composed string query -
# nine number images per path, two paths - stays `unknown` in z3 and cvc5 after 7 minutes).  The argument is assembled from
# the proved pieces instead: formula contracts above (the real functions compute exactly these paths), path_segment_step /
# path_leaf_step (component-wise separation), the digit-group lemmas, and A-fmt (number formats injective).


# ---- quadkey layout: loops over bits and string concatenation - BOUNDED check against an independent formula -------------------------
def _quadkey_location(args, result):
    """cache_dir / <dimension sub-path> / <quadkey digits>.<ext>, below cache_dir; the dimension sub-path is part of the path"""
    from mapproxy.cache.path import dimensions_part as _dp
    tile = args['tile']
    x, y, z = tile.coord
    digits = ''.join(str(((x >> (i - 1)) & 1) + 2 * ((y >> (i - 1)) & 1)) for i in range(z, 0, -1))
    want = os.path.join(args['cache_dir'], _dp(args.get('dimensions')), digits + '.' + args['file_ext'])
    return result == want and _loc_below_cache_dir(args, result) and tile.location == result


contract(P + 'tile_location_quadkey', props=['C05', 'C09'], verify=False,
         types=TILE_T, returns='str', ensures=[_quadkey_location], fuzz_gen=_gen_tile_loc, bounded=dict(n=1500, seconds=6))
