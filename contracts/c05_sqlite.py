"""C05 - sqlite backends (MBTiles, GeoPackage): which database / which row serves which address in the bulk operations.
(The SQL text itself and sqlite's execution of it are outside; the orchestration around it is under contract.)"""
from pyvc.api import contract, cls, ghost, lemma
from pyvc import tracelib as T
from . import shared_grid  # noqa

TF = {'coord': 'opt[tuple[int,int,int]]', 'source': 'opt[opaque]'}


def _wanted_tile_sorted_by_level(ex, st, k):
    """loop 0: a tile that needs loading is put on the list of ITS level; the others are left alone"""
    import z3
    from pyvc.values import eq
    evs_ = st.trace[getattr(st, 'iter_start_trace', 0):]
    pre = st.iter_start_state
    tile = st.env['tile']
    sd = [e for e in evs_ if e.name == 'setdefault']
    ap = [e for e in evs_ if e.name == 'append']
    coord = ex.opaque_field(pre, tile, 'coord')
    src = ex.opaque_field(pre, tile, 'source')
    skip = z3.Or(ex.truth(pre, src), coord.isnone)
    ok = len(sd) == 1 and len(ap) == 1 and len(sd[0].args) == 2 and ap[0].recv is not None and ap[0].recv.t.eq(sd[0].result.t) \
        and ap[0].args[-1] is tile and sd[0].recv is not None and hasattr(pre.env['level_tiles'], 't') and sd[0].recv.t.eq(pre.env['level_tiles'].t)
    g_do = z3.BoolVal(bool(ok))
    if ok:
        g_do = z3.And(g_do, eq(sd[0].args[0], coord.val.items[2]))
    yield ('wanted_tile_goes_on_the_list_of_its_level', z3.If(skip, z3.BoolVal(not sd and not ap), g_do),
           'a tile without data and with an address is appended to level_tiles[tile.coord[2]] - the list of its OWN level; a tile '
           'that has its data or no address is not queried')


def _level_list_goes_to_its_database(ex, st, k):
    """loop 1: the list collected under a level is loaded from the database of THAT level; a failure there makes the answer False"""
    import z3
    from pyvc.values import eq
    evs_ = st.trace[getattr(st, 'iter_start_trace', 0):]
    pre = st.iter_start_state
    gl = [e for e in evs_ if e.name.endswith('_get_level')]
    ld = [e for e in evs_ if e.name == 'load_tiles']
    ok = len(gl) == 1 and len(ld) == 1 and ld[0].recv is not None and ld[0].recv.t.eq(gl[0].result.t) and ld[0].args[0] is st.env['missing']
    g = z3.BoolVal(bool(ok))
    if ok:
        g = z3.And(g, eq(gl[0].args[-1], st.env['level']),
                   z3.BoolVal(ld[0].kwargs.get('with_metadata') is st.env['with_metadata'] and ld[0].kwargs.get('dimensions') is st.env['dimensions']),
                   # all_loaded stays True only while every level database reported success
                   ex.truth(st, st.env['all_loaded']) == z3.And(ex.truth(pre, pre.env['all_loaded']), ex.truth(st, ld[0].result)))
    yield ('each_level_list_is_loaded_from_its_own_database', g,
           'for every level with missing tiles: self._get_level(level).load_tiles(<the tiles of that level>, with_metadata, dimensions); '
           'the overall answer is True only if every level database found all of its tiles')


for _k, _c in (('mapproxy.cache.mbtiles:', 'MBTilesLevelCache'), ('mapproxy.cache.geopackage:', 'GeopackageLevelCache')):
    cls(_k + _c, fields={})
    contract(_k + _c + '.load_tiles', props=['C05'],
             types=dict(tiles='list[opaque]', with_metadata='bool', dimensions='opaque'), returns='bool',
             default_callee='opaque', opaque_fields=TF, stable_fields=list(TF),
             opaque_spec={'_get_level': {'pure': True}, 'load_tiles': {'returns': 'bool', 'pure': True}, 'setdefault': {'pure': True},
                          'append': {'pure': True}, 'items': {'returns': 'list[tuple[int,opaque]]', 'pure': True}},
             opaque=['_get_level'],
             # ('level' is typed so that the former one-level version of this loop stays inside the subset and is refuted)
             loops={0: dict(types={'level_tiles': 'opaque', 'level': 'opt[int]'}, inv=[], body_trace=[_wanted_tile_sorted_by_level],
                            no_early_exit='every tile of the list is looked at: the tiles may belong to different levels'),
                    1: dict(types={'all_loaded': 'bool'}, inv=['implies(_k == 0, all_loaded)'], body_trace=[_level_list_goes_to_its_database])})


# ---- single-file databases: result rows are matched to the requested tiles by the FULL address --------------------------------
def _key_is_full_address(ex, st, k):
    import z3
    from pyvc.values import VSeq, eq
    evs_ = st.trace[getattr(st, 'iter_start_trace', 0):]
    sets = [e for e in evs_ if e.name == 'setitem']
    goal = z3.BoolVal(True)
    for e in sets:
        key, val = e.args[1], e.args[2]
        ok = isinstance(key, VSeq) and key.concrete and len(key.items) == 3 and val is st.env['tile']
        goal = z3.And(goal, z3.BoolVal(bool(ok)))
        if ok:
            coord = ex.opaque_field(st, st.env['tile'], 'coord')
            goal = z3.And(goal, eq(key, coord.val if hasattr(coord, 'val') else coord))
    yield ('tiles_indexed_by_full_address', goal,
           'the lookup table that matches result rows to tile objects is keyed by (column, row, level): two requested '
           'addresses never share an entry')


def _row_item(row, n, epochs):
    """row[n] of an unknown row object, at any epoch seen so far"""
    import z3
    from pyvc.values import ObjSort
    return [z3.Function('opaque_item_%s_%d' % (abs(hash(('i', n))), ep), ObjSort, ObjSort)(row.t) for ep in range(0, epochs + 1)]


def _row_lookup(ex, st, k):
    import z3
    from pyvc.values import VSeq, VOpaque
    evs_ = st.trace[getattr(st, 'iter_start_trace', 0):]
    row = st.env['row']
    gets = [e for e in evs_ if e.name == 'getitem' and isinstance(e.args[1], VSeq)]
    ok = len(gets) == 1 and gets[0].args[1].concrete and len(gets[0].args[1].items) == 3
    goal = z3.BoolVal(bool(ok))
    if ok:
        # the key is (row[0], row[1], row[2]) = (tile_column, tile_row, zoom_level) in the order of the SELECT list
        for n, it in enumerate(gets[0].args[1].items):
            goal = z3.And(goal, z3.Or([it.t == r for r in _row_item(row, n, st.epoch)]) if isinstance(it, VOpaque) else z3.BoolVal(False))
        # the bytes attached to THAT tile are row[3]
        srcs = [e for e in evs_ if e.name == 'setattr:source']
        blobs = [e for e in evs_ if e.name == 'BytesIO']
        ok2 = len(srcs) == 1 and srcs[0].args[0] is gets[0].result and len(blobs) == 1 and isinstance(blobs[0].args[0], VOpaque)
        goal = z3.And(goal, z3.BoolVal(bool(ok2)))
        if ok2:
            goal = z3.And(goal, z3.Or([blobs[0].args[0].t == r for r in _row_item(row, 3, st.epoch)]))
    # MBTiles with timestamps: the modification time of THIS row (5th selected column) becomes the tile's timestamp
    fi_name = str(getattr(st.fn, 'key', ''))
    if 'MBTilesCache' in fi_name and ok:
        h = st.heap[st.env['self'].ref]
        ts = [e for e in evs_ if e.name == 'setattr:timestamp']
        cv = [e for e in evs_ if e.name == 'sqlite_datetime_to_timestamp']
        g_ts = ex.truth(st, h['supports_timestamp']) == z3.BoolVal(len(ts) == 1)
        if len(ts) == 1:
            okt = len(cv) == 1 and ts[0].args[0] is gets[0].result and ts[0].args[1] is cv[0].result and isinstance(cv[0].args[0], VOpaque)
            g_ts = z3.And(g_ts, z3.BoolVal(bool(okt)))
            if okt:
                g_ts = z3.And(g_ts, z3.Or([cv[0].args[0].t == r for r in _row_item(row, 4, st.epoch)]))
        yield ('row_timestamp_goes_to_its_tile', g_ts,
               'with timestamp support the tile found for the row gets sqlite_datetime_to_timestamp(row[4]) - the last_modified '
               'column of that row - and no timestamp is set otherwise')
    yield ('row_matched_by_column_row_level', goal,
           'each result row is handed to the tile object found under the key (row[0], row[1], row[2]) - column, row, level as '
           'selected - and that tile gets the bytes row[3]')


def _wanted_coords_collected(ex, st, k):
    """a tile is queried exactly when it has no data yet and has an address; its column, row, level are appended in this order"""
    import z3
    from pyvc.values import eq
    pre = st.iter_start_state
    tile = st.env['tile']
    c0, c1 = pre.env['coords'], st.env['coords']
    coord = ex.opaque_field(pre, tile, 'coord')
    src = ex.opaque_field(pre, tile, 'source')
    skip = z3.Or(ex.truth(pre, src), coord.isnone)
    n0 = c0.length()
    i = z3.Int('i_wc')
    same_prefix = z3.ForAll([i], z3.Implies(z3.And(0 <= i, i < n0), c1.elem(i).t == c0.elem(i).t))
    grown = z3.And(c1.length() == n0 + 3, same_prefix, c1.elem(n0).t == coord.val.items[0].t,
                   c1.elem(n0 + 1).t == coord.val.items[1].t, c1.elem(n0 + 2).t == coord.val.items[2].t)
    sets = [e for e in st.trace[getattr(st, 'iter_start_trace', 0):] if e.name == 'setitem']
    yield ('queried_iff_missing_with_address', z3.If(skip, z3.And(c1.length() == n0, z3.BoolVal(not sets)),
                                                     z3.And(grown, z3.BoolVal(len(sets) == 1))),
           'the parameter list gets (column, row, level) of exactly the tiles that have no data yet and have an address, and each '
           'of them is entered in the lookup table')


def _chunk_is_whole_triples(ex, st, k):
    import z3
    from pyvc.values import eq
    pre = st.iter_start_state
    evs_ = st.trace[getattr(st, 'iter_start_trace', 0):]
    exe = [e for e in evs_ if e.name == 'execute']
    c0, c1 = pre.env['coords'], st.env['coords']
    cur = st.env['cur_coords']
    ok = len(exe) == 1 and len(exe[0].args) == 2 and exe[0].args[1] is cur and exe[0].args[0] is st.env['stmt']
    n0, m = c0.length(), cur.length()
    i = z3.Int('i_ch')
    g = z3.And(z3.BoolVal(bool(ok)), m % 3 == 0, m > 0, m <= 999, m == z3.If(n0 < 999, n0, 999),
               z3.ForAll([i], z3.Implies(z3.And(0 <= i, i < m), cur.elem(i).t == c0.elem(i).t)),
               # nothing is lost or repeated between the chunks
               c1.length() == n0 - m,
               z3.ForAll([i], z3.Implies(z3.And(0 <= i, i < n0 - m), c1.elem(i).t == c0.elem(i + m).t)))
    # one (column, row, level) placeholder group per triple of parameters
    def find(t):
        if z3.is_app(t) and t.decl().name() == 'str_join_rep':
            return t
        for c in (t.children() if z3.is_app(t) else []):
            r = find(c)
            if r is not None:
                return r
        return None
    rep = find(st.env['stmt'].t) if hasattr(st.env.get('stmt'), 't') else None
    g_ph = z3.BoolVal(False)
    if rep is not None and z3.is_string_value(rep.arg(1)):
        g_ph = z3.And(rep.arg(2) == m / 3, z3.BoolVal(rep.arg(1).as_string().count('?') == 3 and rep.arg(0).as_string() == ' OR '))
    yield ('one_placeholder_group_per_triple', g_ph,
           "the statement holds len(parameters) / 3 groups '(tile_column = ? AND tile_row = ? AND zoom_level = ?)' joined by OR")
    yield ('each_chunk_is_whole_address_triples', g,
           'every SELECT gets the next at most 999 parameters - a whole number of (column, row, level) triples, within the SQLite '
           'limit - and the remaining parameters are exactly the rest')


def _bulk_answer_db(ex, st, post, result):
    import z3
    from pyvc.values import VBool
    td = st.env.get('tile_dict')
    if 'loaded_tiles' not in st.env:
        # returned before any query: only with an empty lookup table, and then the answer is True
        g = z3.And(z3.Not(ex.truth(st, td)) if td is not None else z3.BoolVal(False), ex.truth(st, result))
        yield ('no_query_only_when_nothing_to_load', g, 'the database is not queried only when the lookup table is empty (answer True)')
    else:
        sp = st.fork()
        sp.spec = True
        want = ex.truth(sp, ex.ev1(sp, ex.reg.parse_spec('loaded_tiles == len(tile_dict)')))
        yield ('answer_counts_loaded_rows', z3.And(ex.truth(st, td) if td is not None else z3.BoolVal(False), ex.truth(st, result) == want),
               'after querying (the lookup table was non-empty) the answer is: as many rows were found as tiles were asked for')


for _k, _c in (('mapproxy.cache.mbtiles:', 'MBTilesCache'), ('mapproxy.cache.geopackage:', 'GeopackageCache')):
    cls(_k + _c, fields=dict(supports_timestamp='bool', ttl='int', table_name='opaque', db='opaque'))
    contract(_k + _c + '.load_tiles', props=['C05'],
             types=dict(tiles='list[opaque]', with_metadata='bool', dimensions='opaque'), returns='opaque',
             default_callee='opaque', opaque_fields=TF, stable_fields=['coord'],
             opaque_spec={'cursor': {'pure': True}, 'execute': {'pure': True}, 'close': {'pure': True}, 'ImageSource': {'pure': True},
                          'BytesIO': {'pure': True}, 'join': {'pure': True}, 'format': {'pure': True},
                          'sqlite_datetime_to_timestamp': {'pure': True}, 'append': {'pure': True}},
             loops={0: dict(inv=['len(coords) % 3 == 0'], types={'tile_dict': 'opaque', 'coords': 'list[int]'},
                            body_trace=[_key_is_full_address, _wanted_coords_collected]),
                    1: dict(inv=['len(coords) % 3 == 0', 'implies(_k == 0, loaded_tiles == 0)'],
                            types={'coords': 'list[int]', 'loaded_tiles': 'int', 'cur_coords': 'list[int]'},
                            body_trace=[_chunk_is_whole_triples]),
                    2: dict(inv=[], types={'loaded_tiles': 'int'}, body_trace=[_row_lookup])},
             trace=[_bulk_answer_db])


# ---- single-file databases: what is written for an address is what is asked for under that address ------------------------------------
def _sql_columns(stmt):
    """column list of an INSERT statement / WHERE columns of a SELECT or DELETE, from the literal SQL text (None if not literal)"""
    import re
    import z3
    t = getattr(stmt, 't', None)
    if t is None:
        return None
    # the statement may be literal + a symbolic tail (ttl condition): look at the literal head
    while z3.is_app(t) and not z3.is_string_value(t) and t.num_args() > 0 and t.decl().kind() == z3.Z3_OP_SEQ_CONCAT:
        t = t.arg(0)
    if not z3.is_string_value(t):
        return None
    text = t.as_string()
    m = re.search(r'INSERT OR REPLACE INTO \S+ \(([^)]*)\)', text)
    if m:
        return [c.strip() for c in m.group(1).split(',')]
    m = re.search(r'WHERE\s*\(?(.*)', text, re.S)
    if m:
        return re.findall(r'(\w+)\s*=\s*\?', m.group(1))
    return None


def _record_of_tile(ex, st, k):
    import z3
    from pyvc.values import eq, VSeq
    evs_ = st.trace[getattr(st, 'iter_start_trace', 0):]
    pre = st.iter_start_state
    tile = st.env['tile']
    tb = [e for e in evs_ if e.name == 'tile_buffer']
    rd = [e for e in evs_ if e.name == 'read']
    r0, r1 = pre.env['records'], st.env['records']
    coord = ex.opaque_field(pre, tile, 'coord')
    ok = len(tb) == 1 and tb[0].args[0] is tile and len(rd) == 1
    g = z3.And(z3.BoolVal(bool(ok)), r1.length() == r0.length() + 1)
    if ok:
        from pyvc.values import unbox_seq
        rec = r1.elem(r0.length())
        items = unbox_seq(rec.t) if hasattr(rec, 't') else None
        c = coord.val if hasattr(coord, 'val') else coord
        if items is None or len(items) not in (4, 5):
            g = z3.BoolVal(False)
        else:
            g = z3.And(g, items[0] == c.items[2].t, items[1] == c.items[0].t, items[2] == c.items[1].t,
                       items[3] == rd[0].result.t if hasattr(rd[0].result, 't') else z3.BoolVal(False))
            h = st.heap[st.env['self'].ref]
            if 'supports_timestamp' in h and 'MBTiles' in str(getattr(st.fn, 'key', '')):
                g = z3.And(g, ex.truth(st, h['supports_timestamp']) == z3.BoolVal(len(items) == 5))
        i = z3.Int('i_rec')
        g = z3.And(g, z3.ForAll([i], z3.Implies(z3.And(0 <= i, i < r0.length()), r1.elem(i).t == r0.elem(i).t)))
    yield ('record_is_level_column_row_bytes_of_this_tile', g,
           'every tile contributes one record (level, column, row, encoded bytes of THAT tile[, now]); earlier records are unchanged')


def _bulk_insert(ex, st, post, result):
    import z3
    em = [e for i, e in T.evs(st, 'executemany')]
    cm = [(i, e) for i, e in T.evs(st, 'commit')]
    ok = len(em) == 1 and len(em[0].args) == 2 and em[0].args[1] is st.env.get('records')
    g = z3.BoolVal(bool(ok))
    cols = _sql_columns(em[0].args[0]) if ok else None
    if ok and cols is None and 'MBTiles' in str(getattr(st.fn, 'key', '')):
        # the MBTiles statements are literals: one that is not recognisably "INSERT OR REPLACE INTO tiles (<columns>)" - the form
        # that replaces the WHOLE row of an address, time stamp included - is not accepted
        g = z3.BoolVal(False)
    if cols is not None:
        g = z3.And(g, z3.BoolVal(cols[:4] == ['zoom_level', 'tile_column', 'tile_row', 'tile_data']))
        h = st.heap[post.env['self'].ref]
        if 'MBTiles' in str(getattr(st.fn, 'key', '')):
            # as many columns as record fields: the time stamp column exactly with timestamp support
            g = z3.And(g, ex.truth(st, h['supports_timestamp']) == z3.BoolVal(cols[4:] == ['last_modified']), z3.BoolVal(len(cols) in (4, 5)))
            text = _literal(em[0].args[0]) or ''
            # last_modified is written as LOCAL time from the unix time of the record (the readers and the clean-up compare in
            # the same time base)
            g = z3.And(g, z3.Implies(ex.truth(st, h['supports_timestamp']), z3.BoolVal("VALUES (?,?,?,?, " + LOCAL_FROM_UNIX + ")" in text)))
    yield ('all_records_inserted_in_column_order', g,
           'one executemany(INSERT OR REPLACE ...) with all collected records; where the statement is literal its column list is '
           '(zoom_level, tile_column, tile_row, tile_data[, last_modified]) - the order of the record fields')
    failed = any(e.raised == 'OperationalError' for e in em + [e for i, e in cm])
    if not failed:
        yield ('stored_means_committed', z3.And(z3.BoolVal(len(cm) == 1 and bool(em) and cm[0][0] > st.trace.index(em[0]) and not cm[0][1].raised), ex.truth(st, result)),
               'the answer True is given only after the transaction was committed')
    else:
        yield ('failed_store_is_reported', z3.Not(ex.truth(st, result)), 'a database error during the insert is reported as False, not as success')


def _single_lookup(kind):
    def clause(ex, st, post, result):
        import z3
        from pyvc.values import eq
        tile = post.env['tile']
        exe = [e for i, e in T.evs(st, 'execute')]
        if not exe:
            if kind == 'load':
                c = ex.opaque_field(st, tile, 'coord')
                yield ('no_query_only_if_loaded_or_no_address', z3.And(z3.Or(ex.truth(st, ex.opaque_field(st, tile, 'source')), c.isnone), ex.truth(st, result)),
                       'the database is not asked only for a tile that already has its data or has no address (answer True)')
            else:
                yield ('delete_is_executed', z3.BoolVal(False), 'remove_tile executes a DELETE')
            return
        ok = len(exe) == 1 and len(exe[0].args) == 2
        g = z3.BoolVal(bool(ok))
        if ok:
            c = ex.opaque_field_at(st, exe[0], tile, 'coord')
            g = z3.And(g, eq(exe[0].args[1], c))
            cols = _sql_columns(exe[0].args[0])
            if cols is not None:
                g = z3.And(g, z3.BoolVal(cols[:3] == ['tile_column', 'tile_row', 'zoom_level']))
        yield ('asked_for_exactly_this_address', g,
               'the statement is parameterised with tile.coord = (column, row, level); where it is literal its conditions are '
               'tile_column = ? AND tile_row = ? AND zoom_level = ? in this order')
        if kind == 'load':
            fo = [e for i, e in T.evs(st, 'fetchone')]
            src = [e for e in st.trace if e.name == 'setattr:source']
            bio = [e for i, e in T.evs(st, 'BytesIO')]
            okl = len(fo) == 1
            g2 = z3.BoolVal(bool(okl))
            if okl:
                found = ex.truth(st, fo[0].result)
                g2 = z3.And(g2, found == ex.truth(st, result), found == z3.BoolVal(len(src) == 1))
                for e in src:
                    g2 = z3.And(g2, z3.BoolVal(e.recv is not None and e.recv.t.eq(tile.t) and len(bio) == 1))
            yield ('found_row_becomes_the_tile_data', g2, 'the answer is True exactly when a row was found, and then its first column becomes the data of this tile')
        else:
            cm = [e for i, e in T.evs(st, 'commit')]
            yield ('delete_is_committed', z3.BoolVal(len(cm) == 1), 'the DELETE is committed')
    return clause


for _k, _c in (('mapproxy.cache.mbtiles:', 'MBTilesCache'), ('mapproxy.cache.geopackage:', 'GeopackageCache')):
    contract(_k + _c + '._store_bulk', props=['C05', 'C13'],
             types=dict(tiles='list[opaque]'), returns='bool', default_callee='opaque',
             # (only tiles with an address are ever stored: the callers filter / create them from grid coordinates)
             requires=['forall(lambda j: implies(0 <= j < len(tiles), tiles[j].coord is not None))'],
             opaque_fields=TF, stable_fields=['coord'],
             opaque_spec={'tile_buffer': {'pure': True}, 'read': {'pure': True}, 'time': {'returns': 'real', 'pure': True}, 'cursor': {'pure': True},
                          'executemany': {'raises': ['OperationalError']}, 'commit': {'raises': ['OperationalError']}, 'format': {'pure': True}},
             loops={0: dict(inv=[], types={'records': 'list[opaque]'}, body_trace=[_record_of_tile])},
             trace=[_bulk_insert])
    contract(_k + _c + '.load_tile', props=['C05'],
             types=dict(tile='opaque', with_metadata='bool', dimensions='opaque'), returns='bool', default_callee='opaque',
             opaque_fields=TF, stable_fields=['coord'],
             opaque_spec={'cursor': {'pure': True}, 'execute': {'pure': True}, 'fetchone': {'pure': True}, 'ImageSource': {'pure': True},
                          'BytesIO': {'pure': True}, 'format': {'pure': True}, 'sqlite_datetime_to_timestamp': {'pure': True}},
             trace=[_single_lookup('load')])
    contract(_k + _c + '.remove_tile', props=['C05'],
             types=dict(tile='opaque', dimensions='opaque'), returns='bool', default_callee='opaque',
             opaque_fields=TF, stable_fields=['coord'],
             opaque_spec={'cursor': {'pure': True}, 'execute': {'pure': True}, 'commit': {}, 'format': {'pure': True}},
             trace=[_single_lookup('remove')])


# ---- MBTiles: level-wise removal (C12) and the time base of `last_modified` ---------------------------------------------------------------
LOCAL_FROM_UNIX = "datetime(?, 'unixepoch', 'localtime')"


def _literal(stmt):
    import z3
    t = getattr(stmt, 't', None)
    return t.as_string() if t is not None and z3.is_string_value(t) else None


def _level_removal(ex, st, post, result):
    import z3
    from pyvc.values import eq, VSeq
    h = st.heap[post.env['self'].ref]
    exe = [e for i, e in T.evs(st, 'execute')]
    cm = [e for i, e in T.evs(st, 'commit')]
    ra = ex.truth(st, post.env['remove_all'])
    ts_ok = ex.truth(st, h['supports_timestamp'])
    if not exe:
        yield ('nothing_removed_without_a_criterion', z3.And(z3.Not(ra), z3.Not(ts_ok), z3.BoolVal(not cm)),
               'nothing is deleted only when neither remove_all is set nor the database has time stamps')
        return
    ok = len(exe) == 1 and len(exe[0].args) == 2 and len(cm) == 1 and isinstance(exe[0].args[1], VSeq) and exe[0].args[1].concrete
    g = z3.BoolVal(bool(ok))
    if ok:
        text = _literal(exe[0].args[0]) or ''
        params = exe[0].args[1].items
        if len(params) == 1:
            g = z3.And(g, ra, eq(params[0], post.env['level']), z3.BoolVal('zoom_level = ?' in text and 'last_modified' not in text))
        else:
            g = z3.And(g, z3.Not(ra), ts_ok, z3.BoolVal(len(params) == 2), eq(params[0], post.env['level']),
                       eq(params[1], post.env['timestamp']),
                       z3.BoolVal('zoom_level = ?' in text and ('last_modified < ' + LOCAL_FROM_UNIX) in text
                                  and text.index('zoom_level = ?') < text.index('last_modified')))
    yield ('level_removed_by_its_own_level_and_threshold', g,
           'remove_all: DELETE of exactly the rows of that level; otherwise (time-stamped database) DELETE of the rows of that level '
           "whose last_modified is strictly before the threshold, the threshold converted with datetime(?, 'unixepoch', 'localtime') - "
           'the time base in which last_modified is written; parameters (level, timestamp) in the order of the placeholders; committed')


contract('mapproxy.cache.mbtiles:MBTilesCache.remove_level_tiles_before', props=['C12', 'C05'],
         types=dict(level='int', timestamp='opt[real]', remove_all='bool'), returns='opaque', default_callee='opaque',
         opaque_spec={'cursor': {'pure': True}, 'execute': {'pure': True}, 'commit': {}},
         trace=[_level_removal])


def _level_db_removal(ex, st, post, result):
    import z3
    from pyvc.values import eq
    gl = [e for i, e in T.evs(st, '_get_level')]
    ok = len(gl) == 1 and eq(gl[0].args[-1], post.env['level']) is not None
    g = z3.BoolVal(bool(ok))
    if ok:
        g = z3.And(g, eq(gl[0].args[-1], post.env['level']))
        lc = gl[0].result
        ra = ex.truth(st, post.env['remove_all'])
        un = [e for i, e in T.evs(st, 'unlink')]
        dl = [e for i, e in T.evs(st, 'remove_level_tiles_before')]
        cl = [(i, e) for i, e in T.evs(st, 'cleanup')]
        if dl:
            a = dl[0].args
            g = z3.And(g, z3.Not(ra), z3.BoolVal(len(dl) == 1 and not un and dl[0].recv is not None and dl[0].recv.t.eq(lc.t) and len(a) == 2
                                                 and a[1] is post.env['timestamp']), eq(a[0], post.env['level']) if len(a) == 2 else z3.BoolVal(False))
        else:
            fname = None
            for f in ('mbtile_file', 'geopackage_file'):
                if f in (ex.cur_target or {}).get('opaque_fields', {}):
                    fname = ex.opaque_field(st, lc, f)
            first = un[0] if un else None
            g = z3.And(g, ra, z3.BoolVal(first is not None and len(cl) == 1 and cl[0][0] < st.trace.index(first)),
                       eq(first.args[0], fname) if first is not None and fname is not None else z3.BoolVal(False))
    yield ('level_database_of_that_level_only', g,
           'the level is removed from the database file of THAT level (self._get_level(level)): remove_all closes and unlinks that '
           'file, otherwise the request is handed to that level database with the same level and threshold')


for _k, _c, _f in (('mapproxy.cache.mbtiles:', 'MBTilesLevelCache', 'mbtile_file'), ('mapproxy.cache.geopackage:', 'GeopackageLevelCache', 'geopackage_file')):
    contract(_k + _c + '.remove_level_tiles_before', props=['C12', 'C05'],
             types=dict(level='int', timestamp='opt[real]', remove_all='bool'), returns='opaque', default_callee='opaque',
             opaque_fields={_f: 'str'}, stable_fields=[_f],
             opaque_spec={'_get_level': {'pure': True}, 'cleanup': {}, 'unlink': {'raises': ['OSError']}, 'remove_level_tiles_before': {},
                          'glob': {'returns': 'list[str]', 'pure': True}, 'escape': {'pure': True}},
             opaque=['_get_level'], raises={'OSError': True},
             loops={0: dict(inv=[], types={})} if 'mbtiles' in _k else {},
             trace=[_level_db_removal])
