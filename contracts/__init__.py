"""Sidecar contracts for mapproxy.  PROP_MODULES: which contract modules carry obligations of which property."""

PROP_MODULES = {
    'C03': ['contracts.builders', 'contracts.shared_grid', 'contracts.c03_grid'],
    'C04': ['contracts.builders', 'contracts.shared_grid', 'contracts.c03_grid', 'contracts.c04_meta', 'contracts.c08_creator', 'contracts.c08_manager', 'contracts.c17_upstream', 'contracts.c01_georef'],
    'C02': ['contracts.builders', 'contracts.shared_grid', 'contracts.c03_grid', 'contracts.c04_meta', 'contracts.c16_limits', 'contracts.c02_addresses'],
    'C20': ['contracts.builders', 'contracts.shared_grid', 'contracts.c03_grid', 'contracts.c04_meta', 'contracts.c08_creator', 'contracts.c13_expiry', 'contracts.c16_limits', 'contracts.c20_conditional', 'contracts.c17_upstream', 'contracts.c01_georef', 'contracts.c10_auth', 'contracts.c14_merge', 'contracts.c18_errors'],
    'C17': ['contracts.builders', 'contracts.shared_grid', 'contracts.c03_grid', 'contracts.c17_upstream'],
    'C10': ['contracts.builders', 'contracts.shared_grid', 'contracts.c03_grid', 'contracts.c04_meta', 'contracts.c16_limits', 'contracts.c20_conditional', 'contracts.c10_auth', 'contracts.c14_merge'],
    'C05': ['contracts.builders', 'contracts.shared_grid', 'contracts.c05_compact', 'contracts.c05_paths', 'contracts.c05_sqlite', 'contracts.c06_atomic'],
    'C19': ['contracts.builders', 'contracts.shared_grid', 'contracts.c05_compact'],
    'C06': ['contracts.builders', 'contracts.shared_grid', 'contracts.c05_compact', 'contracts.c06_atomic'],
    'C09': ['contracts.builders', 'contracts.shared_grid', 'contracts.c03_grid', 'contracts.c04_meta', 'contracts.c05_compact', 'contracts.c16_limits', 'contracts.c05_paths', 'contracts.c09_paths'],
    'C18': ['contracts.builders', 'contracts.c18_errors', 'contracts.c17_upstream'],
    'C01': ['contracts.builders', 'contracts.shared_grid', 'contracts.c03_grid', 'contracts.c04_meta', 'contracts.c17_upstream', 'contracts.c01_georef', 'contracts.c16_limits'],
    'C12': ['contracts.builders', 'contracts.shared_grid', 'contracts.c03_grid', 'contracts.c04_meta', 'contracts.c08_creator', 'contracts.c11_seed', 'contracts.c13_expiry', 'contracts.c05_paths', 'contracts.c12_cleanup', 'contracts.c05_sqlite'],
    'C11': ['contracts.builders', 'contracts.shared_grid', 'contracts.c03_grid', 'contracts.c04_meta', 'contracts.c11_seed'],
    'C15': ['contracts.builders', 'contracts.c15_async'],
    'C14': ['contracts.builders', 'contracts.shared_grid', 'contracts.c03_grid', 'contracts.c04_meta', 'contracts.c16_limits', 'contracts.c20_conditional', 'contracts.c14_merge', 'contracts.c10_auth'],
    'C16': ['contracts.builders', 'contracts.shared_grid', 'contracts.c03_grid', 'contracts.c04_meta', 'contracts.c16_limits'],
    'C13': ['contracts.builders', 'contracts.shared_grid', 'contracts.c03_grid', 'contracts.c04_meta', 'contracts.c08_creator', 'contracts.c08_manager', 'contracts.c13_expiry', 'contracts.c05_sqlite'],
    'C08': ['contracts.builders', 'contracts.shared_grid', 'contracts.c03_grid', 'contracts.c04_meta', 'contracts.c05_compact', 'contracts.c16_limits', 'contracts.c08_creator', 'contracts.c08_manager', 'contracts.c05_paths', 'contracts.c09_paths', 'contracts.c13_expiry'],
}

# semantics assumed by the encoding (DESIGN.md section 2.4), reported in every evidence file
ASSUMPTIONS = [
    'A-int: Python int operations are mathematical integers (exact); // and % follow Python floor semantics',
    'A-real: every float is a real number; + - * / exact; floor/ceil/int() mathematical; round(x,n)=x+e, |e|<=0.5*10^-n. '
    'Nothing is claimed about IEEE-754 rounding.',
    'A-alias: distinct parameters denote distinct objects; lists/dicts are not aliased between two live names; '
    'no other thread mutates the objects during the call',
    'A-gen-eager: generator bodies are executed eagerly at the call (no interleaving with the consumer)',
    'pyvc itself (AST -> SMT encoding of the Python subset) is trusted; cross-checked by replaying counter-models '
    'and by the mutation self-test',
    'log.*(...) / print(...) calls and docstrings are dropped (assumed effect-free)',
    'unknown values: len/isinstance/callable/is/subscript of a value the verifier knows nothing about are unknown but functional '
    '(the same question about the same value gets the same answer until an opaque, non-pure call happens)',
    'constructor calls return objects different from every value already bound to a name',
    'SRS.transform_bbox_to (pyproj) maps a proper rectangle to a proper rectangle (assumed where TileGrid.get_affected_bbox_and_level '
    'reprojects the request)',
    'io buffering: a write is in the process until the handle seeks, reads, flushes or closes (filemodel f_durable)',
    'str.split(<constant separator>): first two pieces and the length facts (1 piece <=> separator absent, >= 3 <=> it occurs again) '
    'are exact, later pieces are uninterpreted strings; hash(x) is an uninterpreted function of x and a per-process seed; '
    'hashlib digests are uninterpreted functions of their input; super() is an opaque proxy; hasattr/iter of an unknown value '
    'are unknown but functional',
    'literal SQL: where a statement is a string literal the contracts inspect its column list / WHERE columns / time-base '
    'modifiers textually; that sqlite executes the statement as written (INSERT OR REPLACE replaces the whole row, ...) is assumed',
]
PROP_ASSUMPTIONS = {}
NOT_COVERED = {}

NOT_APPLICABLE = {
    'C07': 'mutual exclusion of file locks is a property of interleavings of open/flock/unlink across OS processes; '
           'no pre/postcondition on a single call expresses it and no concurrent program logic for Python is '
           'available (DESIGN.md section 6, C07)',
}

MANIFEST_META = {
    'C01': dict(
        text='Proof of the placement arithmetic on the real code (reals, all inputs): the affected-tile block and its bbox '
             '(C03 contracts), mosaic lemma (tile m of the row-major list is pasted at its ground offset), TileMerger offsets '
             'and size, TileSplitter.get_tile keeps every pixel at its position relative to the crop coordinate in both '
             'branches (crop origin - paste position = crop coordinate), bbox_position_in_image clips exactly and truncates '
             'offsets by < 1 px, InfoQuery.coord is the affine pre-image of the clicked pixel (y flipped) with round-trip lemma, '
             'and the feature-info transfer for unsupported SRS reprojects exactly the ground point of the clicked pixel '
             '(request width AND height); ImageTransformer._transform_simple takes exactly the affine image of the requested bbox '
             'out of the source image (EXTENT quad; crop shortcut only if x AND y resolution match the source, rounded to whole '
             'pixels, output size wide); WMSSource._get_transformed reprojects back exactly the (srs, bbox) it asked upstream.',
        note='also under contract: ImageTransformer.transform dispatch / _no_transformation_needed, TiledImage and TileMerger.merge '
             'georeference, CacheMapLayer._image mosaic, WMSServer.featureinfo (query built from bbox/size/pos of the request, every '
             'answer collected); resampling and reprojection error budgets (transform_meshes, PIL, proj) and axis-order switching '
             'are outside; floats as reals; end-to-end WSGI pixels are outside'),
    'C18': dict(
        text='Narrow slice, proved on the real code: in XML/OWS exception handlers the template variable `exception` is exactly '
             'html.escape(request_error.msg) and the response body is the rendered template; PlainExceptionHandler (raw message) '
             'always answers text/plain; in MapProxyApp.__call__ (non-debug) any exception from a service handler becomes the '
             'constant \'internal error\'/500 body, unknown paths get \'not found\'/404/text/plain, and the welcome link is built '
             'only from escape_html(script_url); a request whose first path segment names a configured service is handled by that '
             'service and its answer is sent unchanged; Server.handle turns every RequestError of parser or handler into e.render(); '
             'RequestError.render delegates to the handler of the request, sends the raw message only with the default text/plain '
             'type, and marks every error answer not cacheable. escape_html\'s character-level postcondition is a BOUNDED check '
             '(replace chains are undecided in z3 and cvc5). Response.__call__: status and headers are sent once, after the body is '
             'settled; a seekable file body is measured (Content-length = position at EOF) and rewound; exactly a non-empty text body '
             'is encoded.',
        note='the universal claim "returns a complete response without raising for any request whatsoever" (whole-program '
             'exception freedom across dynamic dispatch, templates, PIL decoders), image decodability, XML well-formedness of '
             'rendered templates are NOT covered; repaired through this check: S15/S24 (in-image error Content-type), S29 (control characters '
             'in XML error documents; xml_text: that the result is the whole, uncut result of html.escape(<cleaned msg>) is proved, the character-level statement is bounded and html.escape / re.sub are trusted), plus contracts for DemoServer templates (taint propagation) and Request.host '
             '(total for every Host header); S37: SourceError texts (copied into every error document) carried the upstream URL / mapserver '
             'paths - now constant, under contract for WMSClient._check_resp and CGIClient.open'),
    'C09': dict(
        text='Proof that the paths built from numbers stay below their root: compact bundle file = cache_dir/L<z>/R<r>C<c> (two '
             'safe segments, string lemma), lock file = lock_dir/<cache id>-x-y-z.lck (one segment; injective for non-negative '
             'coordinates), tile coordinates reaching the cache are in-grid (C16: _internal_tile_coord, render ordering). The '
             'request-supplied dimension names/values (split/join/replace on symbolic strings is undecided in both string '
             'solvers) are covered by a BOUNDED check: dimensions_part and the six tile_location_* layouts are run on the real '
             'code with hostile keys/values and huge coordinates and the result must stay below the root.',
        note='bounded part: ~13000 generated inputs per run from a fixed hostile vocabulary, labelled bounded and not counted '
             'in discharged; A-fmt (number images contain no separator/dot); audit-event level (actual syscalls), multiapp '
             'and symlinks placed by third parties are outside; defect S5 (dimension path traversal) was found here and '
             'repaired in /repo f17d1f2'),
    'C05': dict(
        text='Proof against a field-granular file model, for all addresses / payloads / prior contents: compact v2 '
             '_store_tile updates the abstract view exactly (target slot = new bytes, EVERY other slot and its record bytes '
             'unchanged, file grows by 4+len), slots of the 128x128 block are disjoint index cells (127/128 borders by '
             'arithmetic), index read/update decode-encode, the bundle file name is cache_dir/L<z>/R<row>C<col> and is '
             'injective (string lemma, cvc5); bulk store/load hand the whole list to one bundle only if all concerned tiles '
             'live in that bundle file (set-cardinality invariant); file cache: a linked single-colour store removes whatever '
             'exists at the address first; compact v1: 5-byte index cells are disjoint, tile_offset/update/remove read and write '
             'exactly the cell of the slot and leave every other cell alone, append_tile puts <size><bytes> at the old end of the '
             'data file and touches nothing above the 60-byte header, BundleV1.store/load/remove/is_cached use the slot '
             '(x % 128, y % 128) of the address and nothing else; file-cache layouts tc/mp/tms/reverse_tms/arcgis: the path is '
             'exactly the documented formula of (dimension sub-path, level, column, row) and the formula is injective '
             '(digit-group and path-segment lemmas + A-fmt).',
        note='the file-object model (read-over-write, disjoint frames, struct little-endian) is a trusted stub; the composed '
             'statement "equal paths => equal addresses" is assembled from proved lemmas by hand (the single SMT query stays '
             'unknown); quadkey layout only bounded (C09); sqlite / geopackage backends: level dispatch, bulk load (parameter list = '
             'wanted addresses, chunks of whole triples within the SQLite limit, rows matched by (column, row, level)) are under '
             'contract - defects S1, S2 found there and repaired; single operations: _store_bulk builds one record (level, column, row, '
             'bytes of that tile) per tile and inserts them with a column list in that order, load_tile / remove_tile are parameterised with '
             'tile.coord in the order of their WHERE columns (literal SQL text is inspected, its execution by sqlite is assumed); '
             'redis/s3/azure/couchdb are outside; defects found and repaired: S1, S2, S17 (bulk load across levels), S18 (quadkey/arcgis '
             'layouts ignored dimensions; the arcgis formula contract had encoded that and was corrected from the property text)'),
    'C06': dict(
        text='Proof of crash conditions in the file model: after EVERY write inside compact v2 _store_tile (including a torn '
             'payload write of any length) every slot is either unchanged (entry, record bytes, size field, in-file) or - the '
             'target only - the complete new record; write_atomic creates an exclusive sibling temp file, writes the whole '
             'payload to that handle, closes it and only then renames it over the target, and on failure never replaces or '
             'removes the target; FileCache._store reaches the location only through write_atomic and unlinks nothing but a '
             'symlink at that location; compact v1: at every write of append_tile all existing records are untouched, the new '
             'record has left the process write buffer (seek/flush) before append_tile returns, and BundleV1.store_tiles '
             'publishes the index entry only afterwards, with the offset append_tile returned.',
        note='crash model = process death; writes of <= 8 bytes are atomic (index entry); OS-level durability/fsync, NFS, '
             'sqlite journaling are outside; legend cache and seed progress file: written only through write_atomic (whole '
             'payload after seek(0)); the v1 cross-file argument (index vs data '
             'file) is a composition of the two contracts, not one mechanised obligation'),
    'C19': dict(
        text='Proof that the v2 representation invariant (every index entry empty or pointing at a complete in-file record above '
             'the index whose size field matches) is preserved by _store_tile and index updates, hence after any history '
             '(induction over operations); defragmentation copies, for each of the 128 rows, all 128 addresses (0..127, y) from '
             'the old bundle and stores those found into the new one; v1 bulk load visits every tile (no early return).',
        note='bounded (never counted as proved): the property statement itself for defrag_compact_cache on real v1/v2 caches, 40 generated store/overwrite/remove histories per run; file model trusted; v1 index/data functions are under contract (C05) but the v1 invariant is not stated as one '
             'predicate; size() accounting is outside; the swap step (old files removed, temporary bundle renamed into the old '
             'name, only when tiles were copied), the identification of old/new bundle and the glob pattern are under contract; '
             'the defrag loop invariant is per-row (rows < y copied); S44: the scratch bundle was '
             'assumed empty - leftovers of an interrupted run were merged into the rewritten bundle; repaired, now an obligation'),
    'C12': dict(
        text='Proof on the real cleanup code (every iteration of the walks, all inputs): cleanup_directory hands a file to the '
             'remove handler iff remove_all or lstat(path).st_mtime < before_timestamp (strict, the file\'s own mtime, links not '
             'followed), with the walked path; simple_cleanup / cache_cleanup pass each selected level with exactly '
             'task.remove_timestamp and task.remove_all (nothing in dry-run); the tile-walk strategy inherits the walker '
             'obligations of C11 (recursion only into intersecting sub tiles with the right all_subtiles flag) and '
             'is_stale <=> exists and not fresh (C13); for the layouts tc, mp, tms and arcgis the level directory handed out by '
             'location_funcs(layout) is a path prefix of every tile location of that level (so the level-wise cleanup looks '
             'where the tiles are).',
        note='defect S4 (tms level directory) was found by this obligation and repaired in /repo 73f95f4; SQL deletes of the '
             'sqlite backends, real file-system time stamps and shutil.rmtree are outside; strategy choice in cleanup() is under '
             'contract (coverage-blind strategies only for complete extents and only with a cache offering the operation); known finding S31 '
             '(quadkey layout: level function raises); MBTiles level removal and the time base of last_modified are under contract; the dimension sub-path is assumed free of leading/trailing "/" (bounded check of '
             'dimensions_part); S38 (resumed directory clean-up skipped levels 10-19 of the tms layout) repaired, DirectoryCleanupProgress.can_skip is a BOUNDED contract'),
    'C11': dict(
        text='Proof on the real seeder code: SeedProgress.can_skip is exactly "current is behind old" for progress paths of '
             'any length (first differing position decides, a prefix or the path itself is never skipped); limit_sub_bbox is '
             'the exact intersection (one-step coverage lemma); MetaGrid.get_affected_level_tiles/_tile_iter list the '
             'whole meta-aligned block between the corners of the bbox, row by row, None outside the grid; in '
             'TileWalker._walk (all paths of one loop iteration) a non-intersecting sub tile is neither recursed into nor '
             'processed, recursion uses the limited bbox, level+1 and all_subtiles == (intersection == CONTAINS), and a '
             'StopProcess out of the recursion leaves the interrupted sub tile on the progress path; _filter_subtiles gives one answer per '
             'sub tile in order and drops a sub tile only if the task does not intersect its meta-tile bbox (Seed/CleanupTask.intersects: '
             'CONTAINS / INTERSECTS / NONE in the grid SRS); walk() starts at the extent of the task coverage with all levels unless the saved '
             'progress says done; seed_task configures the walker from the task (uncached / stale / all).',
        note='the whole-traversal conclusion (every selected tile requested, union of interrupted runs) is a stated lemma over '
             'these per-step facts, not a mechanised induction; worker processes, coverage geometry predicates, '
             'the duplicate filter and the progress-file pickle round trip are outside; step_down is '
             'inlined through an @contextmanager split'),
    'C15': dict(
        text='Proof for EVERY arrival order (an arbitrary injective index sequence of unbounded length, no enumeration): '
             'ThreadPool._get_results yields the values of indices next, next+1, ... without gap, duplicate or reordering '
             'and keeps exactly the not-yet-contiguous ones stashed (inductive invariants over the dict and the yielded '
             'sequence; lemma: if the available indices are [n0, N) then all N - n0 results come out); ThreadWorker.run '
             'queues exactly one result per task, carrying the task\'s own id, BEFORE task_done(); the sequential branch '
             'yields one result per item and re-raises in raise mode; _fetch_results hands on each queued result once, as it came, and '
             're-raises a failure only in raise mode after a forced shutdown; shutdown queues one stop sentinel per worker.',
        note='queue and thread timing are assumed (FIFO queue stubs, no scheduling explored); termination/liveness of the '
             'empty() polling and imap/map (star-args) are not under contract (map_each pooled branch, starmap, _single_call, '
             '_result_iter, _fetch_results, shutdown are); defects S13, S14 (size-1 pool swallowed exceptions) found and repaired; S42 (a re-used pool '
             'handed late results of an aborted call to the next call) and S43 (module-level starmap/starcall sized by len(args[0])) repaired, both under contract'),
    'C10': dict(
        text='Proof of the authorization decision logic and call-site conditions on the real code: tile services '
             '(TMS/WMTS/KML authorize_tile_layer) return normally only without a callback, for \'full\', or for '
             '\'partial\' with the layer\'s tile/featureinfo permission True, everything else raises before any render; '
             'TileLayer.render/get_info answer empty without touching the tile manager when the limit neither contains nor '
             'intersects the FULL tile rectangle, and mask the image with exactly that coverage and rectangle when it '
             'crosses; LayerMerger.merge never skips a request-wide limited_to (shortcut guard) and masks the composed '
             'result with it; WMS: authorized_layers hands out the permit-all marker only without a callback or for \'full\' and '
             'lists a layer only if its permission for the requested feature is True; filter_actual_layers drops (or refuses) '
             'every layer not listed and wraps a limited layer in LimitedLayer with THAT layer\'s limit; map and featureinfo '
             'apply decision -> filter -> render in that order, map gives the merger the decision\'s coverage with the bbox and '
             'size of the query that was rendered, featureinfo and LimitedLayer.get_info ask a layer only if the limit '
             'contains (query.coord, query.srs); GeomCoverage tests the shape built from the coordinates transformed into its '
             'own SRS; the callback is asked about wms.<feature>, unauthenticated never returns normally, per-layer permissions count '
             'only for partial and default to False; WMS capabilities: the complete layer tree is advertised only without a callback '
             'or for full, otherwise through FilteredRootLayer, whose layer_permitted / layers / queryable advertise a named layer '
             'only with its map (featureinfo) permission and inside its limits.',
        note='pixel clipping (image.mask, shapely, PIL) and the reprojection arithmetic of the limiting geometry are outside; '
             'opaque-callee assumption; the callback result is an opaque mapping; the capabilities TEMPLATES (what is printed for '
             'an advertised layer) and FilteredRootLayer.extent are outside; known finding S27 (tile services drop the request-wide limit when '
             'the layer has its own); GetLegendGraphic is never authorized and clip masks are pixel-level (observations)'),
    'C14': dict(
        text='Proof that the shortcut guards imply "shortcut = full composition" at the level of operation selection: the '
             'single-layer fast path of LayerMerger.merge is taken only for one layer of the requested size without clip, '
             'without request-wide coverage, opaque or transparent output, and WITHOUT an opacity < 1; the loop composites '
             'each layer once, bottom to top; WMSSource.is_opaque implies no transparency, full opacity, inside coverage and '
             'resolution range; _is_compatible allows combining upstream requests only without opacities and with equal SRS, '
             'formats, colour key, coverage and forwarded dimensions; each layer image goes OVER the result so far (destination first, '
             'source second) with a transparency-aware operation (alpha_composite / masked paste for RGBA and palette images, colour '
             'keys converted to alpha first), the returned image is the composition (masked on a fresh background for a request-wide '
             'limit) and cacheable only if every layer is; request combination: combined_client concatenates the layer lists in '
             'drawing order on a COPY of the template, combined_layer/combined_layers merge only adjacent compatible layers and keep '
             'the order; LayerRenderer adds every successful layer once, in order, with its own opacity and coverage; WMSServer.map '
             'prunes only below an opaque layer that renders the query.',
        note='pixel arithmetic (PIL alpha_composite/blend/paste) is an algebra of opaque symbols: the proof is about WHICH operation is '
             'applied to WHICH operands in WHICH order, not about pixel values; mask_polygons (BBOXCoverage, S16), WMSGroupLayer.is_opaque (S33) '
             'and the parameter equality of combined requests (S34) are under contract and were repaired; defects S6 (opacity 0 counted opaque) and S7 (single '
             'layer ignores opacity) were found by this check and repaired in /repo (089f0af, 82bd189); S40 (opacity < 1 on output without alpha dropped '
             'the layer transparency) repaired'),
    'C17': dict(
        text='Proof of call-site preconditions on the real WMSSource code (all paths, all inputs): at every '
             'client.retrieve(q, fmt) the format is in supported_formats and the SRS in supported_srs whenever those lists '
             'are configured, and the bbox either passed extent.contains or is the request clipped to the extent by '
             'bbox_position_in_image (whose clipping arithmetic is proved); no upstream request is made unless the '
             'source\'s own coverage.intersects(query.bbox, query.srs) and res_range.contains(...) agreed; '
             'ResolutionRange.contains is exactly "x AND y resolution below min_res (+1e-6) and not below max_res"; '
             '_get_transformed sends upstream the query built from best_srs and the transformed bbox (directly or clipped); '
             'MapQuery.dimensions_for_params returns exactly the dimensions whose lower-cased name is a configured parameter '
             '(proof + bounded twin); WMSClient._query_req copies the template and sets bbox/size/srs code/format of the query plus '
             'exactly the forwarded dimensions; TiledSource.get_map refuses sizes/resolutions the grid does not have; WMSSource.get_map '
             'declares a request blank only outside its coverage/resolution range and applies colour key and opacity of the source; '
             'WMSClient.retrieve makes exactly one request built from this query and format (GET/POST as configured, under the configured '
             'concurrency limit) and accepts the answer only as image/*; WMSInfoClient asks in a supported SRS (else with the transformed '
             'query) and sends bbox/size/pixel/SRS code of that query.',
        note='SRS equality is treated as identity of opaque objects; URL assembly, reprojected bbox accuracy, '
             'the URL text (complete_url) is not under contract; PreferredSrcSRS.preferred_src returns an entry of the configured list (S30 '
             'repaired), sources are combined only inside both resolution ranges (S25), a clipped bbox is sent only as a proper rectangle '
             '(S26); WMSInfoClient still forwards the client\'s SRS code when it merely compares equal (pinned by tests); opaque-callee '
             'assumption'),
    'C20': dict(
        text='Proof on the real code: Response.make_conditional answers 304 (no body, no Content-type) when If-None-Match '
             'equals the current ETag, and sets 304 ONLY if the ETag matches or Last-Modified <= a well-formed '
             'If-Modified-Since (an absent ETag never matches an absent header; a malformed date never gives 304); '
             'cache_headers builds validators from (timestamp, size) only and emits the no-store directives on request; in '
             'TMS, WMTS and KML handlers an uncacheable tile is always sent with cache_headers(no_cache=True) and '
             'validators come from the rendered tile; HTTP dates are read as GMT (two-digit years as 20xx, unparseable dates as None); '
             'file-cache metadata comes from lstat; tile answers are built from the rendered tile and made conditional on the headers '
             'of that request; WMS-C (tiled=true) answers get validators and a conditional answer exactly when the image carries the '
             'CacheInfo of a cached tile, uncacheable WMS answers get no-cache headers; error documents are never cacheable.',
        note='md5 and date formatting/parsing are uninterpreted functions; headers are a str->str map; tile_buffer is not under contract; defects S20 (meta-tile path dropped the cache info), S21 (stale '
             'metadata kept), S22 (WMS-C uncacheable) found by the defect hunt, put under contract and repaired; defect S8 (WMTS/KML ignored tile.cacheable) was found by this check '
             'and repaired in /repo commit 4acc6c2'),
    'C02': dict(
        text='Proof on the real code of the address arithmetic between the advertised description objects and the served '
             'tiles: public->internal level mapping (profile shift, sqrt2 skip) and its inverse, TMS tile_sets advertise '
             'exactly the levels internal_tile_coord serves (lemma), origin flip is an involution that preserves the ground '
             'rectangle when supports_access_with_origin offers it, origin_tile, and for every WMTS TileMatrix: identifier = '
             'level name, matrix size = grid size, ScaleDenominator <-> resolution, TopLeftCorner = north-west corner of the '
             'tile block; lemmas compose these to "client rectangle = served rectangle".',
        note='also under contract: wmts.meter_per_unit (degrees only for geographic SRS), KMLServer._get_subtiles (children = tiles of '
             'level z+1 in the rectangle of the parent, advertised iff the lower-left corner lies inside it, with the full tile_bbox and '
             'the external address of that very tile, y-flipped for non-lower-left origins) and the origin handling of the TMS/KML handlers; the XML templates (TMS Origin/BoundingBox, '
             'WMS-C TileSet) and KML link generation are outside; the composition '
             'lemmas restate contract clauses by hand; floats as reals; known finding S9 (WMTS on sqrt2 grids); S39 (row flipped on grids that cannot be flipped: TMS on unaligned origin=ul grids) '
             'repaired through the new postcondition of TileLayer._internal_tile_coord'),
    'C16': dict(
        text='Proof on the real code that requests are validated before they cost anything: limit_tile answers non-None '
             'exactly for in-grid addresses (int and named levels, negative and huge values, all grids); the public->internal '
             'level mapping; TileLayer._internal_tile_coord only ever returns an in-grid tile; in TileLayer.render / get_info '
             'the format, range and dimension checks precede the single tile-manager access, which receives the validated '
             'coordinate and the checked dimensions; CacheMapLayer._image refuses columns x rows >= max_tile_limit before any '
             'load; WMSServer.check_map_request refuses width x height > max_output_pixels; tile lists never contain an '
             'out-of-grid address (_create_tile_list, _meta_tile_list); WMS request validation: an accepted request has a bbox with positive '
             'extent, a configured format and SRS, only configured layers; WMTS: parsed first, configured layer and a tile matrix set of it.',
        note='opaque-callee assumption for the trace conditions; HTTP status/body rendering, WMS-C and the request '
             'parsers\' regular expressions are outside (levels reach the services as int(...) of \\d+ groups); also under contract: '
             'TileLayer.checked_dimensions, WMTSServer.featureinfo (address validated like GetTile: S28 repaired), non-positive WIDTH/HEIGHT '
             'refused (S23 repaired); max_tile_limit is evaluated per layer while rendering (observation, not decided here)'),
    'C04': dict(
        text='Proof of the meta-tile geometry on the real MetaGrid code for all grids / meta sizes / buffers / tiles: '
             'meta size never exceeds the level grid, main tile arithmetic (idempotence lemma), tile lists row by row '
             'from the top with None outside the grid, the crop pattern is a regular lattice (tile width/height, '
             'left/top buffer), the buffered bbox is the unbuffered block -/+ buffer or the grid edge with the pixel '
             'buffer within one pixel, and entry 0 sits at its ground position exactly when the buffer is not cut off '
             '(lemmas pattern_placement_x/y extend this to every entry). Trace conditions on '
             'TileCreator._create_meta_tile: one upstream request per meta tile, split tiles stored under the lock.',
        note='floats as reals; PIL crop/paste pixel semantics and the upstream being position-determined are outside; '
             'TileSplitter.get_tile, split_meta_tiles, minimal_meta_tile, bulk creation and TileManager._load_tile_coords (every missing tile '
             'goes to the creator, created tiles are delivered, rescaled stand-ins only when nothing was created) are under contract; '
             'opaque-callee assumption for trace conditions (an opaque callee does not itself perform the guarded event); S45 (bulk mode lost to '
             'minimize_meta_requests) and S46 (meta tiles de-duplicated by bbox) found by the second hunt, clauses re-written from the property, repaired'),
    'C08': dict(
        text='Proof of the per-thread protocol obligations on the real TileCreator code (all paths, all inputs): the lock '
             'taken is the one of the meta tile\'s main tile (main_tile idempotence lemma), the upstream is queried only '
             'while that lock is held and only after a cache re-check of all tiles made under the same lock, at most one '
             'upstream request per invocation, results stored before the lock is released. The interleaving conclusion '
             '(one fetch per meta tile across threads) is a pen-and-paper lemma conditional on lock exclusivity (C07).',
        note='no interleavings are explored (exclusivity of FileLock is assumed, C07 not applicable); opaque-callee '
             'assumption; _create_bulk_meta_tile is under contract, lock file naming under C09; S41: the re-check under the lock was blind for backends that do not '
             're-read a loaded tile and crashed after our own S21 repair - corrected (fresh Tile for the re-check, metadata reset where the new source is set)'),
    'C13': dict(
        text='Proof on the real TileManager code: is_cached is the backend answer restricted by the threshold (stale at '
             'or before the threshold, fresh after it -- outside known finding S10), is_stale <=> exists and not fresh, '
             'a refresh rule takes precedence and is re-evaluated on every call (frame: nothing cached in the manager), '
             'a fresh tile causes no upstream request, a failed refresh stores/removes nothing; file-cache metadata comes '
             'from lstat of the tile\'s own location; before_timestamp_from_options: an explicit time wins, else the mtime of the named '
             'file, else now minus the given units (each from its own key, 0 if absent); seed_task hands the refresh timestamp of the task '
             'to its tile manager.',
        note='wall-clock functions (mktime, time zones), sqlite timestamp resolution and the seed-task path are outside; '
             'timestamps assumed non-negative; known finding S10 (sub-second window); S32 (seed threshold overridden by the cache rule) and '
             'S21 (stale metadata kept on the tile) repaired; S36 (relative thresholds an hour off after a DST switch) repaired - timestamp_before is under contract; '
             'the mtime of hard-linked single-colour tiles is an observation outside the contracts'),
    'C03': dict(
        text='Proof (all grids, all levels, all coordinates, no bound) that the real grid.py functions meet contracts '
             'taken from the property text: tile() contains its point, tile_bbox edges are the exact affine edges '
             '(neighbours share edges), flip is an involution that preserves the ground rectangle when '
             'supports_access_with_origin offers it, affected-tile lists are the full block row by row from the top '
             'with no merely-touching tile and None outside the grid, closest_level implements the stated level '
             'choice (unbounded loop invariant), _calc_grids sizes. Floats are modelled as reals.',
        note='floats as exact reals (IEEE rounding not covered; round(x,12) as a +-5e-13 perturbation); pyvc encoding '
             'trusted; TileGrid.__init__ establishing grid_wf (other than grid sizes) and strictly decreasing '
             'resolutions are assumed; closest_level proved for grids without threshold_res; known finding S11; '
             'S47 (fixed 1/10-pixel inset: GridError / dropped tile for sub-pixel rectangles; the contract had allowed the error) and S48 (bbox of the '
             'meta tile block on origin=ul grids) found by the second hunt and repaired'),
}
