"""C12 defect 1: GeopackageLevelCache (cache type 'geopackage' with 'levels: true')
claims timestamp support although its per-level GeoPackages store no timestamps.
A cleanup with 'remove_before' is therefore accepted; with a coverage (tile walk)
every tile is reported with timestamp -1 and *fresh* tiles are removed; without a
coverage (backend bulk delete) nothing is removed at all."""
import os
import shutil
import sys
import tempfile
import time
import io

sys.path.insert(0, os.getcwd())

from PIL import Image
from mapproxy.cache.tile import Tile
from mapproxy.image import ImageSource
from mapproxy.config.loader import load_configuration
from mapproxy.seed.config import load_seed_tasks_conf, SeedConfigurationError
from mapproxy.seed.cleanup import cleanup

MAPPROXY_YAML = """
services:
  wms:
layers:
  - name: l
    title: l
    sources: [c]
caches:
  c:
    grids: [GLOBAL_GEODETIC]
    sources: []
    cache:
      type: geopackage
      directory: %(dir)s/gpkg
      levels: true
"""
SEED_YAML = """
cleanups:
  with_coverage:
    caches: [c]
    levels: [2]
    remove_before:
      time: '2001-01-01T00:00:00'
    coverages: [west]
  full_extent:
    caches: [c]
    levels: [2]
    remove_before:
      time: '2001-01-01T00:00:00'
coverages:
  west:
    bbox: [-180, -90, 0, 90]
    srs: 'EPSG:4326'
"""


def tile_data():
    buf = io.BytesIO()
    Image.new('RGB', (256, 256), (255, 0, 0)).save(buf, 'PNG')
    return buf.getvalue()


def main():
    tmp = tempfile.mkdtemp()
    try:
        with open(os.path.join(tmp, 'mapproxy.yaml'), 'w') as f:
            f.write(MAPPROXY_YAML % {'dir': tmp})
        with open(os.path.join(tmp, 'seed.yaml'), 'w') as f:
            f.write(SEED_YAML)
        conf = load_configuration(os.path.join(tmp, 'mapproxy.yaml'), seed=True)
        try:
            seed_conf = load_seed_tasks_conf(os.path.join(tmp, 'seed.yaml'), conf)
            tasks = seed_conf.cleanups()
        except SeedConfigurationError as ex:
            print('OK: remove_before is refused for a cache without timestamps:', ex)
            return 0
        tm = tasks[0].tile_manager
        cache = tm.cache
        # tiles written *now*: all of them are (much) newer than 2001-01-01
        coords = [(0, 0, 2), (1, 1, 2), (7, 3, 2)]
        for c in coords:
            cache.store_tile(Tile(c, ImageSource(io.BytesIO(tile_data()))))
        assert all(cache.is_cached(Tile(c)) for c in coords)
        print('cache.supports_timestamp =', cache.supports_timestamp)
        out = io.StringIO()
        old = sys.stdout
        sys.stdout = out
        try:
            cleanup([t for t in tasks if t.md['name'] == 'with_coverage'], concurrency=1, dry_run=False, verbose=False)
        finally:
            sys.stdout = old
        left = [c for c in coords if cache.is_cached(Tile(c))]
        removed = [c for c in coords if c not in left]
        print('threshold : 2001-01-01, tiles written at', time.strftime('%Y-%m-%d'))
        print('remaining :', left)
        print('removed   :', removed)
        if removed:
            print('FAIL: cleanup with remove_before=2001-01-01 removed tiles that were '
                  'written just now (newer than the threshold): %s' % removed)
            return 1
        print('OK: no fresh tile was removed')
        return 0
    finally:
        shutil.rmtree(tmp, ignore_errors=True)


if __name__ == '__main__':
    sys.exit(main())
