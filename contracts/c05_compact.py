"""C05 / C19 / C06 - compact bundles (v2): address -> slot arithmetic, representation invariant, store/load/remove as
updates of the abstract view, crash conditions."""
from pyvc.api import contract, cls, ghost, lemma
from . import shared_grid  # noqa
K = 'mapproxy.cache.compact:'

cls(K + 'BundleV2', fields=dict(filename='str', lock_filename='str', file_permissions='opaque',
                                directory_permissions='opaque', _initialized='bool'))

IDX_END = 64 + 128 * 128 * 8
# index entry of slot (x, y), decoded: size in the 24 most significant bits, offset in the low 40
ghost('v2_entry', ['f', 'x', 'y'], "f_int(f, 64 + (x + 128 * y) * 8, 8)")
ghost('v2_size', ['f', 'x', 'y'], "v2_entry(f, x, y) // 1099511627776")
ghost('v2_off', ['f', 'x', 'y'], "v2_entry(f, x, y) - (v2_entry(f, x, y) // 1099511627776) * 1099511627776")
# C19 representation invariant: every index entry is empty or points at a complete record inside the file whose
# recorded size matches; records lie above the index
ghost('v2_wf', ['f'], """f_len(f) >= %d and forall(lambda x, y: implies(0 <= x < 128 and 0 <= y < 128,
        0 <= v2_entry(f, x, y) and v2_entry(f, x, y) < 18446744073709551616
        and implies(v2_size(f, x, y) > 0,
                    %d <= v2_off(f, x, y) - 4 and v2_off(f, x, y) + v2_size(f, x, y) <= f_len(f)
                    and f_int(f, v2_off(f, x, y) - 4, 4) == v2_size(f, x, y))))""" % (IDX_END, IDX_END))

contract(K + 'BundleV2._tile_idx_offset', props=['C05', 'C19'],
         types=dict(x='int', y='int'), returns='int',
         ensures=['result == 64 + (x + 128 * y) * 8',
                  # slots of the 128 x 128 block are distinct 8-byte cells inside the index area
                  'implies(0 <= x < 128 and 0 <= y < 128, 64 <= result and result + 8 <= %d)' % IDX_END],
         must_fail='result == 64')
lemma('v2_slots_disjoint', ['C05', 'C19'],
      doc='different (x, y) in the 128 x 128 block have different, non-overlapping index cells (borders 127/128 included)',
      fn=lambda z3: (lambda x, y, u, v: ([0 <= x, x < 128, 0 <= y, y < 128, 0 <= u, u < 128, 0 <= v, v < 128, z3.Or(x != u, y != v)],
                                         z3.Or(64 + (x + 128 * y) * 8 + 8 <= 64 + (u + 128 * v) * 8,
                                               64 + (u + 128 * v) * 8 + 8 <= 64 + (x + 128 * y) * 8)))(
          z3.Int('x'), z3.Int('y'), z3.Int('u'), z3.Int('v')))

contract(K + 'BundleV2._rel_tile_coord', props=['C05'],
         types=dict(tile_coord='tuple[int,int,int]'), returns='tuple[int,int]',
         ensures=['result[0] == tile_coord[0] % 128 and result[1] == tile_coord[1] % 128',
                  '0 <= result[0] < 128 and 0 <= result[1] < 128'],
         must_fail='result[0] == tile_coord[0]')

contract(K + 'BundleV2._tile_offset_size', props=['C05', 'C19'],
         types=dict(fh='file', x='int', y='int'), returns='tuple[int,int]',
         requires=['v2_wf(fh)', '0 <= x < 128 and 0 <= y < 128'],
         modifies=['fh.pos'],
         ensures=['result[1] == v2_size(fh, x, y)',
                  'implies(result[1] > 0, result[0] == v2_off(fh, x, y))',
                  'implies(result[1] == 0, result[0] == 0)'],
         must_fail='result[1] == 0')

contract(K + 'BundleV2._store_tile', props=['C05', 'C19', 'C06'],
         types=dict(fh='file', tile_coord='tuple[int,int,int]', data='blob', dimensions='opaque'), returns='none',
         inline=['_rel_tile_coord', '_append_tile', '_update_tile_offset', '_update_metadata', '_tile_idx_offset'],
         requires=['v2_wf(fh)', '0 < len(data) and len(data) < 16777216', 'f_len(fh) + 4 + len(data) < 1099511627776',
                   'tile_coord[0] >= 0 and tile_coord[1] >= 0'],
         raises={},
         ensures=[
             'v2_wf(fh)',
             # the whole view: the target slot now holds exactly the new bytes ...
             """v2_size(fh, tile_coord[0] % 128, tile_coord[1] % 128) == len(data)
                and f_blob(fh, v2_off(fh, tile_coord[0] % 128, tile_coord[1] % 128), len(data)) == data""",
             # ... and EVERY other slot returns what it returned before (entry and record bytes untouched)
             """forall(lambda x, y: implies(0 <= x < 128 and 0 <= y < 128 and (x != tile_coord[0] % 128 or y != tile_coord[1] % 128),
                    v2_entry(fh, x, y) == old(v2_entry(fh, x, y))
                    and implies(v2_size(fh, x, y) > 0,
                                f_blob(fh, v2_off(fh, x, y), v2_size(fh, x, y)) == old(f_blob(fh, v2_off(fh, x, y), v2_size(fh, x, y))))))""",
             'f_len(fh) == old(f_len(fh)) + 4 + len(data)',
         ],
         crash=[
             # C06: at every point of the store, every slot is either as before, or (the target only) the complete new record
             """forall(lambda x, y: implies(0 <= x < 128 and 0 <= y < 128,
                    (v2_entry(fh, x, y) == old(v2_entry(fh, x, y))
                     and implies(v2_size(fh, x, y) > 0, f_blob(fh, v2_off(fh, x, y), v2_size(fh, x, y)) == old(f_blob(fh, v2_off(fh, x, y), v2_size(fh, x, y)))
                                 and f_int(fh, v2_off(fh, x, y) - 4, 4) == v2_size(fh, x, y)
                                 and v2_off(fh, x, y) + v2_size(fh, x, y) <= f_len(fh)))
                    or (x == tile_coord[0] % 128 and y == tile_coord[1] % 128 and v2_size(fh, x, y) == len(data)
                        and f_blob(fh, v2_off(fh, x, y), len(data)) == data and v2_off(fh, x, y) + len(data) <= f_len(fh))))""",
         ],
         must_fail='f_len(fh) == old(f_len(fh))')


# ---- address -> (bundle file, slot) ---------------------------------------------------------------------------------------
cls(K + 'CompactCacheBase', fields=dict(cache_dir='str', lock_cache_id='str', directory_permissions='opaque',
                                        file_permissions='opaque', coverage='opaque', bundle_class='opaque'))
cls(K + 'CompactCacheV1', fields={})
cls(K + 'CompactCacheV2', fields={})


def _bf_name(ex, st, c):
    """bundle file (without extension) of address c: uninterpreted name function, defined by _get_bundle_fname_and_offset"""
    import z3
    from pyvc.values import VStr
    f = z3.Function('bf_name', z3.IntSort(), z3.IntSort(), z3.IntSort(), z3.StringSort())
    return VStr(f(c.items[2].t, c.items[1].t / 128, c.items[0].t / 128))


ghost('bf_name', ['c'], _bf_name)

contract(K + 'CompactCacheBase._get_bundle_fname_and_offset', props=['C05', 'C09'],
         types=dict(tile_coord='tuple[int,int,int]'), returns='tuple[str,tuple[int,int]]',
         requires=['tile_coord[0] >= 0 and tile_coord[1] >= 0 and tile_coord[2] >= 0'],
         ensures=[
             'result[1][0] == tile_coord[0] // 128 * 128 and result[1][1] == tile_coord[1] // 128 * 128',
             # the name is cache_dir / L<level> / R<row block, hex>C<column block, hex>
             """result[0] == pjoin(self.cache_dir, 'L' + fmt0d(2, tile_coord[2]),
                                   'R' + fmt0x(4, tile_coord[1] // 128 * 128) + 'C' + fmt0x(4, tile_coord[0] // 128 * 128))""",
             # the same statement through the ghost `bname` (opaque for the callers: the bulk-dispatch proofs only need
             # equality of names, not their structure; revealed here, where the name is computed)
             'result[0] == bname(self, tile_coord)'],
         reveal=['bname'],
         must_fail="result[1][0] == tile_coord[0]")

lemma('bundle_name_injective', ['C05'],
      doc='pjoin(d, L<l>, R<a>C<b>) = p + L<l>/R<a>C<b> with p = d or d/ (the same for both): p L<l>/R<a>C<b> == p L<l2>/R<a2>C<b2> '
          'and the number images contain none of "C", "/", "R", "L"  =>  l, a, b equal '
          '(with injectivity of the number formats: tiles of different levels or 128-blocks never share a bundle file)',
      fn=lambda z3: (lambda d, l, l2, a, a2, b, b2: (
          [z3.Concat(d, z3.StringVal('L'), l, z3.StringVal('/R'), a, z3.StringVal('C'), b) ==
           z3.Concat(d, z3.StringVal('L'), l2, z3.StringVal('/R'), a2, z3.StringVal('C'), b2)] +
          [z3.Not(z3.Contains(x, z3.StringVal(ch))) for x in (l, l2, a, a2, b, b2) for ch in ('C', '/', 'R', 'L')],
          z3.And(l == l2, a == a2, b == b2)))(*z3.Strings('d l l2 a a2 b b2')))


# ---- bulk dispatch: the single-bundle fast path is taken only if ALL concerned tiles live in ONE bundle file -------------
ghost('bname', ['cache', 'c'], """pjoin(cache.cache_dir, 'L' + fmt0d(2, c[2]), 'R' + fmt0x(4, c[1] // 128 * 128)
                                 + 'C' + fmt0x(4, c[0] // 128 * 128))""", opaque=True)
TF = {'stored': 'bool', 'coord': 'opt[tuple[int,int,int]]', 'source': 'opt[opaque]'}
SET_INV = [
    'len(bundle_files) >= 0',
    '(len(bundle_files) == 0) == forall_str(lambda s: not (s in bundle_files))',
    'implies(len(bundle_files) == 1, forall_str(lambda a, b: implies(a in bundle_files and b in bundle_files, a == b)))',
    'implies(len(bundle_files) >= 1, tile_coord is not None and bname(self, tile_coord) in bundle_files)',
]


def _fast_path_single_bundle(skip):
    def clause(ex, st, post, result):
        import z3
        from pyvc.values import eq
        from pyvc import tracelib as T
        bulk = [e for i, e in T.evs(st, 'store_tiles', 'load_tiles') if e.recv is not None]
        if not bulk:
            return
        gb = [e for i, e in T.evs(st, '_get_bundle')]
        tiles = post.env['tiles']
        self_ = post.env['self']
        goal = z3.BoolVal(len(gb) == 1 and len(bulk) == 1 and bulk[0].args[0] is tiles)
        if gb:
            tc = gb[0].args[0]
            j = z3.Int('fp_j')
            tj = tiles.elem(j)
            skipped = skip(ex, st, tj)
            cj = ex.opaque_field(st, tj, 'coord')
            sp = st.fork()
            sp.spec = True
            sp.env = {'self': self_, 'a': cj.val, 'b': tc.val if hasattr(tc, 'val') else tc}
            same = ex.spec_bool(sp, 'bname(self, a) == bname(self, b)')
            goal = z3.And(goal, z3.ForAll([j], z3.Implies(z3.And(0 <= j, j < tiles.length(), z3.Not(skipped)), same)))
        yield ('bulk_path_only_for_one_bundle', goal,
               'the whole list is handed to ONE bundle only if every tile that is not skipped lives in that bundle file '
               '(same level directory, same 128 x 128 block)')
    return clause


def _one_by_one(fn):
    single = 'store_tile' if fn == 'store_tiles' else 'load_tile'
    flag = 'failed' if fn == 'store_tiles' else 'missing'

    def clause(ex, st, k):
        import z3
        evs_ = st.trace[getattr(st, 'iter_start_trace', 0):]
        calls = [e for e in evs_ if e.name in (single, 'CompactCacheBase.' + single)]
        tile = st.env['tile']
        ok = len(calls) == 1 and any(a is tile for a in calls[0].args)
        goal = z3.BoolVal(bool(ok))
        if ok:
            # an unsuccessful single operation always raises the flag (it is never lowered again by this iteration)
            goal = z3.And(goal, z3.Implies(z3.Not(ex.truth(st, calls[0].result)), ex.truth(st, st.env[flag])))
        yield ('fallback_handles_every_tile', goal,
               'tiles spread over several bundles: each tile goes through %s once; a False answer sets `%s`' % (single, flag))
    return clause


def _bulk_answer(fn):
    flag = 'failed' if fn == 'store_tiles' else 'missing'

    def clause(ex, st, post, result):
        import z3
        if flag not in st.env:
            return
        yield ('bulk_answer_is_not_' + flag, ex.truth(st, result) == z3.Not(ex.truth(st, st.env[flag])),
               'the fallback path answers True exactly when no single operation failed')
    return clause



# ---- the same statement as a BOUNDED check on real caches (runs whatever the body looks like): a bulk load fills every wanted tile
# with the bytes stored for ITS OWN address (level included) and reports success iff none is missing
def _gen_bulk_load(gen, rng):
    pool = [(0, 0, 0), (0, 0, 1), (1, 1, 1), (1, 1, 2), (127, 127, 8), (127, 127, 9), (128, 127, 9), (127, 128, 9), (128, 128, 9),
            (5, 5, 3), (5, 6, 3), (255, 255, 9), (256, 255, 10), (0, 1, 1)]
    stored = rng.sample(pool, rng.randint(0, 7))
    wanted = rng.sample(pool, rng.randint(0, 5))
    return {'self': {'$cls': '$compact_cache', 'version': rng.choice([1, 2]), 'stored': [list(c) for c in stored]},
            'tiles': {'$cls': '$tile_list', 'coords': [list(c) for c in wanted]}}


def _bulk_load_is_per_address(args, result):
    """after load_tiles every wanted tile holds the bytes of the latest store to exactly its address (level, column, row) or nothing
    if that address was never stored; the answer is True iff nothing is missing"""
    from mapproxy.cache.tile import Tile
    from contracts.builders import _tile_bytes
    cache, ok = args['self'], True
    for t in args['tiles']:
        one = Tile(t.coord)
        have = cache.load_tile(one)
        want = one.source.as_buffer().read() if have else None
        if want is not None and want != _tile_bytes(t.coord):
            return False
        got = t.source.as_buffer().read() if t.source is not None else None
        if got != want:
            return False
        ok = ok and have
    return bool(result) == bool(ok)


for _fn, _skip, _inv_skip in (
        ('store_tiles', lambda ex, st, t: ex.truth(st, ex.opaque_field(st, t, 'stored')), 'tiles[j].stored'),
        ('load_tiles', lambda ex, st, t: __import__('z3').Or(ex.truth(st, ex.opaque_field(st, t, 'source')),
                                                              ex.opaque_field(st, t, 'coord').isnone),
         '(tiles[j].source or tiles[j].coord is None)')):
    contract(K + 'CompactCacheBase.' + _fn, props=['C05'],
             types=dict(tiles='list[opaque]', dimensions='opaque') if _fn == 'store_tiles' else
             dict(tiles='list[opaque]', with_metadata='bool', dimensions='opaque'),
             returns='bool', default_callee='opaque', opaque_fields=TF, stable_fields=list(TF),
             opaque_spec={'_get_bundle': {'pure': True}, 'store_tiles': {'returns': 'bool'}, 'load_tiles': {'returns': 'bool'},
                          'store_tile': {'returns': 'bool'}, 'load_tile': {'returns': 'bool'}},
             requires=["""forall(lambda j: implies(0 <= j < len(tiles) and tiles[j].coord is not None,
                              tiles[j].coord[0] >= 0 and tiles[j].coord[1] >= 0 and tiles[j].coord[2] >= 0))""",
                       'forall(lambda j: implies(0 <= j < len(tiles) and not %s, tiles[j].coord is not None))' % _inv_skip],
             loops={0: dict(types={'bundle_files': 'dict[str,none]', 'tile_coord': 'opt[tuple[int,int,int]]'},
                            inv=SET_INV + ['forall(lambda j: implies(0 <= j < _k and not %s, bname(self, tiles[j].coord) in bundle_files))' % _inv_skip]),
                    1: dict(types={'failed': 'bool', 'missing': 'bool'},
                            inv=['implies(_k == 0, not %s)' % ('failed' if _fn == 'store_tiles' else 'missing')],
                            body_trace=[_one_by_one(_fn)])},
             trace=[_fast_path_single_bundle(_skip), _bulk_answer(_fn)],
             **(dict(ensures=[_bulk_load_is_per_address], fuzz_gen=_gen_bulk_load, bounded=dict(n=400, seconds=10))
                if _fn == 'load_tiles' else {}))


# ---- v2 load / remove -------------------------------------------------------------------------------------------------------
contract(K + 'BundleV2._update_tile_offset', props=['C05', 'C19'],
         types=dict(fh='file', x='int', y='int', offset='int', size='int'), returns='none',
         inline=['_tile_idx_offset'],
         requires=['0 <= x < 128 and 0 <= y < 128', '0 <= offset and offset < 1099511627776', '0 <= size and size < 16777216',
                   'f_len(fh) >= %d' % IDX_END],
         ensures=['v2_entry(fh, x, y) == offset + size * 1099511627776',
                  # frame: every other 8-byte index cell and everything above the index is untouched
                  """forall(lambda u, v: implies(0 <= u < 128 and 0 <= v < 128 and (u != x or v != y), v2_entry(fh, u, v) == old(v2_entry(fh, u, v))))""",
                  'forall(lambda o, n: implies(o >= %d and n >= 0, f_blob(fh, o, n) == old(f_blob(fh, o, n)) and f_int(fh, o, 4) == old(f_int(fh, o, 4))))' % IDX_END,
                  'f_len(fh) == old(f_len(fh))'],
         must_fail='v2_entry(fh, x, y) == 0')

# remove: the slot reads as missing afterwards, all other slots unchanged (whole view)
lemma('v2_remove_is_empty', ['C05', 'C19'],
      doc='remove writes offset 0, size 0: entry 0 decodes to size 0 = "missing" (readers treat size 0 as missing)',
      fn=lambda z3: ([], (z3.IntVal(0) + z3.IntVal(0) * 1099511627776) / 1099511627776 == 0))


# ---- defragmentation: every row, every column, the bundle's own tiles --------------------------------------------------------
def _defrag_row(ex, st, k):
    import z3
    from pyvc.values import eq, VSeq, VInt
    n0 = getattr(st, 'iter_start_trace', 0)
    evs_ = st.trace[n0:]
    loads = [e for e in evs_ if e.name == 'load_tiles']
    stores = [e for e in evs_ if e.name == 'store_tiles']
    ok = len(loads) == 1 and isinstance(loads[0].args[0], VSeq)
    goal = z3.BoolVal(ok)
    if ok:
        row = loads[0].args[0]
        j = z3.Int('df_j')
        cj = ex.opaque_field_at(st, loads[0], row.elem(j), 'coord')
        want = VSeq([VInt(j), st.env['y'], VInt(0)], kind='tuple')
        goal = z3.And(goal, row.length() == 128,
                      z3.ForAll([j], z3.Implies(z3.And(0 <= j, j < 128), eq(cj, want))))
        # the row is loaded from the OLD bundle and (if anything was found) stored into the NEW one
        goal = z3.And(goal, z3.BoolVal(loads[0].recv is not None and all(s.recv is not None and not s.recv.t.eq(loads[0].recv.t) for s in stores)
                                       and loads[0].recv.t.eq(st.env['b'].t) and all(s.recv.t.eq(st.env['defb'].t) for s in stores)))
        for s in stores:
            arg = s.args[0]
            goal = z3.And(goal, z3.BoolVal(isinstance(arg, VSeq) and getattr(arg, 'keep', None) is not None and len(stores) == 1))
    # a row from which tiles were copied marks the new bundle as non-empty (it must then replace the old one)
    if stores:
        goal = z3.And(goal, ex.truth(st, st.env['stored_tiles']))
    # the tiles found in the row are stored exactly when there are any
    goal = z3.And(goal, ex.truth(st, st.env['tiles']) == z3.BoolVal(len(stores) == 1))
    yield ('row_copies_all_128_columns', goal,
           'each row: the 128 addresses (0..127, y) are bulk-loaded from the old bundle and those found are stored into the new one')


def _defrag_swap(ex, st, k):
    """one bundle: nothing is touched when it is skipped or in a dry run; otherwise the old files are removed and - if any tile
    was copied - the temporary bundle is renamed INTO the old name (source and destination in that order)"""
    import z3
    from pyvc.values import eq, VStr
    evs_ = st.trace[getattr(st, 'iter_start_trace', 0):]
    rm = [(i, e) for i, e in enumerate(evs_) if e.name == 'remove']
    rn = [(i, e) for i, e in enumerate(evs_) if e.name == 'rename']
    mk = [e for e in evs_ if e.name == 'bundle_class']
    bf = st.env['bundle_file']
    touched = bool(rm or rn or len(mk) > 1)
    skipped = z3.Or(ex.truth(st, st.env['skip']), ex.truth(st, st.env['dry_run'])) if 'skip' in st.env else z3.BoolVal(False)
    goal = z3.Implies(skipped, z3.BoolVal(not touched))
    if 'stored_tiles' in st.env and 'skip' in st.env:
        # tiles were copied into the new bundle => it is renamed into place (the old one is already removed at that point)
        goal = z3.And(goal, z3.Implies(z3.And(z3.Not(skipped), ex.truth(st, st.env['stored_tiles'])), z3.BoolVal(len(rn) >= 1)))
    for i, e in rn[:1]:
        ok = len(e.args) == 2 and isinstance(e.args[0], VStr) and isinstance(e.args[1], VStr) and 'tmp_bundle' in st.env
        goal = z3.And(goal, z3.BoolVal(bool(ok)), ex.truth(st, st.env['stored_tiles']) if 'stored_tiles' in st.env else z3.BoolVal(False))
        if ok:
            goal = z3.And(goal, e.args[0].t == z3.Concat(st.env['tmp_bundle'].t, z3.StringVal('.bundle')), eq(e.args[1], bf),
                          # the old bundle was removed (if it existed) before the new one takes its name
                          z3.BoolVal(all(j < i for j, r in rm)))
    sp = st.fork()
    sp.spec = True
    sp.env = {'b': bf}
    sibling = ex.ev1(sp, ex.reg.parse_spec("b[:-1] + 'x'"))
    # v1 caches: the index file of the new bundle follows, into the index name of the old one
    for i, e in rn[1:2]:
        ok = len(e.args) == 2 and isinstance(e.args[0], VStr) and 'tmp_bundle' in st.env
        goal = z3.And(goal, z3.BoolVal(bool(ok)))
        if ok:
            goal = z3.And(goal, e.args[0].t == z3.Concat(st.env['tmp_bundle'].t, z3.StringVal('.bundlx')), eq(e.args[1], sibling))
    exs = [e for i_, e in enumerate(evs_) if e.name == 'exists' and isinstance(e.args[0], VStr) and 'tmp_bundle' in st.env
           and rn and i_ > rn[0][0]]
    for e in exs[:1]:
        is_idx = e.args[0].t == z3.Concat(st.env['tmp_bundle'].t, z3.StringVal('.bundlx'))
        goal = z3.And(goal, z3.Implies(z3.And(is_idx, ex.truth(st, e.result)), z3.BoolVal(len(rn) >= 2)))
    goal = z3.And(goal, z3.BoolVal(len(rn) <= 2))
    mk_pos = [i_ for i_, e in enumerate(evs_) if e.name == 'bundle_class']
    for j, r in rm:
        # only the old bundle and its index file are ever removed - and, before the scratch bundle object is created, leftovers
        # of an interrupted run under the scratch name
        scratch = z3.BoolVal(False)
        if 'tmp_bundle' in st.env and isinstance(r.args[0], VStr) and len(mk_pos) >= 2 and j < mk_pos[1]:
            scratch = z3.Or([r.args[0].t == z3.Concat(st.env['tmp_bundle'].t, z3.StringVal(x)) for x in ('.bundle', '.bundlx', '.lck')])
        goal = z3.And(goal, z3.Or(eq(r.args[0], bf), eq(r.args[0], sibling), scratch))
    # the bundle that is read is THIS file; the new one is written next to the cache with the same offset
    bo = [e for e in evs_ if e.name == 'bundle_offset']
    rs = [e for e in evs_ if e.name == 'rstrip']
    def sm(a, b):
        return a is b or (hasattr(a, 't') and hasattr(b, 't') and a.t.eq(b.t))
    def base_of_bf(v):
        t = getattr(v, 't', None)
        return t is not None and z3.is_app(t) and t.decl().name().startswith('str_rstrip') and t.arg(0).eq(bf.t) \
            and z3.is_string_value(t.arg(1)) and t.arg(1).as_string() == '.bundle'
    okb = len(bo) == 1 and len(mk) >= 1 and len(bo[0].args) == 1 and sm(bo[0].args[0], bf) \
        and len(mk[0].args) == 2 and base_of_bf(mk[0].args[0]) and sm(mk[0].args[1], bo[0].result) \
        and sm(st.env.get('b'), mk[0].result)
    g_b = z3.BoolVal(bool(okb))
    if okb and len(mk) == 2:
        okn = len(mk[1].args) == 2 and sm(mk[1].args[0], st.env.get('tmp_bundle')) and sm(mk[1].args[1], bo[0].result) \
            and sm(st.env.get('defb'), mk[1].result)
        g_b = z3.And(g_b, z3.BoolVal(bool(okn)))
    if 'tmp_bundle' in st.env:
        from pyvc.builtins import os_path_join
        cd = ex.opaque_field(st, st.env['cache'], 'cache_dir')
        want = os_path_join(ex, st, [cd, VStr('tmp_defrag')], {}, None)[0][1]
        g_b = z3.And(g_b, st.env['tmp_bundle'].t == want.t)
    # C19: the copy starts from an EMPTY scratch bundle.  The bundle classes append to an existing file: whatever an interrupted
    # run left under <cache_dir>/tmp_defrag.* would be merged into the first bundle that is rewritten (S44)
    if len(mk_pos) >= 2 and 'tmp_bundle' in st.env:
        g_s = z3.BoolVal(True)
        for x in ('.bundle', '.bundlx', '.lck'):
            name = z3.Concat(st.env['tmp_bundle'].t, z3.StringVal(x))
            asked = [(i_, e) for i_, e in enumerate(evs_) if e.name == 'exists' and i_ < mk_pos[1] and isinstance(e.args[0], VStr)
                     and z3.is_true(z3.simplify(e.args[0].t == name))]
            gone = [(j, r) for j, r in rm if j < mk_pos[1] and isinstance(r.args[0], VStr) and z3.is_true(z3.simplify(r.args[0].t == name))]
            okx = len(asked) == 1 and len(gone) <= 1 and all(j > asked[0][0] for j, r in gone)
            g_s = z3.And(g_s, z3.BoolVal(bool(okx)))
            if okx:
                g_s = z3.And(g_s, ex.truth(st, asked[0][1].result) == z3.BoolVal(len(gone) == 1))
        yield ('scratch_bundle_is_empty_when_the_copy_starts', g_s,
               'before the scratch bundle object is created each of tmp_defrag.bundle / .bundlx / .lck is removed exactly if it '
               'exists: leftovers of an interrupted run are never merged into the bundle that is rewritten')
    yield ('old_and_new_bundle_identified', g_b,
           'the tiles are read from the bundle of THIS file (its base name, its offset) and written to a bundle object created '
           'for the temporary name with the same offset')
    yield ('defrag_swaps_new_bundle_into_place', goal,
           'skip / dry run: no file operation; otherwise os.remove(bundle_file) first and then, if tiles were copied, '
           "os.rename(tmp_bundle + '.bundle', bundle_file)")


def _defrag_scans_the_cache(ex, st, post, result):
    import z3
    from pyvc import tracelib as T
    from pyvc.values import VStr
    from pyvc.builtins import os_path_join
    gl = [e for i, e in T.evs(st, 'glob')]
    ok = len(gl) == 1 and len(gl[0].args) == 1
    g = z3.BoolVal(bool(ok))
    if ok:
        cd = ex.opaque_field_at(st, gl[0], post.env['cache'], 'cache_dir')
        want = os_path_join(ex, st, [cd, VStr('L??'), VStr('R????C????.bundle')], {}, None)[0][1]
        g = z3.And(g, gl[0].args[0].t == want.t)
    yield ('bundles_of_this_cache_only', g, "the bundles worked on are those matching <cache_dir>/L??/R????C????.bundle")


# ---- the property's own statement as a BOUNDED check on real caches: defragmentation changes no tile, files do not grow ---------------
_DEFRAG_BEFORE = {}


def _cache_view(cache):
    import glob, os
    from mapproxy.cache.tile import Tile
    view = {}
    for f in glob.glob(os.path.join(cache.cache_dir, 'L??', 'R????C????.bundle')):
        level = int(os.path.basename(os.path.dirname(f))[1:])
        r, c = int(os.path.basename(f)[1:5], 16), int(os.path.basename(f)[6:10], 16)
        # (the addresses the generator can have touched, and their neighbours)
        for y in (0, 1, 2, 62, 63, 64, 65, 122, 123, 124, 125, 126, 127):
            for x in (0, 1, 2, 126, 127):
                t = Tile((c + x, r + y, level))
                if cache.load_tile(t):
                    view[t.coord] = t.source.as_buffer().read()
    sizes = dict((f, os.path.getsize(f)) for f in glob.glob(os.path.join(cache.cache_dir, 'L??', '*')))
    return view, sizes


def _gen_defrag(gen, rng):
    rows = [0, 1, 63, 64, 123, 124, 125, 126, 127]
    pool = [(rng.choice([0, 1, 127]) + 128 * bx, rng.choice(rows) + 128 * by, z) for bx, by, z in
            [(0, 0, 8), (0, 0, 8), (0, 0, 8), (1, 0, 8), (0, 1, 9), (0, 0, 9)] for _ in range(2)]
    pool = sorted(set(pool))
    stored = rng.sample(pool, rng.randint(1, len(pool)))
    over = rng.sample(stored, rng.randint(0, len(stored)))
    removed = rng.sample(stored, rng.randint(0, max(0, len(stored) // 3)))
    return {'cache': {'$cls': '$compact_cache', 'version': rng.choice([1, 2]), 'stored': [list(c) for c in stored],
                      'overwritten': [list(c) for c in over], 'removed': [list(c) for c in removed], 'snapshot': True},
            'min_percent': 0.0, 'min_bytes': 0}


def _defrag_changes_no_tile(args, result):
    """after defrag_compact_cache (any threshold) every address of the cache returns the bytes it returned before, nothing appears or
    disappears, and no bundle file is larger than before"""
    cache = args['cache']
    before, sizes0 = cache._pyvc_before
    after, sizes1 = _cache_view(cache)
    return after == before and all(sizes1[f] <= sizes0.get(f, sizes1[f]) for f in sizes1)


contract('mapproxy.script.defrag:defrag_compact_cache', props=['C19'],
         types=dict(cache='opaque', min_percent='real', min_bytes='int', log_progress='opt[opaque]', dry_run='bool'),
         returns='none', default_callee='opaque',
         opaque_fields={'coord': 'opt[tuple[int,int,int]]', 'source': 'opt[opaque]', 'cache_dir': 'str'}, stable_fields=['coord', 'cache_dir'],
         opaque_spec={'glob': {'returns': 'list[str]', 'pure': True}, 'bundle_offset': {'pure': True}, 'bundle_class': {'pure': True},
                      'size': {'returns': 'tuple[int,int]', 'pure': True}, 'Tile': {'fields': {'coord': 'arg0'}, 'pure': True},
                      'load_tiles': {}, 'store_tiles': {}, 'exists': {'returns': 'bool', 'pure': True}, 'rstrip': {'pure': True}},
         raises={'ZeroDivisionError': True},
         loops={0: dict(inv=[], types={'stored_tiles': 'bool'}, body_trace=[_defrag_swap]),
                # (the loop over the three scratch names is a loop over a literal tuple: executed as written, no invariant needed)
                # the row loop is addressed by its variable, not by its position: the scratch-name loop in front of it came with S44
                # (nothing counts as copied before the first row was looked at)
                'var:y': dict(inv=['len(_seq) == 128', 'implies(_k == 0, not stored_tiles)'],
                        types={'stored_tiles': 'bool', 'tiles': 'opaque'}, body_trace=[_defrag_row])},
         trace=[_defrag_scans_the_cache],
         ensures=[_defrag_changes_no_tile], fuzz_gen=_gen_defrag, bounded=dict(n=40, seconds=15))


# ---- v1 bundle (.bundlx index + .bundle data): which slot is read / written for which address -------------------------------
cls(K + 'BundleV1', fields=dict(base_filename='str', lock_filename='str', offset='opaque', file_permissions='opaque',
                                directory_permissions='opaque'))
contract(K + 'BundleV1._rel_tile_coord', props=['C05'],
         types=dict(tile_coord='tuple[int,int,int]'), returns='tuple[int,int]',
         ensures=['result[0] == tile_coord[0] % 128 and result[1] == tile_coord[1] % 128',
                  '0 <= result[0] < 128 and 0 <= result[1] < 128'],
         must_fail='result[0] == tile_coord[0]')


def _iter_events(st):
    return st.trace[getattr(st, 'iter_start_trace', 0):]


def _slot_is(ex, st, e, coord):
    """the (x, y) arguments of the index call e are the slot of address coord"""
    import z3
    from pyvc.values import to_int
    return z3.And(to_int(e.args[0]) == to_int(coord.items[0]) % 128, to_int(e.args[1]) == to_int(coord.items[1]) % 128)


def _v1_store_iteration(ex, st, k):
    """per stored tile: read the slot's previous offset, append the record, THEN publish the new offset in the same slot"""
    import z3
    from pyvc.values import VSeq, to_int
    evs_ = _iter_events(st)
    pos = {n: [i for i, e in enumerate(evs_) if e.name == n] for n in ('tile_offset', 'append_tile', 'update_tile_offset', 'remove_tile_offset')}
    ok = len(pos['tile_offset']) == 1 and len(pos['append_tile']) == 1 and len(pos['update_tile_offset']) == 1 \
        and not pos['remove_tile_offset'] and pos['tile_offset'][0] < pos['append_tile'][0] < pos['update_tile_offset'][0]
    goal = z3.BoolVal(ok)
    if ok:
        to, ap, up = (evs_[pos[n][0]] for n in ('tile_offset', 'append_tile', 'update_tile_offset'))
        coord, data = st.env['tile_coord'], st.env['data']
        res = ap.result
        goal = z3.And(goal, _slot_is(ex, st, to, coord), _slot_is(ex, st, up, coord),
                      z3.BoolVal(ap.args[0] is data or (hasattr(ap.args[0], 't') and ap.args[0].t.eq(data.t))),
                      to_int(ap.kwargs['prev_offset']) == to_int(to.result) if 'prev_offset' in ap.kwargs else z3.BoolVal(False),
                      z3.BoolVal(isinstance(res, VSeq) and 'offset' in up.kwargs))
        if isinstance(res, VSeq) and 'offset' in up.kwargs:
            goal = z3.And(goal, to_int(up.kwargs['offset']) == to_int(res.items[0]))
    yield ('v1_store_slot_and_order', goal,
           'each tile: idx.tile_offset(slot) -> bundle.append_tile(data, prev_offset=that) -> idx.update_tile_offset(slot, '
           'offset=the offset append_tile returned); slot = (x % 128, y % 128) of the tile address; the index entry is '
           'published only after append_tile returned (its contract: record complete and flushed)')


def _v1_collect(ex, st, k):
    """first pass of the bulk store: every tile that is not yet stored contributes (its address, its bytes)"""
    import z3
    from pyvc.values import VSeq, eq
    evs_ = _iter_events(st)
    t = st.env['t']
    app = [e for e in evs_ if e.name == 'append']
    rd = [e for e in evs_ if e.name == 'read']
    stored = ex.truth(st, ex.opaque_field(st, t, 'stored'))
    goal = z3.And(stored == z3.BoolVal(len(app) == 0), z3.BoolVal(len(app) <= 1))
    if app:
        item = app[0].args[-1]
        ok = isinstance(item, VSeq) and item.concrete and len(item.items) == 2 and len(rd) == 1 and item.items[1] is rd[0].result
        goal = z3.And(goal, z3.BoolVal(bool(ok)))
        if ok:
            goal = z3.And(goal, eq(item.items[0], ex.opaque_field(st, t, 'coord')))
    yield ('v1_store_collects_unstored_tiles', goal,
           'a tile is written iff it is not marked stored; what is queued is (its own coord, the bytes read from its own buffer)')


def _v1_store_answer(ex, st, post, result):
    yield ('v1_store_reports_success', ex.truth(st, result), 'the bulk store reports success after writing every queued tile')


contract(K + 'BundleV1.store_tiles', props=['C05', 'C06', 'C19'],
         types=dict(tiles='list[opaque]', dimensions='opaque'), returns='bool', default_callee='opaque',
         inline=['_rel_tile_coord'],
         opaque_fields={'coord': 'tuple[int,int,int]', 'stored': 'bool'}, stable_fields=['coord', 'stored'],
         opaque_spec={'tile_offset': {'returns': 'int', 'pure': True}, 'append_tile': {'returns': 'tuple[int,int]'},
                      'update_tile_offset': {}, 'readwrite': {'pure': True}, 'index': {'pure': True}, 'data': {'pure': True},
                      'tile_buffer': {'pure': True}, 'read': {'returns': 'blob', 'pure': True}, 'FileLock': {'pure': True}},
         loops={0: dict(inv=[], types={'tiles_data': 'list[tuple[tuple[int,int,int],blob]]'}, body_trace=[_v1_collect]),
                1: dict(inv=[], types={}, body_trace=[_v1_store_iteration])},
         trace=[_v1_store_answer])


def _v1_load_iteration(ex, st, k):
    import z3
    from pyvc.values import to_int
    evs_ = _iter_events(st)
    offs = [e for e in evs_ if e.name == 'tile_offset']
    reads = [e for e in evs_ if e.name == 'read_tile']
    srcs = [e for e in evs_ if e.name == 'setattr:source']
    t = st.env['t']
    goal = z3.BoolVal(len(offs) <= 1 and len(reads) <= len(offs))
    if offs:
        coord = ex.opaque_field(st, t, 'coord')
        goal = z3.And(goal, _slot_is(ex, st, offs[0], coord.val if hasattr(coord, 'val') else coord))
    for r in reads:
        goal = z3.And(goal, to_int(r.args[0]) == to_int(offs[0].result))
    yield ('v1_load_reads_own_slot', goal,
           'each tile is read at the offset stored in ITS slot (x % 128, y % 128) of the index, nowhere else')
    # outcome of the iteration: bytes attached iff the slot is occupied and the record is non-empty, else "missing" is set
    missing_after = ex.truth(st, st.env['missing'])
    coord0 = ex.opaque_field_at(st, offs[0], t, 'coord') if offs else None
    if not offs:
        g2 = z3.BoolVal(not srcs)          # skipped: the tile already has its data or no address
    elif not reads:
        g2 = z3.And(to_int(offs[0].result) == 0, missing_after, z3.BoolVal(not srcs))
    elif not srcs:
        g2 = z3.And(to_int(offs[0].result) != 0, z3.Not(ex.truth(st, reads[0].result)), missing_after)
    else:
        g2 = z3.And(to_int(offs[0].result) != 0, ex.truth(st, reads[0].result), z3.BoolVal(len(srcs) == 1 and srcs[0].args[0] is t))
    yield ('v1_load_outcome_per_tile', g2,
           'empty slot or empty record => the tile stays without data and the result becomes "missing"; otherwise the record '
           'bytes are attached to THIS tile')


def _v1_load_answer(ex, st, post, result):
    import z3
    ro = [e for e in st.trace if e.name == 'readonly']
    if 'missing' not in st.env:
        return
    res = ex.truth(st, result)
    if 'idx' in st.env and len(ro) <= 1:
        yield ('v1_load_no_index_is_missing', z3.And(z3.Not(res), z3.Not(ex.truth(st, st.env['idx']))),
               'without an index file nothing is loaded and the answer is False')
        return
    yield ('v1_load_answer_is_not_missing', res == z3.Not(ex.truth(st, st.env['missing'])),
           'the bulk answer is True exactly when no tile was found missing')


contract(K + 'BundleV1.load_tiles', props=['C19', 'C05'],
         types=dict(tiles='list[opaque]', with_metadata='bool', dimensions='opaque'), returns='bool', default_callee='opaque',
         inline=['_rel_tile_coord'],
         opaque_fields={'coord': 'opt[tuple[int,int,int]]', 'source': 'opt[opaque]'}, stable_fields=['coord'],
         opaque_spec={'tile_offset': {'returns': 'int', 'pure': True}, 'read_tile': {'returns': 'opt[opaque]', 'pure': True},
                      'readonly': {'pure': True}, 'index': {'pure': True}, 'data': {'pure': True}},
         loops={0: dict(inv=['implies(_k == 0, not missing)', 'implies(old_missing(missing), missing)'] if False else
                        ['implies(_k == 0, not missing)'], types={'missing': 'bool'}, body_trace=[_v1_load_iteration],
                        no_early_exit='a removed or never stored slot marks the result "missing" but the remaining tiles are still loaded')},
         trace=[_v1_load_answer])


def _v1_remove(ex, st, post, result):
    import z3
    from pyvc import tracelib as T
    rem = T.evs(st, 'remove_tile_offset')
    other = T.evs(st, 'update_tile_offset', 'append_tile')
    tile = post.env['tile']
    coord = ex.opaque_field(st, tile, 'coord')
    isnone = coord.isnone if hasattr(coord, 'isnone') else z3.BoolVal(False)
    goal = z3.BoolVal(len(rem) <= 1 and not other)
    if rem:
        goal = z3.And(goal, _slot_is(ex, st, rem[0][1], coord.val if hasattr(coord, 'val') else coord),
                      z3.BoolVal(any(True for cm in T.held(rem[0][1]))))
    else:
        goal = z3.And(goal, isnone)
    yield ('v1_remove_clears_own_slot', goal,
           'remove clears exactly the slot (x % 128, y % 128) of the address, under the bundle lock, and writes nothing else')
    yield ('v1_remove_reports_success', ex.truth(st, result), 'remove always reports success (a missing tile is "removed")')


contract(K + 'BundleV1.remove_tile', props=['C05', 'C19'],
         types=dict(tile='opaque', dimensions='opaque'), returns='bool', default_callee='opaque', inline=['_rel_tile_coord'],
         opaque_fields={'coord': 'opt[tuple[int,int,int]]'}, stable_fields=['coord'],
         opaque_spec={'remove_tile_offset': {}, 'readwrite': {'pure': True}, 'index': {'pure': True}, 'FileLock': {'pure': True}},
         trace=[_v1_remove])


def _v1_is_cached(ex, st, post, result):
    import z3
    from pyvc.values import to_int
    from pyvc import tracelib as T
    offs = T.evs(st, 'tile_offset')
    sizes = T.evs(st, 'read_size')
    ro = T.evs(st, 'readonly')
    tile = post.env['tile']
    coord = ex.opaque_field(st, tile, 'coord')
    has = z3.Or(ex.truth(st, ex.opaque_field(st, tile, 'source')), coord.isnone)
    res = ex.truth(st, result)
    goal = z3.BoolVal(len(offs) <= 1 and len(sizes) <= len(offs))
    if offs:
        goal = z3.And(goal, _slot_is(ex, st, offs[0][1], coord.val if hasattr(coord, 'val') else coord))
    for i, r in sizes:
        goal = z3.And(goal, to_int(r.args[0]) == to_int(offs[0][1].result), res == (to_int(r.result) != 0))
    yield ('v1_is_cached_reads_own_slot', goal,
           'existence is decided from the slot of this address: offset from its index entry, size from the record at that offset')
    # the answer in every case
    if not ro:
        g2 = z3.And(has, res)                         # nothing looked up: only for a tile that carries its data / has no address
    elif not offs:
        g2 = z3.And(z3.Not(has), z3.Not(res), z3.Not(ex.truth(st, st.env['idx'])) if 'idx' in st.env else z3.BoolVal(False))   # no index file: missing
    elif not sizes:
        g2 = z3.And(z3.Not(has), z3.Not(res), to_int(offs[0][1].result) == 0)              # empty slot: missing
    else:
        g2 = z3.And(z3.Not(has), to_int(offs[0][1].result) != 0)
    yield ('v1_is_cached_answer', g2,
           'True without lookup only for a tile with data / without address; no index file or an empty slot (offset 0) => False; '
           'otherwise True iff the record size at that offset is non-zero')


contract(K + 'BundleV1.is_cached', props=['C05'],
         types=dict(tile='opaque', dimensions='opaque'), returns='bool', default_callee='opaque', inline=['_rel_tile_coord'],
         opaque_fields={'coord': 'opt[tuple[int,int,int]]', 'source': 'opt[opaque]'}, stable_fields=['coord'],
         opaque_spec={'tile_offset': {'returns': 'int', 'pure': True}, 'read_size': {'returns': 'int', 'pure': True},
                      'readonly': {'pure': True}, 'index': {'pure': True}, 'data': {'pure': True}},
         trace=[_v1_is_cached])


# ---- compact v1: index file (.bundlx, 5-byte little-endian offsets) and data file (.bundle, <size:4><bytes> records) ------
IDX1_END = 16 + 128 * 128 * 5
cls(K + 'BundleIndexV1', fields=dict(filename='str', _fh='file', directory_permissions='opaque', file_permissions='opaque',
                                     _initialized='bool'))
cls(K + 'BundleDataV1', fields=dict(filename='str', _fh='file', tile_offsets='opaque', directory_permissions='opaque',
                                    file_permissions='opaque'))
ghost('v1_entry', ['f', 'x', 'y'], "f_int(f, 16 + (x * 128 + y) * 5, 5)")

contract(K + 'BundleIndexV1._tile_index_offset', props=['C05', 'C19'],
         types=dict(x='int', y='int'), returns='int',
         ensures=['result == 16 + (x * 128 + y) * 5',
                  'implies(0 <= x < 128 and 0 <= y < 128, 16 <= result and result + 5 <= %d)' % IDX1_END],
         must_fail='result == 16')
lemma('v1_slots_disjoint', ['C05', 'C19'],
      doc='different (x, y) in the 128 x 128 block have different, non-overlapping 5-byte index cells',
      fn=lambda z3: (lambda x, y, u, v: ([0 <= x, x < 128, 0 <= y, y < 128, 0 <= u, u < 128, 0 <= v, v < 128, z3.Or(x != u, y != v)],
                                         z3.Or(16 + (x * 128 + y) * 5 + 5 <= 16 + (u * 128 + v) * 5,
                                               16 + (u * 128 + v) * 5 + 5 <= 16 + (x * 128 + y) * 5)))(
          z3.Int('x'), z3.Int('y'), z3.Int('u'), z3.Int('v')))

contract(K + 'BundleIndexV1.tile_offset', props=['C05', 'C19'],
         types=dict(x='int', y='int'), returns='int', inline=['_tile_index_offset'],
         requires=['0 <= x < 128 and 0 <= y < 128', 'f_len(self._fh) >= %d' % IDX1_END],
         modifies=['self._fh.pos'],
         ensures=['result == v1_entry(self._fh, x, y)', '0 <= result < 1099511627776'],
         must_fail='result == 0')

_V1_FRAME = ["""forall(lambda u, v: implies(0 <= u < 128 and 0 <= v < 128 and (u != x or v != y),
                      v1_entry(self._fh, u, v) == old(v1_entry(self._fh, u, v))))""",
             'f_len(self._fh) == old(f_len(self._fh))']
contract(K + 'BundleIndexV1.update_tile_offset', props=['C05', 'C19'],
         types=dict(x='int', y='int', offset='int', size='int'), returns='none', inline=['_tile_index_offset'],
         requires=['0 <= x < 128 and 0 <= y < 128', 'f_len(self._fh) >= %d' % IDX1_END, '0 <= offset < 1099511627776'],
         ensures=['v1_entry(self._fh, x, y) == offset'] + _V1_FRAME,
         must_fail='v1_entry(self._fh, x, y) == 0')
contract(K + 'BundleIndexV1.remove_tile_offset', props=['C05', 'C19'],
         types=dict(x='int', y='int'), returns='none', inline=['_tile_index_offset'],
         requires=['0 <= x < 128 and 0 <= y < 128', 'f_len(self._fh) >= %d' % IDX1_END],
         # the slot reads as "missing" (offset 0) afterwards - all five bytes - and no other slot changes
         ensures=['v1_entry(self._fh, x, y) == 0'] + _V1_FRAME,
         must_fail='v1_entry(self._fh, x, y) == 1')

contract(K + 'BundleDataV1.read_size', props=['C05', 'C19'],
         types=dict(offset='int'), returns='int',
         requires=['offset >= 0'], modifies=['self._fh.pos'],
         raises={'struct.error': 'offset + 4 > f_len(self._fh)'},
         ensures=['result == f_int(self._fh, offset, 4)'],
         must_fail='result == 0')
contract(K + 'BundleDataV1.read_tile', props=['C05', 'C19'],
         types=dict(offset='int'),
         requires=['offset >= 0', 'offset + 4 <= f_len(self._fh)',
                   'offset + 4 + f_int(self._fh, offset, 4) <= f_len(self._fh)'],
         modifies=['self._fh.pos'],
         ensures=['implies(f_int(self._fh, offset, 4) > 0, result == f_blob(self._fh, offset + 4, f_int(self._fh, offset, 4)))',
                  'implies(f_int(self._fh, offset, 4) == 0, result == False)'],
         must_fail='result == False')

_V1_RECORDS_KEPT = """forall(lambda o, n: implies(60 <= o and n >= 0 and o + n <= old(f_len(self._fh)),
        f_blob(self._fh, o, n) == old(f_blob(self._fh, o, n))
        and implies(o + 4 <= old(f_len(self._fh)), f_int(self._fh, o, 4) == old(f_int(self._fh, o, 4)))))"""
contract(K + 'BundleDataV1.append_tile', props=['C05', 'C19', 'C06'],
         types=dict(data='blob', prev_offset='int'), returns='tuple[int,int]',
         requires=['f_len(self._fh) >= 60', 'len(data) < 4294967296',
                   # the previous index entry of the slot: empty or pointing at a size field inside the file (C19 invariant)
                   'prev_offset == 0 or (prev_offset >= 0 and prev_offset + 4 <= f_len(self._fh))',
                   'f_int(self._fh, 16, 8) + 4 < 18446744073709551616',
                   'f_int(self._fh, 24, 8) + len(data) + 4 < 18446744073709551616'],
         raises={},
         ensures=[
             # the record <size><bytes> is appended at the old end of the file ...
             'result[0] == old(f_len(self._fh)) and result[1] == len(data)',
             'f_int(self._fh, result[0], 4) == len(data) and f_blob(self._fh, result[0] + 4, len(data)) == data',
             'f_len(self._fh) == old(f_len(self._fh)) + 4 + len(data)',
             # ... every existing record (everything above the 60-byte header) is untouched ...
             _V1_RECORDS_KEPT,
             # ... and C06: the record has left the process (write buffer flushed) BEFORE the caller publishes its
             # offset in the index file, which is a different file handle
             'f_durable(self._fh, result[0], 4 + len(data))',
         ],
         crash=[_V1_RECORDS_KEPT],
         must_fail='result[0] == 0')
