#!/usr/bin/env python
"""
C03 defect 3: the 1/10-pixel inset of TileGrid.get_affected_level_tiles is measured in
pixels of the LEVEL, not relative to the query rectangle.  When a client zooms in beyond
the finest level, the requested window is only a fraction of a level pixel wide; if up to
1/10 level pixel of it reaches into the neighbouring tile, this tile is treated as
"merely touched" and dropped, although it may be a large part of the window.

Property C03: "The set of tiles reported for a rectangle covers every part of it that lies
inside the grid".

Here: grid with finest resolution 1 m/px, tile edge at x = 256 m.  The window
x = 255.8 .. 256.056 (256 px wide, i.e. 1 mm/px) lies to 22 % in tile (1, 0, 2); only tile
(0, 0, 2) is reported.  Through WMS the right 56 columns of the map are empty (black for
image/png without transparency) although the blue tile is in the cache.

(Companion of defect 1: there the inset inverts the range, here it silently drops a tile.)

Run:  cd /tmp/wt/hunt/C03 && /venv/bin/python demo.py
"""
import io
import os
import shutil
import sys
import tempfile

from mapproxy.grid import tile_grid

failures = []

grid = tile_grid(srs='EPSG:3857', bbox=[0, 0, 2560, 2560], res=[10, 5, 1], origin='ll')
rect = (255.8, 100.0, 256.056, 100.256)
size = (256, 256)

_b, level = grid.get_affected_bbox_and_level(rect, size)
abbox, tgrid, tiles = grid.get_affected_level_tiles(rect, level)
tiles = list(tiles)
print('grid API: level %d, tiles %r, bbox of tiles %r' % (level, tiles, abbox))
inside = 100.0 * (rect[2] - 256.0) / (rect[2] - rect[0])
if (1, 0, 2) not in tiles or abbox[2] < rect[2]:
    print('   %.0f %% of the rectangle (x = 256 .. %s) lies in tile (1, 0, 2), which is not reported'
          % (inside, rect[2]))
    failures.append('get_affected_level_tiles: reported tiles cover x <= %s of a rectangle that reaches to x = %s'
                    % (abbox[2], rect[2]))

tmp = tempfile.mkdtemp(prefix='c03_d3_')
try:
    from PIL import Image
    cache_dir = os.path.join(tmp, 'cache')
    for x, col in ((0, (255, 0, 0)), (1, (0, 0, 255))):
        p = os.path.join(cache_dir, '2', str(x), '0.png')
        os.makedirs(os.path.dirname(p))
        Image.new('RGB', (256, 256), col).save(p)
    conf = os.path.join(tmp, 'mapproxy.yaml')
    with open(conf, 'w') as f:
        f.write('''
services:
  wms:
    srs: ['EPSG:3857']
    md: {title: t}
layers:
  - name: l
    title: l
    sources: [c]
caches:
  c:
    grids: [g]
    sources: []
    cache:
      type: file
      directory: %(dir)s
      directory_layout: tms
grids:
  g:
    srs: 'EPSG:3857'
    bbox: [0, 0, 2560, 2560]
    res: [10, 5, 1]
    origin: ll
''' % {'dir': cache_dir})
    from mapproxy.wsgiapp import make_wsgi_app
    from webtest import TestApp
    app = TestApp(make_wsgi_app(conf))
    resp = app.get('/service?SERVICE=WMS&VERSION=1.1.1&REQUEST=GetMap&LAYERS=l&STYLES=&SRS=EPSG:3857'
                   '&FORMAT=image/png&WIDTH=256&HEIGHT=256&BBOX=%s' % ','.join(map(str, rect)),
                   expect_errors=True)
    print('WMS GetMap BBOX=%s: %s %s' % (','.join(map(str, rect)), resp.status, resp.content_type))
    if resp.content_type != 'image/png':
        failures.append('WMS GetMap failed: %s' % ' '.join(resp.text.split())[-120:])
    else:
        img = Image.open(io.BytesIO(resp.body)).convert('RGB')
        row = [img.getpixel((x, 128)) for x in (10, 150, 199, 205, 230, 250)]
        print('   pixels of row 128 at x = 10, 150, 199, 205, 230, 250: %r' % (row,))
        # x >= 200 shows ground right of the tile edge, where the blue tile is cached
        empty = [x for x in range(201, 256) if sum(img.getpixel((x, 128))) == 0]
        if empty:
            failures.append('WMS GetMap: %d of the 56 columns right of the tile edge are empty '
                            'although tile (1, 0, 2) is cached' % len(empty))
        elif img.getpixel((250, 128))[2] < 60:
            failures.append('WMS GetMap: cached blue tile does not show up right of the tile edge')
finally:
    shutil.rmtree(tmp, ignore_errors=True)

if failures:
    print('PROPERTY C03 VIOLATED:')
    for f_ in failures:
        print('  - ' + f_)
    sys.exit(1)
print('ok: the tile that holds 22 % of the rectangle is reported and drawn')
sys.exit(0)
