"""Witness of defect S13 (C15): with a pool of size 1 and more than one item, ThreadPool.map/imap in raise mode
(use_result_objects=False) hands a failing item's sys.exc_info() tuple out as if it were that item's result instead of
re-raising the exception (a pool of size >= 2 re-raises).  exit 1 = reproduces, exit 0 = does not."""
import sys
from mapproxy.util.async_ import ThreadPool


def work(x):
    if x == 2:
        raise ValueError('item 2 failed')
    return x * 10


def run(size):
    try:
        return ('returned', ThreadPool(size).map(work, [1, 2, 3]))
    except ValueError as e:
        return ('raised', str(e))


r1, r2 = run(1), run(2)
print('pool size 1:', r1[0], [type(v).__name__ for v in r1[1]] if r1[0] == 'returned' else r1[1])
print('pool size 2:', r2[0], r2[1])
sys.exit(1 if r1[0] == 'returned' else 0)
