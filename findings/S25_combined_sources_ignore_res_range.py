"""
C17 / defect 1: two WMS sources of one layer that point to the same upstream URL are
merged into a single upstream request even when the configured min_res/max_res of one
of them excludes the requested resolution. The excluded source is contacted anyway.

Run:  cd /tmp/wt/hunt/C17 && /venv/bin/python demo.py
"""
import io
import os
import shutil
import sys
import tempfile
from urllib.parse import urlparse, parse_qs

sys.path.insert(0, os.getcwd())

import yaml  # noqa: E402
from PIL import Image  # noqa: E402
from webtest import TestApp  # noqa: E402

from mapproxy.client import http as http_mod  # noqa: E402
from mapproxy.wsgiapp import make_wsgi_app  # noqa: E402

URLS = []


class FakeResp(io.BytesIO):
    def __init__(self, data, ctype):
        io.BytesIO.__init__(self, data)
        self.headers = {'Content-type': ctype, 'content-type': ctype}
        self.code = 200


def fake_open(self, url, data=None, method=None):
    # stands in for the network: records the URL, answers with a picture
    URLS.append(url)
    q = {k.lower(): v[0] for k, v in parse_qs(urlparse(url).query).items()}
    img = Image.new('RGBA', (int(q.get('width', 256)), int(q.get('height', 256))), (200, 0, 0, 255))
    buf = io.BytesIO()
    img.save(buf, 'PNG')
    return FakeResp(buf.getvalue(), 'image/png')


http_mod.HTTPClient.open = fake_open

THRESHOLD = 100  # m/px
CONF = {
    'services': {'wms': {}},
    'layers': [{'name': 'map', 'title': 'map', 'sources': ['coarse', 'fine']}],
    'sources': {
        # only for resolutions of 100 m/px and coarser
        'coarse': {'type': 'wms', 'max_res': THRESHOLD,
                   'req': {'url': 'http://upstream.example/wms', 'layers': 'overview', 'transparent': True}},
        # only for resolutions finer than 100 m/px
        'fine': {'type': 'wms', 'min_res': THRESHOLD,
                 'req': {'url': 'http://upstream.example/wms', 'layers': 'detail', 'transparent': True}},
    },
}


def main():
    tmp = tempfile.mkdtemp(prefix='c17_1_')
    failures = []
    try:
        CONF['globals'] = {'cache': {'base_dir': os.path.join(tmp, 'cache')}}
        conf_file = os.path.join(tmp, 'mapproxy.yaml')
        with open(conf_file, 'w') as f:
            yaml.safe_dump(CONF, f)
        app = TestApp(make_wsgi_app(conf_file))

        # (resolution in m/px, upstream layer whose source is configured NOT to serve it)
        for res, excluded in ((1000.0, 'detail'), (10.0, 'overview')):
            del URLS[:]
            side = 256 * res
            resp = app.get(
                '/service?SERVICE=WMS&VERSION=1.1.1&REQUEST=GetMap&LAYERS=map&STYLES='
                '&SRS=EPSG:3857&BBOX=0,0,%r,%r&WIDTH=256&HEIGHT=256&FORMAT=image/png' % (side, side))
            assert resp.status_int == 200, resp.status
            asked = []
            for url in URLS:
                q = {k.lower(): v[0] for k, v in parse_qs(urlparse(url).query).items()}
                asked.extend(q['layers'].split(','))
            print('request at %6.1f m/px -> upstream LAYERS asked: %s' % (res, asked))
            if excluded in asked:
                failures.append(
                    "at %.1f m/px the source with upstream layer %r is outside its configured "
                    "resolution range but was contacted: %s" % (res, excluded, URLS))
    finally:
        shutil.rmtree(tmp, ignore_errors=True)

    if failures:
        print('PROPERTY C17 VIOLATED:')
        for f in failures:
            print(' -', f)
        return 1
    print('ok: sources outside their resolution range were not contacted')
    return 0


if __name__ == '__main__':
    sys.exit(main())
