"""Class declarations, ghost predicates and contracts for mapproxy.grid (shared by C01-C04, C08, C16 ...)."""
from pyvc.api import cls, ghost, contract, loop, lemma, exception

G = 'mapproxy.grid:'

cls(G + 'TileGrid', fields=dict(
    bbox='tuple[real,real,real,real]', tile_size='tuple[int,int]', levels='int',
    resolutions='gridlist[real]', grid_sizes='gridlist[tuple[int,int]]',
    flipped_y_axis='bool', origin='str', stretch_factor='real', max_shrink_factor='real',
    threshold_res='opt[list[real]]', srs='opaque', is_geodetic='bool', name='opt[str]'))

cls(G + 'MetaGrid', fields=dict(grid='obj:mapproxy.grid:TileGrid', meta_size='tuple[int,int]', meta_buffer='int'))

exception('GridError', 'Exception')
exception('NoTiles', 'GridError')

def _same_names(ex, st, a, b):
    """two grid lists carry the same level names at the same positions"""
    import z3
    from pyvc.values import VBool
    from pyvc.values import uid
    na, nb = st.heap[a.ref]['names'], st.heap[b.ref]['names']
    ia, ib = st.heap[a.ref]['$idx'], st.heap[b.ref]['$idx']
    i = z3.Int(uid('qn'))
    s = z3.String(uid('qs'))
    return VBool(z3.And(na.length() == nb.length(),
                        z3.ForAll([i], z3.Implies(z3.And(0 <= i, i < na.length()), na.elem(i).t == nb.elem(i).t)),
                        z3.ForAll([s], ia(s) == ib(s))))


ghost('same_names', ['a', 'b'], _same_names, concrete=lambda a, b: list(a._names) == list(b._names))

# representation invariant of TileGrid as far as the arithmetic needs it (established by __init__/_calc_grids)
ghost('grid_wf', ['g'], """
    g.levels == len(g.resolutions) and len(g.grid_sizes) == g.levels and g.levels >= 1
    and same_names(g.resolutions, g.grid_sizes)
    and g.bbox[0] < g.bbox[2] and g.bbox[1] < g.bbox[3]
    and g.tile_size[0] >= 1 and g.tile_size[1] >= 1
    and (g.flipped_y_axis == (g.origin == 'ul')) and (g.origin == 'ul' or g.origin == 'll')
    and forall(lambda l: implies(0 <= l < g.levels,
               g.resolutions[l] > 0 and g.grid_sizes[l][0] >= 1 and g.grid_sizes[l][1] >= 1))
""")
ghost('valid_level', ['g', 'z'], "0 <= z < g.levels")


def _level_ok(ex, st, g, z):
    """z names a level of grid g: an int in [0, levels) or one of the level names"""
    import z3
    from pyvc.values import VBool, VStr, VInt
    from pyvc.builtins import gridlist_name_index
    if isinstance(z, VStr):
        gs = st.heap[g.ref]['grid_sizes']
        return VBool(gridlist_name_index(st, gs, z.t)[1])
    lv = st.heap[g.ref]['levels']
    return VBool(z3.And(0 <= z.t, z.t < lv.t))


ghost('level_ok', ['g', 'z'], _level_ok,
      concrete=lambda g, z: (z in g.grid_sizes) if isinstance(z, str) else 0 <= z < g.levels)

from pyvc.api import cls as _cls
_cls('mapproxy.cache.file:FileCache', fields=dict(cache_dir='str', file_ext='str', image_opts='opaque',
                                                 link_single_color_images='opaque', directory_permissions='opaque',
                                                 file_permissions='opaque', lock_cache_id='str', coverage='opaque',
                                                 _tile_location='opaque', _level_location='opaque'))
