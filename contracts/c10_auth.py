"""C10 - authorization is enforced: denied layers stay dark, limited areas are clipped (decision logic and call-site
conditions; pixel clipping itself is outside)."""
from pyvc.api import contract, cls, ghost, lemma
from pyvc import tracelib as T
from . import shared_grid, c03_grid, c16_limits, c20_conditional  # noqa
S = 'mapproxy.service.tile:'


# ---- tile services: authorize_tile_layer -----------------------------------------------------------------------------
def _tile_auth_decision(ex, st, post, result):
    """normal return => no callback configured, or 'full', or ('partial' and the layer's tile permission is True);
    everything else raises 401/403"""
    import z3
    from pyvc.values import opaque_eq_str, opaque_is_true, VOpaque
    calls = [e for i, e in T.evs(st, "request.http.environ['mapproxy.authorize']", 'call') if True]
    cb = [e for e in st.trace if e.kwargs and 'query_extent' in e.kwargs and 'environ' in e.kwargs]
    if not cb:
        # no callback consulted: only allowed when the environ has no authorize entry
        ins = [e for i, e in T.evs(st, 'contains')]
        yield ('no_callback_means_not_configured', z3.And([z3.Not(e.result.t) for e in ins]) if ins else z3.BoolVal(False),
               "the layer is only served without asking when no 'mapproxy.authorize' callback is configured")
        return
    res = cb[-1].result
    # all reads result['authorized'] on this path (epochs differ; any of them may justify the decision)
    gets = [e for i, e in T.evs(st, 'get') if e.args and getattr(e.args[0], 'conc', lambda: None)() in ('tile', 'featureinfo')]
    auth_terms = ex.__dict__.get('_auth_reads', None)
    full = z3.BoolVal(False)
    partial = z3.BoolVal(False)
    for t in getattr(st, 'item_reads', []):
        pass
    # reconstruct the reads: item 'authorized' of the callback result, at every epoch seen on the path
    from pyvc.builtins import concrete_key
    import builtins as _b
    ck = ('s', 'authorized')
    for ep in range(0, st.epoch + 1):
        f = z3.Function('opaque_item_%s_%d' % (abs(hash(ck)), ep), res.t.sort(), res.t.sort())
        full = z3.Or(full, opaque_eq_str(f(res.t), z3.StringVal('full')))
        partial = z3.Or(partial, opaque_eq_str(f(res.t), z3.StringVal('partial')))
    tile_true = z3.Or([opaque_is_true(e.result.t) for e in gets if isinstance(e.result, VOpaque)]) if gets else z3.BoolVal(False)
    # the callback is told WHAT is requested: the ground extent of the requested tile (None only for capabilities)
    from pyvc.values import VSeq
    qe = cb[-1].kwargs.get('query_extent')
    tbs = [e for i, e in T.evs(st, 'tile_bbox')]
    req_ = post.env['request']
    has_tile = ex.truth(st, ex.opaque_field_at(st, cb[-1], req_, 'tile'))
    ext_ok = isinstance(qe, VSeq) and qe.concrete and len(qe.items) == 2 and bool(tbs) and qe.items[1] is tbs[0].result \
        and any(a is req_ for a in tbs[0].args)
    yield ('callback_sees_the_requested_extent', z3.Implies(has_tile, z3.BoolVal(bool(ext_ok))),
           'for a tile request the authorization callback gets query_extent = (srs code, tile_bbox(request)) of that very request')
    yield ('served_only_if_authorized', z3.Or(full, z3.And(partial, tile_true)),
           "normal return => authorized == 'full', or 'partial' with the layer's tile permission True")
    yield ('full_means_unlimited', z3.BoolVal(True), '')
    # the limit handed to the renderer honours BOTH limits of the decision: the layer's own and the request-wide one
    own, glob = _limit_reads(st, res)
    lim = [e for i, e in T.evs(st, 'load_limited_to')]
    g = z3.BoolVal(True)
    for o in own:
        # the layer has its own limit: the request-wide limit must still be consulted, and applied when present
        g = z3.And(g, z3.Implies(ex.truth(st, o.result),
                                 z3.And(z3.BoolVal(bool(glob)),
                                        z3.Implies(z3.Or([ex.truth(st, x.result) for x in glob] or [z3.BoolVal(False)]), z3.BoolVal(len(lim) >= 2)))))
    yield ('request_wide_limit_respected', g,
           "when the decision carries a limited_to for the layer, the request-wide result['limited_to'] is still consulted and, if "
           'present, applied as well (the tile is limited to the intersection, as the WMS does)')


def _limit_reads(st, res):
    """get('limited_to') events: (on the per-layer permissions, on the callback result itself)"""
    from pyvc.values import VStr
    gets = [e for i, e in T.evs(st, 'get') if e.args and isinstance(e.args[0], VStr) and e.args[0].conc() == 'limited_to']
    glob = [e for e in gets if e.recv is not None and e.recv.t.eq(res.t)]
    own = [e for e in gets if e not in glob]
    return own, glob


def _s27_class(ex, st):
    """S27: the layer's own limited_to is set (then the request-wide one is never looked at)"""
    import z3
    cb = [e for e in st.trace if e.kwargs and 'query_extent' in e.kwargs and 'environ' in e.kwargs]
    if not cb:
        return z3.BoolVal(False)
    own, glob = _limit_reads(st, cb[-1].result)
    return z3.Or([ex.truth(st, o.result) for o in own] or [z3.BoolVal(False)])


from pyvc.api import finding_class as _finding_class  # noqa
_finding_class('S27', _s27_class)

AUTH_SPEC = {'get': {'pure': True}, 'load_limited_to': {'pure': True}, 'tile_bbox': {'pure': True}}
for key in ('mapproxy.service.tile:TileServer.authorize_tile_layer', 'mapproxy.service.wmts:WMTSServer.authorize_tile_layer',
            'mapproxy.service.kml:KMLServer.authorize_tile_layer'):
    contract(key, props=['C10'], types=dict(tile_layer='opaque', request='opaque', featureinfo='bool') if 'wmts' in key else dict(tile_layer='opaque', request='opaque'), returns='opaque',
             default_callee='opaque', opaque_spec=AUTH_SPEC, raises={'RequestError': True},
             stable_fields=['http', 'environ', 'tile', 'name', 'grid'],
             trace=[_tile_auth_decision])


# ---- TileLayer.render / get_info: outside the limit -> empty, crossing it -> masked with that coverage -------------------
def _render_limits(ex, st, post, result):
    import z3
    from pyvc.values import eq
    cov = post.env['coverage']
    loads = T.evs(st, 'load_tile_coord')
    conts = [e for i, e in T.evs(st, 'contains') if e.recv is not None and e.recv.t.eq(cov.val.t) and len(e.args) == 2]
    inters = [e for i, e in T.evs(st, 'intersects') if e.recv is not None and e.recv.t.eq(cov.val.t) and len(e.args) == 2]
    masks = T.evs(st, 'mask_image_source_from_coverage')
    bboxes = [e for i, e in T.evs(st, 'tile_bbox')]
    has_cov = ex.truth(st, cov)
    # the rectangle tested against the limit is the tile's FULL ground rectangle (grid.tile_bbox(tile_coord), no limit=)
    ok_bbox = all(len(b.args) == 1 and not b.kwargs for b in bboxes)
    goal = z3.BoolVal(ok_bbox)
    if loads:
        # the cache / upstream is only touched if there is no limit, or the limit contains or intersects the tile
        inside = z3.Or([ex.truth(st, e.result) for e in conts + inters]) if (conts or inters) else z3.BoolVal(False)
        goal = z3.And(goal, z3.Or(z3.Not(has_cov), inside))
        for e in conts + inters:
            goal = z3.And(goal, z3.BoolVal(bool(bboxes) and e.args[0] is bboxes[0].result))
    yield ('outside_limit_not_rendered', goal,
           'coverage given and neither contains nor intersects the full tile rectangle => empty response, no tile-manager access')
    # crossing the border: a response built from a tile exists only after masking with THIS coverage and THIS bbox
    resp = T.evs(st, 'TileResponse')
    g2 = z3.BoolVal(True)
    if resp:
        crossing = z3.And(has_cov, z3.And([z3.Not(ex.truth(st, e.result)) for e in conts]) if conts else z3.BoolVal(True))
        masked_ok = z3.BoolVal(False)
        for i, m in masks:
            if len(m.args) >= 4 and bboxes and m.args[1] is bboxes[0].result:
                masked_ok = z3.Or(masked_ok, eq(m.args[3], cov.val))
        g2 = z3.Implies(crossing, masked_ok)
    yield ('crossing_limit_is_masked', g2,
           'coverage intersects but does not contain the tile => the image goes through mask_image_source_from_coverage '
           'with the tile rectangle and that coverage')


from .c16_limits import RENDER_SPEC, REQ_FIELDS  # noqa
for _fn, _arg in (('render', 'tile_request'), ('get_info', 'info_request')):
    contract(S + 'TileLayer.' + _fn, props=['C16', 'C10', 'C09'], merge=True,
             trace_extra=[_render_limits])


# ======================================================================================================================
# WMS: authorization decision, filtering of the layer list, global / per-layer limits reach the merger and feature info
# ======================================================================================================================
WMS = 'mapproxy.service.wms:'
from .c16_limits import WMS_SERVER_FIELDS  # noqa  (one declaration for all modules)
cls(WMS + 'WMSServer', fields=dict(WMS_SERVER_FIELDS))


def _item_is(res_t, key, val, epochs):
    """result[key] == val, at any of the epochs the path has seen (see _tile_auth_decision)"""
    import z3
    from pyvc.values import opaque_eq_str
    ck = ('s', key)
    out = z3.BoolVal(False)
    for ep in range(0, epochs + 1):
        f = z3.Function('opaque_item_%s_%d' % (abs(hash(ck)), ep), res_t.sort(), res_t.sort())
        out = z3.Or(out, opaque_eq_str(f(res_t), z3.StringVal(val)))
    return out


def _wms_auth_decision(ex, st, post, result):
    """PERMIT_ALL_LAYERS is handed out only when no callback is configured or it said 'full'; otherwise the result is the
    dictionary built from the callback's per-layer permissions"""
    import z3
    from pyvc.values import VSeq, VOpaque
    cb = [e for e in st.trace if e.kwargs and 'query_extent' in e.kwargs and 'environ' in e.kwargs]
    permit_all = [e for e in st.trace if False]
    res0 = result.items[0] if isinstance(result, VSeq) else None
    is_permit_all = 'PERMIT_ALL_LAYERS' in repr(res0)      # VFunc(class mapproxy.service.wms:PERMIT_ALL_LAYERS)
    if not cb:
        ins = [e for i, e in T.evs(st, 'contains')]
        yield ('wms_no_callback_means_not_configured',
               z3.And([z3.Not(e.result.t) for e in ins]) if ins else z3.BoolVal(False),
               "layers are only served without asking when no 'mapproxy.authorize' callback is configured")
        return
    full = _item_is(cb[-1].result.t, 'authorized', 'full', st.epoch)
    yield ('wms_permit_all_only_if_full', z3.Or(z3.BoolVal(not is_permit_all), full),
           "the permit-all marker is returned only if the callback answered authorized == 'full'")
    # the callback is asked for the requested feature ('wms.map' / 'wms.featureinfo'), with the query extent
    yield ('wms_callback_gets_query_extent', z3.BoolVal(cb[-1].kwargs['query_extent'] is post.env['query_extent']),
           'the callback sees the query extent of this request')
    # --- added after the mutation audit
    from pyvc.values import VStr, VNone
    a0 = cb[-1].args[0] if cb[-1].args else None
    yield ('wms_callback_asked_for_the_feature',
           z3.And(z3.BoolVal(isinstance(a0, VStr) and len(cb[-1].args) == 2 and cb[-1].kwargs['environ'] is post.env['env']),
                  a0.t == z3.Concat(z3.StringVal('wms.'), post.env['feature'].t)) if isinstance(a0, VStr) else z3.BoolVal(False),
           "the callback is asked about 'wms.<feature>' with (a copy of) the layer list and the request environment")
    from pyvc.values import opaque_eq_str as _oes
    ep_ = getattr(cb[-1], 'pre_epoch', 0) + 1       # the epoch right after the callback returned: when the answer is read
    f_ = z3.Function('opaque_item_%s_%d' % (abs(hash(('s', 'authorized'))), ep_), cb[-1].result.t.sort(), cb[-1].result.t.sort())
    yield ('wms_unauthenticated_never_served', z3.Not(_oes(f_(cb[-1].result.t), z3.StringVal('unauthenticated'))),
           "a normal return never follows authorized == 'unauthenticated' (that answer raises RequestError 401)")
    lim = [e for i, e in T.evs(st, 'load_limited_to')]
    res1 = result.items[1] if isinstance(result, VSeq) else None
    if not is_permit_all:
        gets = [e for i, e in T.evs(st, 'get') if e.args and isinstance(e.args[0], VStr) and e.args[0].conc() == 'limited_to'
                and e.recv is not None and e.recv.t.eq(cb[-1].result.t)]
        ok = len(gets) == 1 and len(lim) <= 1
        g = z3.BoolVal(bool(ok))
        if ok:
            has = ex.truth(st, gets[0].result)
            if lim:
                g = z3.And(g, has, z3.BoolVal(lim[0].args[0] is gets[0].result and
                                              (res1 is lim[0].result or getattr(res1, 'val', None) is lim[0].result)))
            else:
                g = z3.And(g, z3.Not(has), z3.BoolVal(isinstance(res1, VNone)) if not hasattr(res1, 'isnone') else res1.isnone)
        yield ('wms_request_wide_limit_is_the_callbacks', g,
               "the request-wide limit returned is load_limited_to(result.get('limited_to')) exactly when the callback gave one")


def _wms_auth_layer_entry(ex, st, k):
    """a layer name enters the authorized dictionary only if its permission for the requested feature is True"""
    import z3
    from pyvc.values import opaque_is_true, VOpaque
    evs_ = st.trace[getattr(st, 'iter_start_trace', 0):]
    sets = [e for e in evs_ if e.name in ('setitem', '__setitem__')]
    gets = [e for e in evs_ if e.name == 'get' and e.args and e.args[0] is st.env['feature']]
    goal = z3.BoolVal(True)
    if sets:
        goal = z3.BoolVal(bool(gets))
        for g_ in gets[:1]:
            goal = z3.And(goal, opaque_is_true(g_.result.t) if isinstance(g_.result, VOpaque) else z3.BoolVal(False))
            # a layer without an entry for the feature is NOT permitted: the default of the lookup is False
            dflt = g_.args[1] if len(g_.args) == 2 else None
            goal = z3.And(goal, z3.Not(ex.truth(st, dflt)) if dflt is not None else z3.BoolVal(False))
    yield ('wms_layer_listed_only_if_permitted', goal,
           "layers[name] is set only after permissions.get(feature, False) is True was read for that layer")
    cb = [e for e in st.trace if e.kwargs and 'query_extent' in e.kwargs and 'environ' in e.kwargs]
    if sets:
        yield ('wms_layers_granted_only_if_partial',
               _item_is(cb[-1].result.t, 'authorized', 'partial', st.epoch) if cb else z3.BoolVal(False),
               "per-layer permissions are honoured only when the callback answered authorized == 'partial'")
        lget = [e for e in evs_ if e.name == 'get' and e.args and hasattr(e.args[0], 'conc') and isinstance(e.args[0].conc(), str)
                and e.args[0].conc() == 'limited_to']
        yield ('wms_layer_limit_is_its_own', z3.BoolVal(len(sets) == 1 and len(lget) == 1 and sets[0].args[-1] is lget[0].result
                                                        and bool(gets) and lget[0].recv is not None and lget[0].recv.t.eq(gets[0].recv.t)),
               "the limit stored for a layer is the limited_to of that layer's own permissions")


contract(WMS + 'WMSServer.authorized_layers', props=['C10'],
         types=dict(feature='str', layers='opaque', env='opaque', query_extent='opaque'), returns='tuple[opaque,opt[opaque]]',
         default_callee='opaque', raises={'RequestError': True},
         opaque_spec={'get': {'pure': True}, 'load_limited_to': {'pure': True},
                      'items': {'returns': 'list[tuple[opaque,opaque]]', 'pure': True}},
         loops={0: dict(inv=[], types={'layers': 'opaque'}, body_trace=[_wms_auth_layer_entry])},
         trace=[_wms_auth_decision])


def _wms_filter_iteration(ex, st, k):
    """one layer of the list to render: kept only if the authorized dictionary contains its name; a per-layer limit wraps
    every sub-layer in LimitedLayer with the coverage loaded from THAT layer's limited_to"""
    import z3
    from pyvc.values import VOpaque, ObjSort
    evs_ = st.trace[getattr(st, 'iter_start_trace', 0):]
    name = st.env['layer_name']
    auth = st.env['authorized_layers']
    actual = st.env['actual_layers']

    def same(a, b):
        return hasattr(a, 't') and hasattr(b, 't') and a.t.eq(b.t)
    conts = [e for e in evs_ if e.name == 'contains' and same(e.args[0], auth) and same(e.args[1], name)]
    dels = [e for e in evs_ if e.name == 'delitem' and same(e.args[0], actual) and same(e.args[1], name)]
    sets = [e for e in evs_ if e.name == 'setitem' and same(e.args[0], actual)]
    lims = [e for e in evs_ if e.name == 'load_limited_to']
    wraps = [e for e in evs_ if e.name == 'LimitedLayer' or (e.name == '__init__' and 'LimitedLayer' in str(e.key or e.full))]
    goal = z3.BoolVal(len(conts) == 1)
    if conts:
        goal = z3.And(goal, z3.Or(ex.truth(st, conts[0].result), z3.BoolVal(bool(dels))))
    yield ('wms_unauthorized_layer_dropped', goal,
           'a layer whose name is not in the authorized dictionary is removed from the layers to render (or the request fails)')
    # the limit of THIS layer: authorized_layers[layer_name], at any epoch of the iteration
    own = [z3.Function('opaque_item2_%d' % ep, ObjSort, ObjSort, ObjSort)(auth.t, name.t) for ep in range(0, st.epoch + 1)]
    ok = not sets and not wraps and not lims
    g2 = z3.BoolVal(ok)
    if sets or wraps or lims:
        structural = len(lims) == 1 and len(sets) == 1 and bool(wraps) and same(sets[0].args[1], name) and \
            all(len(w.args) == 2 and w.args[1] is lims[0].result for w in wraps) and isinstance(lims[0].args[0], VOpaque)
        g2 = z3.BoolVal(bool(structural))
        if structural:
            g2 = z3.And(g2, z3.Or([lims[0].args[0].t == o for o in own]))
    yield ('wms_layer_limit_wraps_layers', g2,
           "a layer is replaced only by LimitedLayer(sub-layer, load_limited_to(authorized_layers[its own name])) objects")
    # a limited layer is never left unwrapped: if authorized_layers[name] is not None the replacement happens
    from pyvc.values import opaque_is_none
    limited = z3.Or([z3.Not(opaque_is_none(o)) for o in own])
    kept = z3.And(ex.truth(st, conts[0].result), z3.BoolVal(not dels)) if conts else z3.BoolVal(False)
    yield ('wms_limited_layer_always_wrapped', z3.Implies(z3.And(kept, z3.And([z3.Not(opaque_is_none(o)) for o in own])), z3.BoolVal(bool(sets))),
           'an authorized layer with a limited_to entry never reaches the renderer unwrapped')


def _filter_runs_unless_permit_all(ex, st, post, result):
    """the per-layer filtering is skipped only for the permit-all marker"""
    import z3
    import re
    from pyvc.values import ObjSort, VFunc
    auth = post.env['authorized_layers']
    marker = ex.global_name(st, st.module, 'PERMIT_ALL_LAYERS')
    nm = re.sub(r'[^A-Za-z0-9_]', '_', repr(marker))
    is_all = z3.Function('opaque_is_' + nm, ObjSort, z3.BoolSort())(auth.t)
    walked = bool(T.evs(st, 'keys'))
    yield ('filter_skipped_only_for_permit_all', is_all == z3.BoolVal(not walked),
           'actual_layers is walked and filtered for every authorization result except the permit-all marker')


contract(WMS + 'WMSServer.filter_actual_layers', props=['C10'],
         types=dict(actual_layers='opaque', requested_layers='opaque', authorized_layers='opaque'), returns='none',
         default_callee='opaque', raises={'RequestError': True},
         opaque_spec={'load_limited_to': {'pure': True}, 'LimitedLayer': {'pure': True}, 'set': {'pure': True}, 'keys': {'pure': True}},
         loops={0: dict(inv=[], types={}, body_trace=[_wms_filter_iteration]), 1: dict(inv=[], types={})},
         trace=[_filter_runs_unless_permit_all])


# ---- LimitedLayer.get_info: outside the layer's limit no feature info (and no upstream request) ---------------------------
L = 'mapproxy.layer:'
cls(L + 'LimitedLayer', fields=dict(_layer='opaque', coverage='opt[opaque]'))


def _limited_info(ex, st, post, result):
    import z3
    from pyvc.values import eq
    self_ = post.env['self']
    q = post.env['query']
    cov = st.heap[self_.ref]['coverage']
    inner = [e for i, e in T.evs(st, 'get_info')]
    conts = [e for i, e in T.evs(st, 'contains') if e.recv is not None and e.recv.t.eq(cov.val.t)]
    goal = z3.BoolVal(True)
    if inner:
        inside = z3.BoolVal(False)
        for c in conts:
            ok_args = len(c.args) == 2
            if ok_args:
                inside = z3.Or(inside, z3.And(ex.truth(st, c.result), eq(c.args[0], ex.opaque_field_at(st, c, q, 'coord')),
                                              eq(c.args[1], ex.opaque_field_at(st, c, q, 'srs'))))
        goal = z3.Or(z3.Not(ex.truth(st, cov)), inside)
    yield ('limited_layer_info_only_inside', goal,
           'the wrapped layer is asked for feature info only if there is no limit or the limit contains (query.coord, query.srs)')


contract(L + 'LimitedLayer.get_info', props=['C10'],
         types=dict(query='opaque'), returns='opaque', default_callee='opaque',
         opaque_fields={'coord': 'opaque', 'srs': 'opaque'}, stable_fields=['coord', 'srs'],
         opaque_spec={'contains': {'returns': 'bool', 'pure': True}},
         trace=[_limited_info])


# ---- WMSServer.featureinfo: decision order and the request-wide limit ----------------------------------------------------
def _named(st, *names):
    return [(i, e) for i, e in enumerate(st.trace) if e.name in names]


def _fi_layer_query(ex, st, k):
    """a layer is asked for feature info only after the authorization decision was applied to the layer list, and never
    when the request-wide limit does not contain the query point"""
    import z3
    from pyvc.values import eq, VSeq
    n0 = getattr(st, 'iter_start_trace', 0)
    gets = [(i, e) for i, e in enumerate(st.trace) if i >= n0 and e.name == 'get_info']
    auth = _named(st, 'WMSServer.authorized_layers')
    filt = _named(st, 'WMSServer.filter_actual_layers')
    goal = z3.BoolVal(True)
    if gets:
        ok = len(auth) == 1 and len(filt) == 1 and auth[0][0] < filt[0][0] < gets[0][0] and \
            isinstance(auth[0][1].result, VSeq) and len(filt[0][1].args) == 4 and \
            filt[0][1].args[-1] is auth[0][1].result.items[0] and filt[0][1].args[1] is st.env['actual_layers']
        if ok:
            from pyvc.values import VStr as _VStr
            a_ = [x for x in auth[0][1].args if x is not st.env['self']]
            chk_ = _named(st, 'check_featureinfo_request', 'WMSServer.check_featureinfo_request')
            ok = bool(a_) and isinstance(a_[0], _VStr) and a_[0].conc() == 'featureinfo' and len(chk_) == 1 and chk_[0][0] < auth[0][0]
        goal = z3.BoolVal(bool(ok))
        if ok:
            cov = auth[0][1].result.items[1]
            q = st.env['query']
            inside = z3.BoolVal(False)
            for i, c in _named(st, 'contains'):
                if c.recv is not None and c.recv.t.eq(cov.val.t) and len(c.args) == 2 and i < gets[0][0]:
                    inside = z3.Or(inside, z3.And(ex.truth(st, c.result), eq(c.args[0], ex.opaque_field_at(st, c, q, 'coord')),
                                                  eq(c.args[1], ex.opaque_field_at(st, c, q, 'srs'))))
            goal = z3.And(goal, z3.Or(z3.Not(ex.truth(st, cov)), inside))
    if gets and 'p' in st.env:
        # the query handed to the layers is built from the request's own bbox, size and clicked pixel, in that order
        iq = _named(st, 'InfoQuery')
        p_ = st.env['p']
        okq = len(iq) == 1 and len(iq[0][1].args) >= 4 and gets[0][1].args[-1] is iq[0][1].result
        goal = z3.And(goal, z3.BoolVal(bool(okq)))
        if okq:
            e_ = iq[0][1]
            goal = z3.And(goal, eq(e_.args[0], ex.opaque_field_at(st, e_, p_, 'bbox')), eq(e_.args[1], ex.opaque_field_at(st, e_, p_, 'size')),
                          eq(e_.args[3], ex.opaque_field_at(st, e_, p_, 'pos')))
    yield ('featureinfo_after_authorization_inside_limit', goal,
           'get_info is reached only after authorized_layers -> filter_actual_layers(actual_layers, .., that decision), and '
           'only if there is no request-wide limit or it contains (query.coord, query.srs)')


contract(WMS + 'WMSServer.featureinfo', props=['C10'],
         types=dict(request='opaque'), returns='opaque', default_callee='opaque', raises={'RequestError': True},
         opaque_fields={'coord': 'opaque', 'srs': 'opaque', 'bbox': 'opaque', 'size': 'opaque', 'pos': 'opaque'},
         stable_fields=['coord', 'srs', 'bbox', 'size', 'pos'],
         opaque_spec={'contains': {'returns': 'bool', 'pure': True}, 'InfoQuery': {'pure': True}, 'SRS': {'pure': True},
                      'odict': {'pure': True}, 'keys': {'pure': True}, 'values': {'pure': True}, 'get': {'pure': True},
                      'info_layers_for_query': {'returns': 'list[tuple[opaque,opaque]]', 'pure': True},
                      'check_featureinfo_request': {'raises': ['RequestError']},
                      'combine_docs': {'returns': 'tuple[opaque,opaque]', 'pure': True}},
         opaque=['check_featureinfo_request'],
         loops={0: dict(inv=[], types={'actual_layers': 'opaque'}), 1: dict(inv=[], types={'actual_layers': 'opaque'}),
                2: dict(inv=[], types={'info_layers': 'opaque'}),
                3: dict(inv=[], types={'infos': 'opaque'}, body_trace=[_fi_layer_query])})


# ---- WMSServer.map: the decision reaches the renderer, the request-wide limit reaches the merger with the rendered extent --
def _map_protocol(ex, st, post, result):
    import z3
    from pyvc.values import eq, VSeq
    auth = _named(st, 'WMSServer.authorized_layers')
    filt = _named(st, 'WMSServer.filter_actual_layers')
    rend = _named(st, 'LayerRenderer')
    merges = _named(st, 'merge')
    if not merges:
        return      # blank image outside the SRS extent: nothing is rendered at all
    ok = len(auth) == 1 and len(filt) == 1 and len(rend) == 1 and len(merges) == 1 and \
        auth[0][0] < filt[0][0] < rend[0][0] < merges[0][0] and isinstance(auth[0][1].result, VSeq) and \
        len(filt[0][1].args) == 4 and filt[0][1].args[-1] is auth[0][1].result.items[0]
    # request limits are checked first (C16); the layers are rendered INTO the merger whose result is returned
    chk = _named(st, 'check_map_request', 'WMSServer.check_map_request')
    rr = _named(st, 'render')
    mk = _named(st, 'LayerMerger')
    ok = ok and len(chk) == 1 and chk[0][0] < auth[0][0] and len(mk) == 1 and len(rr) == 1 and \
        rend[0][0] < rr[0][0] < merges[0][0] and rr[0][1].recv is not None and rr[0][1].recv.t.eq(rend[0][1].result.t) and \
        rr[0][1].args[-1] is mk[0][1].result and merges[0][1].recv is not None and merges[0][1].recv.t.eq(mk[0][1].result.t)
    if ok:
        # the callback is asked about the feature 'map'
        from pyvc.values import VStr as _VStr
        a_ = [x for x in auth[0][1].args if x is not post.env['self']]
        ok = bool(a_) and isinstance(a_[0], _VStr) and a_[0].conc() == 'map'
    mq = _named(st, 'MapQuery')
    if ok and mq and 'params' in st.env:
        from pyvc.values import eq as _eq
        p_ = st.env['params']
        g_q = z3.And(_eq(mq[0][1].args[0], ex.opaque_field_at(st, mq[0][1], p_, 'bbox')),
                     _eq(mq[0][1].args[1], ex.opaque_field_at(st, mq[0][1], p_, 'size')))
    else:
        g_q = z3.BoolVal(bool(ok))
    # the SRS-extent reduction: the rendered query is the part of the request inside the extent, and the result is put back
    # at the offset of that part in an image of the ORIGINAL size
    bp = _named(st, 'bbox_position_in_image')
    sub = _named(st, 'SubImageSource')
    g_sub = z3.BoolVal(len(bp) <= 1 and len(sub) <= len(bp))
    if bp and ok and len(mq) == 2 and 'params' in st.env:
        from pyvc.values import eq as _eq2, VSeq as _VSeq
        p_ = st.env['params']
        b = bp[0][1]
        okb = len(b.args) == 3 and isinstance(b.result, _VSeq) and mq[1][1].args[0] is b.result.items[2] and mq[1][1].args[1] is b.result.items[0] \
            and rend[0][1].args[1] is mq[1][1].result
        g_sub = z3.And(g_sub, z3.BoolVal(bool(okb)))
        if okb:
            g_sub = z3.And(g_sub, _eq2(b.args[0], ex.opaque_field_at(st, b, p_, 'bbox')), _eq2(b.args[1], ex.opaque_field_at(st, b, p_, 'size')))
            for i_, s_ in sub:
                g_sub = z3.And(g_sub, z3.BoolVal(s_.args[0] is merges[0][1].result and s_.kwargs.get('offset') is b.result.items[1]),
                               _eq2(s_.kwargs.get('size'), ex.opaque_field_at(st, s_, mq[0][1].result, 'size'))
                               if s_.kwargs.get('size') is not None else z3.BoolVal(False))
    elif bp:
        g_sub = z3.BoolVal(False)
    yield ('map_extent_reduction_is_consistent', g_sub,
           'bbox_position_in_image(params.bbox, params.size, limited extent) -> MapQuery(sub_bbox, sub_size, ..) is what is rendered; '
           'the merged image is wrapped in SubImageSource(.., size=original size, offset=that offset)')
    yield ('map_authorization_before_rendering', z3.And(z3.BoolVal(bool(ok)), g_q),
           'check_map_request -> MapQuery(params.bbox, params.size, ..) -> authorized_layers -> filter_actual_layers(.., that '
           'decision) -> LayerRenderer -> renderer.render(merger) -> merger.merge, each exactly once')
    if not ok:
        return
    m = merges[0][1]
    q = rend[0][1].args[1]          # the query that is rendered
    cov = auth[0][1].result.items[1]
    g = z3.BoolVal('coverage' in m.kwargs and 'bbox' in m.kwargs and 'size' in m.kwargs)
    if 'coverage' in m.kwargs and 'bbox' in m.kwargs and 'size' in m.kwargs:
        g = z3.And(eq(m.kwargs['coverage'], cov),
                   eq(m.kwargs['bbox'], ex.opaque_field_at(st, m, q, 'bbox')), eq(m.kwargs['size'], ex.opaque_field_at(st, m, q, 'size')))
    yield ('map_global_limit_with_rendered_extent', g,
           'merge(.., coverage=the request-wide limit of the decision, bbox/size = those of the query that was rendered): the '
           'limit mask is computed for the extent of the image it is applied to')
    # the callback was asked about the rendered extent
    qe = auth[0][1].kwargs.get('query_extent') if auth[0][1].kwargs else None
    g3 = z3.BoolVal(False)
    if isinstance(qe, VSeq) and qe.concrete and len(qe.items) == 2:
        g3 = eq(qe.items[1], ex.opaque_field_at(st, auth[0][1], q, 'bbox'))
    yield ('map_decision_for_rendered_extent', g3, 'the authorization callback sees the bbox of the query that is rendered')


contract(WMS + 'WMSServer.map', props=['C10'],
         types=dict(map_request='opaque'), returns='opaque', default_callee='opaque', raises={'RequestError': True, 'IOError': True},
         opaque_fields={'bbox': 'opaque', 'size': 'opaque', 'srs': 'opaque'}, stable_fields=['bbox', 'size', 'srs'],
         opaque_spec={'MapQuery': {'pure': True, 'fields': {'bbox': 'arg0', 'size': 'arg1', 'srs': 'arg2'}}, 'SRS': {'pure': True},
                      'MapExtent': {'pure': True}, 'contains': {'returns': 'bool', 'pure': True}, 'intersection': {'pure': True},
                      'bbox_position_in_image': {'returns': 'tuple[opaque,opaque,opaque]', 'pure': True},
                      'odict': {'pure': True}, 'keys': {'pure': True}, 'values': {'pure': True}, 'get': {'pure': True},
                      'lower': {'pure': True}, 'copy': {'pure': True}, 'renders_query': {'returns': 'bool', 'pure': True},
                      'is_opaque': {'returns': 'bool', 'pure': True},
                      'map_layers_for_query': {'returns': 'list[tuple[opaque,opaque]]', 'pure': True},
                      'check_map_request': {'raises': ['RequestError']}, 'LayerRenderer': {'pure': True},
                      'LayerMerger': {'pure': True}, 'render': {'pure': True}, 'add': {'pure': True}, 'merge': {'pure': True},
                      'update_query_with_fwd_params': {'pure': True}, 'attribution_image': {'pure': True},
                      'SubImageSource': {'pure': True}, 'decorate_img': {'pure': True}, 'GeoReference': {'pure': True},
                      'as_buffer': {'raises': ['IOError']}, 'Response': {'pure': True}, 'BlankImageSource': {'pure': True}},
         opaque=['check_map_request', 'update_query_with_fwd_params', 'decorate_img', 'cache_headers', 'make_conditional', 'Response',
                 'merge', 'add', 'render', 'LayerMerger', 'LayerRenderer', 'MapQuery', 'bbox_position_in_image', 'as_buffer',
                 'renders_query', 'is_opaque', 'map_layers_for_query', 'contains', 'intersection'],
         loops={0: dict(inv=[], types={'actual_layers': 'opaque'}), 1: dict(inv=[], types={'actual_layers': 'opaque'}),
                2: dict(inv=[], types={'render_layers': 'opaque'})},
         trace=[_map_protocol])


# ---- GeomCoverage: the point / rectangle / geometry tested against the limit is in the limit's SRS -----------------------
G = 'mapproxy.util.coverage:'
cls(G + 'GeomCoverage', fields=dict(geom='opaque', bbox='opaque', srs='opaque', clip='opaque', _prep_lock='opaque',
                                    _prepared_geom='opaque', _prepared_counter='int', _prepared_max='int'))


def _in_coverage_srs(ex, st, post, result):
    import z3
    from pyvc.values import eq
    self_ = post.env['self']
    geom, srs = post.env['geom'], post.env['srs']
    own = st.heap[self_.ref]['srs']
    differs = z3.Not(eq(srs, own))
    tr = _named(st, 'transform_to', 'transform_bbox_to', 'transform_geometry')
    shp = _named(st, 'Point', 'bbox_polygon')
    # which value is handed on: the transformed one if a transformation happened, else the input
    cur = tr[-1][1].result if tr else geom
    goal = z3.BoolVal(len(tr) <= 1)
    if tr:
        t = tr[0][1]
        # from the request SRS to the coverage SRS, applied to the input
        if t.name == 'transform_geometry':
            goal = z3.And(goal, eq(t.args[0], srs), eq(t.args[1], own), z3.BoolVal(t.args[2] is geom))
        else:
            goal = z3.And(goal, z3.BoolVal(t.recv is not None and t.recv.t.eq(srs.t)), eq(t.args[0], own), z3.BoolVal(t.args[1] is geom))
    else:
        goal = z3.And(goal, z3.Not(differs))
    if shp:
        goal = z3.And(goal, z3.BoolVal(len(shp) == 1 and shp[0][1].args[0] is cur and result is shp[0][1].result))
    else:
        goal = z3.And(goal, z3.BoolVal(result is cur))
    yield ('tested_shape_is_in_coverage_srs', goal,
           'if the SRS differ the input is transformed from the request SRS to the coverage SRS, and the shape that is '
           'tested (Point / polygon / geometry) is built from the TRANSFORMED coordinates; without a difference nothing is transformed')


contract(G + 'GeomCoverage._geom_in_coverage_srs', props=['C10', 'C17'],
         types=dict(geom='opaque', srs='opaque'), returns='opaque', default_callee='opaque',
         opaque_spec={'transform_to': {'pure': True}, 'transform_bbox_to': {'pure': True}, 'transform_geometry': {'pure': True},
                      'Point': {'pure': True}, 'bbox_polygon': {'pure': True}},
         trace=[_in_coverage_srs])


# ---- C14: pruning of layers hidden below an opaque layer (loop 0 of WMSServer.map) ------------------------------------------------
def _prune_only_below_opaque(ex, st, k):
    """the collected layers are thrown away only when the layer of this iteration renders the query AND declares itself
    opaque for exactly this query; its own sub-layers are added afterwards"""
    import z3
    evs_ = st.trace[getattr(st, 'iter_start_trace', 0):]
    resets = [(i, e) for i, e in enumerate(evs_) if e.name == 'odict']
    rq = [(i, e) for i, e in enumerate(evs_) if e.name == 'renders_query']
    op = [(i, e) for i, e in enumerate(evs_) if e.name == 'is_opaque']
    ml = [(i, e) for i, e in enumerate(evs_) if e.name == 'map_layers_for_query']
    q = st.env['query']
    goal = z3.BoolVal(len(rq) == 1 and rq[0][1].args[-1] is q and len(resets) <= 1)
    if ml:
        goal = z3.And(goal, ex.truth(st, rq[0][1].result) if rq else z3.BoolVal(False), z3.BoolVal(ml[0][1].args[-1] is q))
    if resets:
        ok = len(op) == 1 and op[0][1].args[-1] is q and op[0][1].recv is not None and rq and op[0][1].recv.t.eq(rq[0][1].recv.t) \
            and op[0][0] < resets[0][0] and bool(ml) and resets[0][0] < ml[0][0]
        goal = z3.And(goal, z3.BoolVal(bool(ok)))
        if ok:
            goal = z3.And(goal, ex.truth(st, op[0][1].result), ex.truth(st, rq[0][1].result))
    yield ('layers_pruned_only_below_opaque_layer', goal,
           'actual_layers is reset only if THIS layer renders the query and layer.is_opaque(query) is true; the layer itself is '
           'added after the reset (so it stays), a layer that does not render the query adds and removes nothing')


from pyvc.api import REG as _REG  # noqa
_c = _REG.contracts[WMS + 'WMSServer.map']
_c['props'] = sorted(set(_c['props']) | {'C14'})
_REG.loops[(WMS + 'WMSServer.map', 0)]['body_trace'] = [_prune_only_below_opaque]


# ---- C20: WMS(-C) responses: an uncacheable result is always sent with the no-cache headers -----------------------------------
def _map_uncacheable_no_store(ex, st, post, result):
    import z3
    resp = T.evs(st, 'Response')
    if not resp or not T.evs(st, 'merge'):
        return
    ch = [e for i, e in T.evs(st, 'cache_headers')]
    dec = [e for i, e in T.evs(st, 'decorate_img', 'WMSServer.decorate_img')]
    goal = z3.BoolVal(len(dec) == 1)
    if dec:
        img = dec[0].result
        cacheable = ex.truth(st, ex.opaque_field(st, img, 'cacheable'))
        last_no_cache = z3.BoolVal(bool(ch) and 'no_cache' in ch[-1].kwargs and not [a for a in ch[-1].args if a is not ch[-1].recv]) 
        if ch and 'no_cache' in ch[-1].kwargs:
            last_no_cache = z3.And(last_no_cache, ex.truth(st, ch[-1].kwargs['no_cache']))
        goal = z3.And(goal, z3.Or(cacheable, last_no_cache))
    yield ('uncacheable_map_gets_no_cache_headers', goal,
           'if the composed image is not cacheable (an upstream error was mapped to a fill image) the last word on caching is '
           'cache_headers(no_cache=True), also for tiled WMS-C requests')


_c['props'] = sorted(set(_c['props']) | {'C20'})
_c['trace'] = list(_c['trace']) + [_map_uncacheable_no_store]
_c['opaque_fields'] = dict(_c['opaque_fields'], cacheable='opaque')


def ch_first(st, resp_ev):
    """the first event after the Response was built (the state in which the caching decision is taken)"""
    i = st.trace.index(resp_ev)
    return st.trace[i + 1] if i + 1 < len(st.trace) else resp_ev


# ---- C20: WMS-C (tiled=true) answers carry the validators of the cached tile and are answered conditionally -----------------------
def _map_wmsc_validators(ex, st, post, result):
    import z3
    from pyvc.values import eq, ObjSort, VSeq
    resp = [e for i, e in T.evs(st, 'Response')]
    rend = [e for i, e in T.evs(st, 'LayerRenderer')]
    dec = [e for i, e in T.evs(st, 'decorate_img', 'WMSServer.decorate_img')]
    if not resp or not T.evs(st, 'merge') or len(rend) != 1 or len(dec) != 1:
        return
    q = rend[0].args[1]
    img = dec[0].result
    tiled = ex.truth(st, ex.opaque_field_at(st, resp[-1], q, 'tiled_only'))
    ci = ex.opaque_field_at(st, ch_first(st, resp[-1]), img, 'cacheable')
    is_ci = z3.Function('opaque_isinstance_mapproxy_cache_tile_CacheInfo', ObjSort, z3.BoolSort())(ci.t)
    # ... of a tile that MAY be cached: CacheInfo(cacheable=False) (an upstream error mapped to an uncached fill image) is falsy
    cond = z3.And(tiled, is_ci, ex.truth(st, ci))
    ch = [(i, e) for i, e in T.evs(st, 'cache_headers') if 'etag_data' in e.kwargs]
    mc = [(i, e) for i, e in T.evs(st, 'make_conditional')]
    have = len(ch) == 1 and len(mc) == 1 and ch[0][0] < mc[0][0]
    g = z3.BoolVal(bool(have))
    if have:
        c, m = ch[0][1], mc[0][1]
        a = [x for x in c.args if x is not c.recv]
        ts = ex.opaque_field_at(st, c, ci, 'timestamp')
        sz = ex.opaque_field_at(st, c, ci, 'size')
        et = c.kwargs['etag_data']
        http = ex.opaque_field_at(st, m, post.env['map_request'], 'http')
        okk = len(a) == 1 and isinstance(et, VSeq) and et.concrete and len(et.items) == 2 and 'max_age' in c.kwargs \
            and c.recv is not None and c.recv.t.eq(resp[-1].result.t) and m.recv is not None and m.recv.t.eq(resp[-1].result.t)
        g = z3.BoolVal(bool(okk))
        if okk:
            ma = [x for x in m.args if x is not m.recv]
            g = z3.And(g, eq(a[0], ts), eq(et.items[0], ts), eq(et.items[1], sz),
                       eq(c.kwargs['max_age'], st.heap[post.env['self'].ref]['max_tile_age']),
                       z3.BoolVal(len(ma) == 1), eq(ma[0], http) if len(ma) == 1 else z3.BoolVal(False))
    none = z3.BoolVal(not ch and not mc)
    yield ('wmsc_tile_validators_and_conditional_answer', z3.If(cond, g, none),
           'a tiled (WMS-C) answer whose image carries the CacheInfo of a cached, CACHEABLE tile gets cache_headers(timestamp, '
           'etag_data=(timestamp, size), max_age=max_tile_age) and is then made conditional on the request headers; any other '
           'map answer gets neither validators nor a 304')


_c['trace'] = list(_c['trace']) + [_map_wmsc_validators]
_c['opaque_fields'] = dict(_c['opaque_fields'], tiled_only='bool', timestamp='opaque', http='opaque')
_c['stable_fields'] = list(_c['stable_fields']) + ['timestamp', 'http']


# ---- the layers handed to the renderer are exactly the (filtered) layers that were collected, in order -------------------------------
def _render_list_grows(ex, st, k):
    import z3
    evs_ = st.trace[getattr(st, 'iter_start_trace', 0):]
    extd = [e for e in evs_ if e.name == 'extend']
    rl0 = st.iter_start_state.env['render_layers']
    ok = len(extd) == 1 and len(extd[0].args) == 1 and extd[0].args[0] is st.env['layers'] and extd[0].recv is not None \
        and hasattr(rl0, 't') and extd[0].recv.t.eq(rl0.t) and len(evs_) == 1
    yield ('collected_layers_go_to_the_render_list', z3.BoolVal(bool(ok)),
           'the map layers of every remaining entry are appended to the render list, in the order of the entries; nothing else '
           'happens to the list')


def _render_list_protocol(ex, st, post, result):
    import z3
    filt = _named(st, 'WMSServer.filter_actual_layers')
    vals = _named(st, 'values')
    rend = _named(st, 'LayerRenderer')
    upd = _named(st, 'update_query_with_fwd_params', 'WMSServer.update_query_with_fwd_params')
    if not rend:
        return
    ok = len(filt) == 1 and len(vals) == 1 and len(upd) == 1 and filt[0][0] < vals[0][0] < upd[0][0] < rend[0][0]
    if ok:
        al = [a for a in filt[0][1].args if a is not post.env['self']][0]
        rl = st.env.get('render_layers')
        u = upd[0][1]
        ua = [a for a in u.args if a is not post.env['self']]
        ok = vals[0][1].recv is not None and hasattr(al, 't') and vals[0][1].recv.t.eq(al.t) and rend[0][1].args[0] is rl \
            and len(ua) == 1 and ua[0] is rend[0][1].args[1] and u.kwargs.get('layers') is rl and u.kwargs.get('params') is st.env.get('params')
    yield ('rendered_layers_are_the_filtered_layers', z3.BoolVal(bool(ok)),
           'the render list is built from actual_layers.values() AFTER filter_actual_layers removed what is not permitted; the '
           'forwarded request parameters are applied to the rendered query for exactly these layers (update_query_with_fwd_params) '
           'before LayerRenderer(render_layers, query, ..) is created')


_c['trace'] = list(_c['trace']) + [_render_list_protocol]
_REG.loops[(WMS + 'WMSServer.map', 2)]['body_trace'] = [_render_list_grows]


# ---- SRS-extent limiting, source-error policy, decoration: what decides them ------------------------------------------------------
def _map_extent_decisions(ex, st, post, result):
    import z3
    from pyvc.values import eq, opaque_eq_str, VSeq
    cont = [e for i, e in T.evs(st, 'contains') if len(e.args) == 1]     # the method call, not the `in` test
    inter = [e for i, e in T.evs(st, 'intersection')]
    me = [e for i, e in T.evs(st, 'MapExtent')]
    bp = [e for i, e in T.evs(st, 'bbox_position_in_image')]
    blank = [e for i, e in T.evs(st, 'BlankImageSource')]
    merges = [e for i, e in T.evs(st, 'merge')]
    g = z3.BoolVal(len(cont) <= 1 and len(inter) <= 1 and len(bp) <= 1 and len(blank) <= 1 and len(me) <= 1)
    p_ = st.env.get('params')
    if me and p_ is not None:
        g = z3.And(g, eq(me[0].args[0], ex.opaque_field_at(st, me[0], p_, 'bbox')))
        if cont:
            g = z3.And(g, z3.BoolVal(len(cont[0].args) == 1 and cont[0].args[0] is me[0].result))
        if inter:
            g = z3.And(g, z3.BoolVal(len(inter[0].args) == 1 and inter[0].args[0] is me[0].result and bool(cont)
                                     and inter[0].recv is not None and inter[0].recv.t.eq(cont[0].recv.t)))
    inside = ex.truth(st, cont[0].result) if cont else z3.BoolVal(True)
    overlap = ex.truth(st, inter[0].result) if inter else z3.BoolVal(False)
    if bp:
        ok = bool(inter) and len(bp[0].args) == 3
        g = z3.And(g, z3.BoolVal(ok), z3.Not(inside), overlap)
        if ok:
            g = z3.And(g, eq(bp[0].args[2], ex.opaque_field_at(st, bp[0], inter[0].result, 'bbox')))
    elif blank:
        g = z3.And(g, z3.BoolVal(bool(inter) and not merges), z3.Not(inside), z3.Not(overlap))
    else:
        # the request is rendered as it is: no configured extent for its SRS, or the request lies inside it
        g = z3.And(g, inside, z3.BoolVal(not inter))
    yield ('srs_extent_limit_decides_what_is_rendered', g,
           'the request is cut down to the configured SRS extent exactly when it is not contained in it and overlaps it (cut to '
           'the intersection); it is answered with a blank image, without rendering anything, exactly when it does not overlap')
    rend = [e for i, e in T.evs(st, 'LayerRenderer')]
    if rend:
        h = st.heap[post.env['self'].ref]
        kw = rend[0].kwargs
        want = opaque_eq_str(h['on_error'].t, z3.StringVal('raise'))
        g2 = z3.BoolVal('raise_source_errors' in kw and 'concurrent_rendering' in kw and len(rend[0].args) == 3
                        and rend[0].args[2] is post.env['map_request'])
        if 'raise_source_errors' in kw:
            g2 = z3.And(g2, ex.truth(st, kw['raise_source_errors']) == want)
        yield ('source_error_policy_as_configured', g2,
               "source errors are raised exactly when on_error == 'raise' (otherwise captured and shown in the picture)")
    dec = [e for i, e in T.evs(st, 'decorate_img', 'WMSServer.decorate_img')]
    sub = [e for i, e in T.evs(st, 'SubImageSource')]
    if dec and merges:
        a = [x for x in dec[0].args if x is not post.env['self']]
        src = sub[0].result if sub else merges[0].result
        yield ('decorated_image_is_the_composition', z3.BoolVal(len(dec) == 1 and len(a) >= 1 and a[0] is src),
               'the image handed to the decorate_img hook (and then sent) is the merged picture (put back into the full-size '
               'image when the extent was reduced)')
    adds = [e for i, e in T.evs(st, 'add')]
    att = [e for i, e in T.evs(st, 'attribution_image')]
    if rend:
        q = rend[0].args[1]
        g3 = z3.BoolVal(len(adds) == len(att) and len(att) <= 1)
        if len(adds) == 1 and len(att) == 1:
            g3 = z3.And(g3, z3.BoolVal(adds[0].args[-1] is att[0].result and len(att[0].args) == 2),
                        eq(att[0].args[1], ex.opaque_field_at(st, att[0], q, 'size')),
                        z3.Not(ex.truth(st, ex.opaque_field_at(st, att[0], q, 'tiled_only'))))
        yield ('only_the_attribution_is_added_on_top', g3,
               'apart from the rendered layers the only thing added to the merger is the attribution image, sized like the '
               'rendered query, and never for tiled (WMS-C) requests')


_c['trace'] = list(_c['trace']) + [_map_extent_decisions]


# ---- WMSServer.featureinfo: which layers are asked, what is collected, what is answered ---------------------------------------------
def _fi_collect_layers(ex, st, k):
    import z3
    evs_ = st.trace[getattr(st, 'iter_start_trace', 0):]
    il = [e for e in evs_ if e.name == 'info_layers_for_query']
    layer = st.env['layer']
    q = ex.truth(st, ex.opaque_field(st.iter_start_state, layer, 'queryable'))
    ok = len(il) == 1 and il[0].recv is not None and il[0].recv.t.eq(layer.t) and il[0].args[-1] is st.env['query']
    yield ('only_queryable_layers_are_asked', z3.And(z3.BoolVal(bool(ok)), q),
           'a requested layer contributes its info layers (for this query) only if it is queryable')


def _fi_not_queryable(ex, st, k, pre, exc):
    import z3
    layer = st.env['layer']
    q = ex.truth(st, ex.opaque_field(pre, layer, 'queryable'))
    yield ('not_queryable_is_refused', z3.Not(q), 'the request is refused (RequestError) in this loop only for a layer that is not queryable')


def _fi_info_list_grows(ex, st, k):
    import z3
    evs_ = st.trace[getattr(st, 'iter_start_trace', 0):]
    extd = [e for e in evs_ if e.name == 'extend']
    l0 = st.iter_start_state.env['info_layers']
    ok = len(extd) == 1 and len(evs_) == 1 and extd[0].args[-1] is st.env['layers'] and hasattr(l0, 't') and extd[0].recv.t.eq(l0.t)
    yield ('permitted_info_layers_are_all_asked', z3.BoolVal(bool(ok)), 'every remaining entry adds its info layers to the list that is queried')


def _fi_info_collected(ex, st, k):
    import z3
    evs_ = st.trace[getattr(st, 'iter_start_trace', 0):]
    gi = [e for e in evs_ if e.name == 'get_info']
    ap = [e for e in evs_ if e.name == 'append']
    ok = len(gi) == 1 and gi[0].recv is not None and gi[0].recv.t.eq(st.env['layer'].t) and gi[0].args[-1] is st.env['query']
    g = z3.BoolVal(bool(ok))
    if ok:
        r = gi[0].result
        isnone = r.isnone if hasattr(r, 'isnone') else z3.BoolVal(type(r).__name__ == 'VNone')
        got = z3.BoolVal(len(ap) == 1 and (ap[0].args[-1] is r or getattr(r, 'val', None) is ap[0].args[-1])
                         and hasattr(st.iter_start_state.env['infos'], 't') and ap[0].recv.t.eq(st.iter_start_state.env['infos'].t))
        g = z3.And(g, z3.If(isnone, z3.BoolVal(not ap), got))
    yield ('every_answer_is_collected', g,
           'each info layer is asked once with the query of the request; its answer is appended to the result list unless it is None')


def _fi_answer(ex, st, post, result):
    import z3
    from pyvc.values import eq, VStr, VSeq
    resp = [e for i, e in T.evs(st, 'Response')]
    cd = [e for i, e in T.evs(st, 'combine_docs')]
    mt = [e for i, e in T.evs(st, 'mimetype_from_infotype')]
    if len(resp) != 1:
        yield ('one_answer', z3.BoolVal(False), 'exactly one Response is built')
        return
    r = resp[0]
    infos = st.env.get('infos')
    if not cd:
        empty = isinstance(r.args[0], VStr) and r.args[0].conc() == ''
        g = z3.BoolVal(bool(empty and 'mimetype' in r.kwargs))
        if infos is not None:
            g = z3.And(g, z3.Not(ex.truth(st, infos)))
        yield ('no_info_gives_empty_answer', g, 'without any feature info the answer is an empty document')
        return
    ok = len(cd) == 1 and cd[0].args[0] is infos and isinstance(cd[0].result, VSeq) and r.args[0] is cd[0].result.items[0] \
        and 'mimetype' in r.kwargs
    g = z3.BoolVal(bool(ok))
    if ok:
        g = z3.And(g, ex.truth(st, infos))
        h = st.heap[post.env['self'].ref]
        if len(cd[0].args) == 1:
            # no transformers configured: the type is the one of the combined document
            good = len(mt) == 1 and mt[0].args[1] is cd[0].result.items[1] and r.kwargs['mimetype'] is mt[0].result
            g = z3.And(g, z3.BoolVal(bool(good)), z3.Not(ex.truth(st, h['fi_transformers'])))
        else:
            g = z3.And(g, ex.truth(st, h['fi_transformers']))
    yield ('answer_is_the_combination_of_all_infos', g,
           'the body is combine_docs(all collected infos[, the configured transformer])[0]; without transformers the declared '
           'mimetype is the one belonging to the type of the combined document')


_f = _REG.contracts[WMS + 'WMSServer.featureinfo']
_f['opaque_fields'] = dict(_f['opaque_fields'], queryable='bool')
_f['stable_fields'] = list(_f['stable_fields']) + ['queryable']
_f['opaque_spec'] = dict(_f['opaque_spec'], get_info={'returns': 'opt[opaque]'}, mimetype_from_infotype={'pure': True},
                         infotype_from_mimetype={'pure': True}, Response={'pure': True})
_f['trace'] = list(_f.get('trace', [])) + [_fi_answer]
_REG.loops[(WMS + 'WMSServer.featureinfo', 0)]['body_trace'] = [_fi_collect_layers]
_REG.loops[(WMS + 'WMSServer.featureinfo', 0)]['raise_trace'] = [_fi_not_queryable]
_REG.loops[(WMS + 'WMSServer.featureinfo', 2)]['body_trace'] = [_fi_info_list_grows]
_REG.loops[(WMS + 'WMSServer.featureinfo', 3)]['body_trace'] = list(_REG.loops[(WMS + 'WMSServer.featureinfo', 3)]['body_trace']) + [_fi_info_collected]


# ======================================================================================================================
# WMS capabilities: denied layers are not advertised
# ======================================================================================================================
def _cap_decision(ex, st, post, result):
    import z3
    from pyvc.values import VStr
    h = st.heap[post.env['self'].ref]
    cb = [e for e in st.trace if e.kwargs and 'environ' in e.kwargs and e.name not in ('FilteredRootLayer',)]
    frl = [e for i, e in T.evs(st, 'FilteredRootLayer')]
    unfiltered = result is h['root_layer'] or (hasattr(result, 't') and hasattr(h['root_layer'], 't') and result.t.eq(h['root_layer'].t))
    if not cb:
        ins = [e for i, e in T.evs(st, 'contains')]
        yield ('cap_unfiltered_without_callback_only_if_not_configured',
               z3.And(z3.BoolVal(bool(unfiltered and ins)), *[z3.Not(e.result.t) for e in ins]),
               "without asking, the complete layer tree is advertised only when no 'mapproxy.authorize' callback is configured")
        return
    c = cb[-1]
    a0 = c.args[0] if c.args else None
    yield ('cap_callback_asked_about_capabilities',
           z3.BoolVal(isinstance(a0, VStr) and a0.conc() == 'wms.capabilities' and c.kwargs['environ'] is post.env['env']),
           "the callback is asked about 'wms.capabilities' with the request environment")
    full = _item_is(c.result.t, 'authorized', 'full', st.epoch)
    partial = _item_is(c.result.t, 'authorized', 'partial', st.epoch)
    from pyvc.values import opaque_eq_str as _oes
    ep_ = getattr(c, 'pre_epoch', 0) + 1
    f_ = z3.Function('opaque_item_%s_%d' % (abs(hash(('s', 'authorized'))), ep_), c.result.t.sort(), c.result.t.sort())
    yield ('cap_unauthenticated_never_served', z3.Not(_oes(f_(c.result.t), z3.StringVal('unauthenticated'))),
           "no capabilities document after authorized == 'unauthenticated' (that answer raises RequestError 401)")
    if unfiltered:
        yield ('cap_complete_tree_only_if_full', full, "the complete layer tree is advertised only for authorized == 'full'")
        return
    ok = len(frl) == 1 and result is frl[0].result and len(frl[0].args) == 2 and \
        (frl[0].args[0] is h['root_layer'] or frl[0].args[0].t.eq(h['root_layer'].t)) and 'coverage' in frl[0].kwargs
    g = z3.And(z3.BoolVal(bool(ok)), partial)
    if ok:
        # the permissions handed to the filter are the callback's result['layers']
        perms = frl[0].args[1]
        g = z3.And(g, z3.Or([perms.t == z3.Function('opaque_item_%s_%d' % (abs(hash(('s', 'layers'))), ep), c.result.t.sort(), c.result.t.sort())(c.result.t)
                             for ep in range(0, st.epoch + 1)]))
        lim = [e for i, e in T.evs(st, 'load_limited_to')]
        gets = [e for i, e in T.evs(st, 'get') if e.args and isinstance(e.args[0], VStr) and e.args[0].conc() == 'limited_to']
        cov = frl[0].kwargs['coverage']
        if lim:
            g = z3.And(g, z3.BoolVal(len(lim) == 1 and len(gets) == 1 and lim[0].args[0] is gets[0].result and
                                     (cov is lim[0].result or getattr(cov, 'val', None) is lim[0].result)), ex.truth(st, gets[0].result))
        else:
            g = z3.And(g, z3.BoolVal(len(gets) == 1), z3.Not(ex.truth(st, gets[0].result)) if gets else z3.BoolVal(False))
    yield ('cap_partial_goes_through_the_filter', g,
           "for authorized == 'partial' the tree is wrapped in FilteredRootLayer(root_layer, result['layers'], coverage=<the "
           "request-wide limit, if any>); every other answer is refused")


contract(WMS + 'WMSServer.authorized_capability_layers', props=['C10'],
         types=dict(env='opaque'), returns='opaque', default_callee='opaque', raises={'RequestError': True},
         opaque_spec={'get': {'pure': True}, 'load_limited_to': {'pure': True}, 'keys': {'pure': True}, 'FilteredRootLayer': {'pure': True}},
         trace=[_cap_decision])


cls(WMS + 'FilteredRootLayer', fields=dict(root_layer='opaque', permissions='opaque', coverage='opt[opaque]'))


def _perm_lookup(st, perms, name_t, key):
    """the events permissions.get(<name>, {}).get(key, ...) -> list of the inner get events"""
    from pyvc.values import VStr
    outer = [e for i, e in T.evs(st, 'get') if e.recv is not None and hasattr(perms, 't') and e.recv.t.eq(perms.t) and e.args
             and hasattr(e.args[0], 't') and e.args[0].t.eq(name_t)]
    inner = []
    for o in outer:
        inner += [e for i, e in T.evs(st, 'get') if e.recv is not None and hasattr(o.result, 't') and e.recv.t.eq(o.result.t) and e.args
                  and isinstance(e.args[0], VStr) and e.args[0].conc() == key]
    return inner


def _layer_permitted_spec(ex, st, post, result):
    import z3
    h = st.heap[post.env['self'].ref]
    layer = post.env['layer']
    name = ex.opaque_field_at(st, st.trace[0], layer, 'name') if st.trace else ex.opaque_field(st, layer, 'name')
    res = ex.truth(st, result)
    maps = _perm_lookup(st, h['permissions'], name.t, 'map')
    g = z3.BoolVal(len(maps) >= 1)
    if maps:
        m = maps[0]
        g = z3.And(g, ex.truth(st, m.result), z3.BoolVal(len(m.args) == 2), z3.Not(ex.truth(st, m.args[1])) if len(m.args) == 2 else z3.BoolVal(False))
    yield ('advertised_only_with_map_permission', z3.Implies(res, g),
           "a layer is advertised only if permissions[layer.name]['map'] is set (a missing entry counts as not permitted)")
    lims = _perm_lookup(st, h['permissions'], name.t, 'limited_to')
    inter = [e for i, e in T.evs(st, 'intersects')]
    g2 = z3.BoolVal(True)
    for e in inter:
        g2 = z3.And(g2, ex.truth(st, e.result))
    cov = h['coverage']
    own = [e for e in inter if e.recv is not None and hasattr(cov, 'val') and e.recv.t.eq(cov.val.t)]
    g2 = z3.And(g2, z3.Implies(ex.truth(st, cov), z3.BoolVal(len(own) == 1)))
    from pyvc.values import eq as _eqv
    for e in inter:
        ext = ex.opaque_field_at(st, e, layer, 'extent')
        g2 = z3.And(g2, z3.BoolVal(len(e.args) == 2), _eqv(e.args[0], ex.opaque_field_at(st, e, ext, 'bbox')) if len(e.args) == 2 else z3.BoolVal(False),
                    _eqv(e.args[1], ex.opaque_field_at(st, e, ext, 'srs')) if len(e.args) == 2 else z3.BoolVal(False))
    if lims:
        ll = [e for i, e in T.evs(st, 'load_limited_to')]
        g2 = z3.And(g2, z3.Implies(ex.truth(st, lims[0].result), z3.BoolVal(len(ll) == 1 and ll[0].args[0] is lims[0].result and
                                                                          any(e.recv is not None and e.recv.t.eq(ll[0].result.t) for e in inter))))
    yield ('advertised_only_if_inside_its_limits', z3.Implies(res, g2),
           'a layer with a per-layer limit and/or under a request-wide limit is advertised only if its extent intersects them')


contract(WMS + 'FilteredRootLayer.layer_permitted', props=['C10'],
         types=dict(layer='opaque'), returns='bool', default_callee='opaque',
         opaque_fields={'name': 'opaque', 'extent': 'opaque', 'bbox': 'opaque', 'srs': 'opaque'}, stable_fields=['name', 'extent', 'bbox', 'srs'],
         opaque_spec={'get': {'pure': True}, 'load_limited_to': {'pure': True}, 'intersects': {'returns': 'bool', 'pure': True}},
         trace=[_layer_permitted_spec])


def _filtered_children(ex, st, k):
    import z3
    evs_ = st.trace[getattr(st, 'iter_start_trace', 0):]
    pre = st.iter_start_state
    layer = st.env['layer']
    h = st.heap[st.env['self'].ref]
    lp = [e for e in evs_ if e.name in ('layer_permitted', 'FilteredRootLayer.layer_permitted')]
    mk = [e for e in evs_ if e.name == 'FilteredRootLayer']
    ap = [e for e in evs_ if e.name == 'append']
    named = ex.truth(st, ex.opaque_field(pre, layer, 'name'))
    g = z3.BoolVal(len(lp) <= 1 and len(mk) <= 1 and len(ap) <= len(mk))
    for e in lp:
        a = [x for x in e.args if getattr(x, 'ref', None) != st.env['self'].ref]
        g = z3.And(g, z3.BoolVal(len(a) == 1 and a[0] is layer))
    # a NAMED child reaches the advertised list only through layer_permitted(child) == True
    if mk:
        g = z3.And(g, z3.Or(z3.Not(named), z3.And(z3.BoolVal(len(lp) == 1), ex.truth(st, lp[0].result) if lp else z3.BoolVal(False))))
        m = mk[0]
        okm = len(m.args) == 3 and m.args[0] is layer and (m.args[1] is h['permissions']) and (m.args[2] is h['coverage'])
        g = z3.And(g, z3.BoolVal(bool(okm)))
    for e in ap:
        g = z3.And(g, z3.BoolVal(bool(mk) and e.args[-1] is mk[0].result))
    yield ('child_advertised_only_if_permitted_and_filtered_itself', g,
           'a named child layer is advertised only if layer_permitted(child) holds, and then as a FilteredRootLayer over that '
           'child with the same permissions and request-wide limit (so its own children are filtered the same way); group '
           'layers without a name are kept only as filtered wrappers')


contract(WMS + 'FilteredRootLayer.layers', props=['C10'],
         types={}, returns='list[opaque]', default_callee='opaque',
         opaque_fields={'name': 'opaque', 'layers': 'list[opaque]', 'is_active': 'opaque'}, stable_fields=['name', 'layers'],
         opaque_spec={'layer_permitted': {'returns': 'bool', 'pure': True}, 'FilteredRootLayer': {'pure': True}},
         opaque=['layer_permitted', 'FilteredRootLayer'],
         loops={0: dict(inv=[], types={'layers': 'list[opaque]'}, body_trace=[_filtered_children])})


def _filtered_queryable(ex, st, post, result):
    import z3
    h = st.heap[post.env['self'].ref]
    root = h['root_layer']
    res = ex.truth(st, result)
    q = ex.truth(st, ex.opaque_field(st, root, 'queryable'))
    name = ex.opaque_field(st, root, 'name')
    fi = _perm_lookup(st, h['permissions'], name.t, 'featureinfo')
    ok_fi = z3.BoolVal(False)
    if fi:
        ok_fi = z3.And(ex.truth(st, fi[0].result), z3.BoolVal(len(fi[0].args) == 2), z3.Not(ex.truth(st, fi[0].args[1])) if len(fi[0].args) == 2 else z3.BoolVal(False))
    yield ('queryable_only_with_featureinfo_permission', z3.Implies(res, z3.And(q, z3.Or(z3.Not(ex.truth(st, name)), ok_fi))),
           "a named layer is advertised as queryable only if the layer is queryable and permissions[name]['featureinfo'] is set")


contract(WMS + 'FilteredRootLayer.queryable', props=['C10'],
         types={}, returns='bool', default_callee='opaque',
         opaque_fields={'name': 'opaque', 'queryable': 'opaque'}, stable_fields=['name', 'queryable'],
         opaque_spec={'get': {'pure': True}},
         trace=[_filtered_queryable])


# ======================================================================================================================
# tile service capabilities: only permitted layers are advertised (TMS, WMTS)
# ======================================================================================================================
def _tile_caps_decision(svc):
    def clause(ex, st, post, result):
        import z3
        from pyvc.values import VStr
        cb = [e for e in st.trace if e.kwargs and 'environ' in e.kwargs and 'query_extent' in e.kwargs]
        ins = [e for i, e in T.evs(st, 'contains') if len(e.args) == 2 and isinstance(e.args[1], VStr) and e.args[1].conc() == 'mapproxy.authorize']
        if not cb:
            yield ('all_layers_without_asking_only_if_not_configured',
                   z3.And(z3.BoolVal(len(ins) == 1), *[z3.Not(ex.truth(st, e.result)) for e in ins]),
                   "every layer is advertised without asking only when no 'mapproxy.authorize' callback is configured")
            return
        c = cb[-1]
        a0 = c.args[0] if c.args else None
        yield ('callback_asked_about_the_service', z3.BoolVal(isinstance(a0, VStr) and a0.conc() == svc and c.kwargs['environ'] is post.env['env']),
               "the callback is asked about '%s' with the request environment" % svc)
        from pyvc.values import opaque_eq_str as _oes
        ep_ = getattr(c, 'pre_epoch', 0) + 1
        f_ = z3.Function('opaque_item_%s_%d' % (abs(hash(('s', 'authorized'))), ep_), c.result.t.sort(), c.result.t.sort())
        auth = f_(c.result.t)
        yield ('unauthenticated_or_none_never_served',
               z3.And(z3.Not(_oes(auth, z3.StringVal('unauthenticated'))),
                      z3.Or(_oes(auth, z3.StringVal('full')), z3.Not(_oes(auth, z3.StringVal('none'))))),
               "no capabilities document after 'unauthenticated' (401) or 'none' (403)")
    return clause


def _tile_caps_layer(ex, st, k):
    """a layer enters the advertised collection only with its own 'tile' permission (a missing entry counts as not permitted)"""
    import z3
    from pyvc.values import VStr
    evs_ = st.trace[getattr(st, 'iter_start_trace', 0):]
    layer = st.env['layer']
    added = [e for e in evs_ if e.name in ('setitem', 'append')]
    name = ex.opaque_field(st.iter_start_state, layer, 'name')
    outer = [e for e in evs_ if e.name == 'get' and e.args and hasattr(e.args[0], 't') and e.args[0].t.eq(name.t)]
    inner = [e for e in evs_ if e.name == 'get' and e.args and isinstance(e.args[0], VStr) and e.args[0].conc() == 'tile'
             and outer and e.recv is not None and e.recv.t.eq(outer[0].result.t)]
    g = z3.BoolVal(len(added) <= 1 and len(outer) == 1 and len(inner) == 1)
    if len(inner) == 1:
        from pyvc.values import opaque_is_true
        # (TMS tests `is True`, WMTS truthiness: either way the permission must be there)
        perm = z3.Or(ex.truth(st, inner[0].result), opaque_is_true(inner[0].result.t))
        dflt_false = z3.Not(ex.truth(st, inner[0].args[1])) if len(inner[0].args) == 2 else z3.BoolVal(False)
        g = z3.And(g, dflt_false, z3.Implies(z3.BoolVal(bool(added)), perm))
        for e in added:
            g = z3.And(g, z3.BoolVal(e.args[-1] is layer))
    yield ('advertised_only_with_its_tile_permission', g,
           "a layer is advertised only if result['layers'][layer.name]['tile'] is set for THAT layer (default: not permitted)")


for _key, _svc in (('mapproxy.service.tile:TileServer.authorized_tile_layers', 'tms'), ('mapproxy.service.wmts:WMTSServer.authorized_tile_layers', 'wmts')):
    contract(_key, props=['C10'],
             types=dict(env='opaque'), returns='opaque', default_callee='opaque', raises={'RequestError': True},
             opaque_fields={'name': 'opaque'}, stable_fields=['name'],
             opaque_spec={'get': {'pure': True}, 'values': {'returns': 'list[opaque]', 'pure': True}, 'odict': {'pure': True},
                          'list': {'pure': True}, 'contains': {'returns': 'bool', 'pure': True}},
             loops={0: dict(inv=[], types={'allowed_layers': 'opaque' if _svc == 'tms' else 'list[opaque]'}, body_trace=[_tile_caps_layer])},
             trace=[_tile_caps_decision(_svc)])


def _sameval(a, b):
    if a is b:
        return True
    if hasattr(a, 'isnone') and hasattr(b, 'isnone'):
        return a.isnone.eq(b.isnone) and _sameval(a.val, b.val)
    if hasattr(a, 'isnone'):
        return _sameval(a.val, b)
    if hasattr(b, 'isnone'):
        return _sameval(a, b.val)
    return hasattr(a, 't') and hasattr(b, 't') and a.t.eq(b.t)


def _tms_layer_lookup(ex, st, post, result):
    import z3
    from pyvc.values import VSeq
    il = [e for i, e in T.evs(st, '_internal_layer', '_internal_dimension_layer')]
    au = [e for i, e in T.evs(st, 'authorize_tile_layer')]
    ok = len(il) == 1 and len(au) == 1 and st.trace.index(il[0]) < st.trace.index(au[0]) and isinstance(result, VSeq) and result.concrete \
        and len(result.items) == 2
    g = z3.BoolVal(bool(ok))
    if ok:
        lyr = il[0].result.val if hasattr(il[0].result, 'isnone') else il[0].result
        a = [x for x in au[0].args if getattr(x, 'ref', None) != post.env['self'].ref]
        g = z3.And(g, z3.BoolVal(len(a) == 2 and _sameval(a[0], lyr) and a[1] is post.env['tile_request']
                                 and _sameval(result.items[0], lyr) and _sameval(result.items[1], au[0].result)))
        if hasattr(il[0].result, 'isnone'):
            g = z3.And(g, z3.Not(il[0].result.isnone))
        h = st.heap[post.env['self'].ref]
        g = z3.And(g, ex.truth(st, h['use_dimension_layers']) == z3.BoolVal(il[0].name.endswith('_internal_dimension_layer')))
    yield ('known_layer_authorized_for_this_request', g,
           'the layer of the request is looked up (by dimension key iff use_dimension_layers), an unknown layer is refused, and the '
           'answer is (that layer, the limit the authorization returned for that layer and this very request)')


contract('mapproxy.service.tile:TileServer.layer', props=['C10', 'C16'],
         types=dict(tile_request='opaque'), returns='tuple[opaque,opt[opaque]]', default_callee='opaque', raises={'RequestError': True},
         opaque_spec={'_internal_layer': {'returns': 'opt[opaque]', 'pure': True}, '_internal_dimension_layer': {'returns': 'opt[opaque]', 'pure': True},
                      'authorize_tile_layer': {'raises': ['RequestError'], 'returns': 'opt[opaque]'}},
         opaque=['_internal_layer', '_internal_dimension_layer', 'authorize_tile_layer'],
         trace=[_tms_layer_lookup])
