"""Symbolic values of pyvc: shape-concrete, leaf-symbolic.

Every Python value met during symbolic execution has a *concrete shape* (int / real / bool / str / None /
tuple of known arity / sequence of symbolic length / object reference / ...) and *symbolic leaves* (z3
terms).  Unions with None are carried by VOpt (a symbolic is-None flag); other unions are forked by the
executor when the input is created.
"""
import itertools
import z3

_ctr = itertools.count()


def uid(prefix='t'):
    return '%s!%d' % (prefix, next(_ctr))


ObjSort = z3.DeclareSort('Obj')
BlobSort = z3.DeclareSort('Blob')


class Value(object):
    shape = '?'


class VInt(Value):
    shape = 'int'

    def __init__(self, t):
        self.t = z3.IntVal(t) if isinstance(t, int) else t

    def conc(self):
        return self.t.as_long() if z3.is_int_value(self.t) else None

    def __repr__(self):
        return 'VInt(%s)' % self.t


class VReal(Value):
    shape = 'real'

    def __init__(self, t):
        if isinstance(t, (int, float)):
            t = z3.RealVal(repr(t) if isinstance(t, float) else t)
        self.t = t

    def __repr__(self):
        return 'VReal(%s)' % self.t


class VBool(Value):
    shape = 'bool'

    def __init__(self, t):
        self.t = z3.BoolVal(t) if isinstance(t, bool) else t

    def conc(self):
        if z3.is_true(self.t):
            return True
        if z3.is_false(self.t):
            return False
        return None

    def __repr__(self):
        return 'VBool(%s)' % self.t


class VStr(Value):
    shape = 'str'

    def __init__(self, t, isbytes=False):
        self.t = z3.StringVal(t) if isinstance(t, str) else t
        self.isbytes = isbytes

    def conc(self):
        return self.t.as_string() if z3.is_string_value(self.t) else None

    def __repr__(self):
        return 'VStr(%s)' % self.t


class VNone(Value):
    shape = 'none'

    def __repr__(self):
        return 'VNone'


NONE = VNone()


class VOpt(Value):
    """None (isnone) or `val`."""
    shape = 'opt'

    def __init__(self, isnone, val):
        self.isnone = isnone
        self.val = val

    def __repr__(self):
        return 'VOpt(%s, %r)' % (self.isnone, self.val)


class VSeq(Value):
    """tuple or list.  Concrete length: `items` (python list of Values).  Symbolic length: `length` (z3 Int)
    and `elem` (python closure z3 Int -> Value)."""
    shape = 'seq'

    def __init__(self, items=None, length=None, elem=None, kind='tuple'):
        self.items = list(items) if items is not None else None
        self._length = length
        self._elem = elem
        self.kind = kind

    @property
    def concrete(self):
        return self.items is not None

    def length(self):
        if self.items is not None:
            return z3.IntVal(len(self.items))
        return self._length

    def elem(self, i):
        """element at z3 Int index i (0 <= i < len assumed by the caller)."""
        if self.items is not None:
            if isinstance(i, int):
                return self.items[i]
            if z3.is_int_value(i):
                return self.items[i.as_long()]
            if not self.items:
                raise Unsupported('index into empty concrete sequence')
            r = self.items[-1]
            for k in range(len(self.items) - 2, -1, -1):
                r = ite(i == k, self.items[k], r)
            return r
        if isinstance(i, int):
            i = z3.IntVal(i)
        return self._elem(i)

    def with_kind(self, kind):
        return VSeq(self.items, self._length, self._elem, kind)

    def __repr__(self):
        if self.items is not None:
            return 'VSeq%s' % (self.items,)
        return 'VSeq(len=%s)' % (self._length,)


class VObj(Value):
    shape = 'obj'

    def __init__(self, ref, cls):
        self.ref = ref
        self.cls = cls      # qualified class key 'module:Class' or a stub class name

    def __repr__(self):
        return 'VObj(%s#%s)' % (self.cls, self.ref)


class VOpaque(Value):
    """a value we know nothing about except identity."""
    shape = 'opaque'

    def __init__(self, t=None, name='o'):
        self.t = t if t is not None else z3.Const(uid(name), ObjSort)

    def __repr__(self):
        return 'VOpaque(%s)' % self.t


class VBlob(Value):
    """byte string treated abstractly: identity (uninterpreted) + length."""
    shape = 'blob'

    def __init__(self, t, length):
        self.t = t
        self.len = length

    def __repr__(self):
        return 'VBlob(%s)' % self.t


class VFunc(Value):
    """a callable known to the executor (module function, bound method, builtin, lambda)."""
    shape = 'func'

    def __init__(self, kind, target, selfv=None, name=None):
        self.kind = kind        # 'py' (FunctionInfo), 'builtin', 'lambda', 'class', 'exc', 'module'
        self.target = target
        self.selfv = selfv
        self.name = name

    def __repr__(self):
        return 'VFunc(%s %s)' % (self.kind, self.name or self.target)


class VDict(Value):
    """dict with concrete python keys (str/int/tuple constants) -> Value, insertion ordered; or a symbolic
    map (z3 arrays) when `sym` is set: (present: Array K Bool, val closure)."""
    shape = 'dict'

    def __init__(self, items=None, sym=None):
        self.items = dict(items) if items is not None else None
        self.sym = sym

    def __repr__(self):
        return 'VDict(%s)' % (self.items if self.items is not None else 'sym')


class Unsupported(Exception):
    """construct outside the supported subset (never a verdict about the code)."""


class Raised(object):
    """exceptional outcome of an expression/statement."""

    def __init__(self, cls, args=(), note=''):
        self.cls = cls          # exception class name (str)
        self.args = args
        self.note = note

    def __repr__(self):
        return 'Raised(%s %s)' % (self.cls, self.note)


# ---------------------------------------------------------------------------------------------------------
def is_num(v):
    return isinstance(v, (VInt, VReal, VBool))


def to_real(v):
    if isinstance(v, VReal):
        return v.t
    if isinstance(v, VInt):
        return z3.ToReal(v.t)
    if isinstance(v, VBool):
        return z3.If(v.t, z3.RealVal(1), z3.RealVal(0))
    raise Unsupported('to_real(%r)' % (v,))


def to_int(v):
    if isinstance(v, VInt):
        return v.t
    if isinstance(v, VBool):
        return z3.If(v.t, z3.IntVal(1), z3.IntVal(0))
    raise Unsupported('to_int(%r)' % (v,))


def ite(c, a, b):
    """merge two values under condition c (z3 Bool)."""
    if z3.is_true(c):
        return a
    if z3.is_false(c):
        return b
    if a is b:
        return a
    if isinstance(a, VNone) and isinstance(b, VNone):
        return a
    if isinstance(a, VNone):
        if isinstance(b, VOpt):
            return VOpt(z3.Or(c, b.isnone), b.val)
        return VOpt(c, b)
    if isinstance(b, VNone):
        if isinstance(a, VOpt):
            return VOpt(z3.Or(z3.Not(c), a.isnone), a.val)
        return VOpt(z3.Not(c), a)
    if isinstance(a, VOpt) or isinstance(b, VOpt):
        ai, av = (a.isnone, a.val) if isinstance(a, VOpt) else (z3.BoolVal(False), a)
        bi, bv = (b.isnone, b.val) if isinstance(b, VOpt) else (z3.BoolVal(False), b)
        return VOpt(z3.If(c, ai, bi), ite(c, av, bv))
    if isinstance(a, VBool) and isinstance(b, VBool):
        return VBool(z3.If(c, a.t, b.t))
    if isinstance(a, VInt) and isinstance(b, VInt):
        return VInt(z3.If(c, a.t, b.t))
    if is_num(a) and is_num(b):
        return VReal(z3.If(c, to_real(a), to_real(b)))
    if isinstance(a, VStr) and isinstance(b, VStr):
        return VStr(z3.If(c, a.t, b.t))
    if isinstance(a, VOpaque) and isinstance(b, VOpaque):
        return VOpaque(z3.If(c, a.t, b.t))
    if isinstance(a, VBlob) and isinstance(b, VBlob):
        return VBlob(z3.If(c, a.t, b.t), z3.If(c, a.len, b.len))
    if isinstance(a, VSeq) and isinstance(b, VSeq):
        if a.concrete and b.concrete and len(a.items) == len(b.items):
            return VSeq([ite(c, x, y) for x, y in zip(a.items, b.items)], kind=a.kind)
        return VSeq(length=z3.If(c, a.length(), b.length()),
                    elem=lambda i, a=a, b=b, c=c: ite(c, a.elem(i), b.elem(i)), kind=a.kind)
    if isinstance(a, VObj) and isinstance(b, VObj) and a.ref == b.ref:
        return a
    raise Unsupported('cannot merge %r and %r' % (a, b))


def eq(a, b):
    """structural equality as z3 Bool (Python ==)."""
    if isinstance(a, VNone) and isinstance(b, VNone):
        return z3.BoolVal(True)
    if isinstance(a, VOpt) or isinstance(b, VOpt):
        if isinstance(a, VNone):
            return b.isnone
        if isinstance(b, VNone):
            return a.isnone
        ai, av = (a.isnone, a.val) if isinstance(a, VOpt) else (z3.BoolVal(False), a)
        bi, bv = (b.isnone, b.val) if isinstance(b, VOpt) else (z3.BoolVal(False), b)
        return z3.Or(z3.And(ai, bi), z3.And(z3.Not(ai), z3.Not(bi), eq(av, bv)))
    if isinstance(a, VNone) or isinstance(b, VNone):
        return z3.BoolVal(False)
    if isinstance(a, (VInt, VBool)) and isinstance(b, (VInt, VBool)):
        if isinstance(a, VBool) and isinstance(b, VBool):
            return a.t == b.t
        return to_int(a) == to_int(b)
    if is_num(a) and is_num(b):
        return to_real(a) == to_real(b)
    if isinstance(a, VStr) and isinstance(b, VStr):
        return a.t == b.t
    if isinstance(a, VOpaque) and isinstance(b, VOpaque):
        return a.t == b.t
    if isinstance(a, VBlob) and isinstance(b, VBlob):
        return a.t == b.t
    if isinstance(a, VSeq) and isinstance(b, VSeq):
        if a.concrete and b.concrete:
            if len(a.items) != len(b.items):
                return z3.BoolVal(False)
            return z3.And([eq(x, y) for x, y in zip(a.items, b.items)] or [z3.BoolVal(True)])
        if a.concrete or b.concrete:
            c, s = (a, b) if a.concrete else (b, a)
            n = len(c.items)
            return z3.And([s.length() == n] + [eq(c.items[k], s.elem(z3.IntVal(k))) for k in range(n)])
        i = z3.Int(uid('qi'))
        return z3.And(a.length() == b.length(),
                      z3.ForAll([i], z3.Implies(z3.And(0 <= i, i < a.length()), eq(a.elem(i), b.elem(i)))))
    if isinstance(a, VObj) and isinstance(b, VObj):
        return z3.BoolVal(a.ref == b.ref)
    if isinstance(a, VFunc) and isinstance(b, VFunc):
        return z3.BoolVal(a.kind == b.kind and a.target is b.target)
    # different shapes are never equal in Python (int vs str, tuple vs None ...)
    return z3.BoolVal(False)


# ---------------------------------------------------------------------------------------------------------
# type descriptors:  int real bool str none blob opaque  tuple[a,b,..]  seq[T]  list[T]  opt[T]  T|None
#                    A|B (non-None unions: forked)   obj:Name   gridlist[T]

class Ty(object):
    def __init__(self, kind, args=(), name=None):
        self.kind = kind
        self.args = tuple(args)
        self.name = name

    def __repr__(self):
        if self.kind == 'obj':
            return 'obj:%s' % self.name
        if self.args:
            return '%s[%s]' % (self.kind, ','.join(map(repr, self.args)))
        return self.kind


def parse_type(s):
    if isinstance(s, Ty):
        return s
    toks = []
    cur = ''
    for ch in s.replace(' ', ''):
        if ch in '[],|':
            if cur:
                toks.append(cur)
                cur = ''
            toks.append(ch)
        else:
            cur += ch
    if cur:
        toks.append(cur)
    pos = [0]

    def peek():
        return toks[pos[0]] if pos[0] < len(toks) else None

    def eat(t=None):
        x = toks[pos[0]]
        if t is not None and x != t:
            raise ValueError('type syntax: expected %s got %s in %r' % (t, x, s))
        pos[0] += 1
        return x

    def atom():
        name = eat()
        if name.startswith('obj:'):
            return Ty('obj', name=name[4:])
        if peek() == '[':
            eat('[')
            args = [union()]
            while peek() == ',':
                eat(',')
                args.append(union())
            eat(']')
            if name == 'list':
                return Ty('seq', args, name='list')
            return Ty(name, args)
        if name == 'None':
            name = 'none'
        if name == 'float':
            name = 'real'
        return Ty(name)

    def union():
        alts = [atom()]
        while peek() == '|':
            eat('|')
            alts.append(atom())
        if len(alts) == 1:
            return alts[0]
        nn = [a for a in alts if a.kind != 'none']
        has_none = len(nn) != len(alts)
        inner = nn[0] if len(nn) == 1 else Ty('union', nn)
        return Ty('opt', [inner]) if has_none else inner

    t = union()
    if pos[0] != len(toks):
        raise ValueError('type syntax: trailing tokens in %r' % s)
    return t


def expand_unions(t):
    """list of union-free types (non-None unions are forked by the caller)."""
    if t.kind == 'union':
        out = []
        for a in t.args:
            out.extend(expand_unions(a))
        return out
    if not t.args:
        return [t]
    combos = [[]]
    for a in t.args:
        alts = expand_unions(a)
        combos = [c + [x] for c in combos for x in alts]
    return [Ty(t.kind, c, t.name) for c in combos]
