#!/usr/bin/env python
"""
C03 defect 2: MetaGrid.get_affected_level_tiles on a grid with origin 'ul' (north-west
numbering) returns a bounding box that is NOT the rectangle of the meta tiles it lists.

MetaGrid._tile_iter builds the box from a "lower-left" and an "upper-right" tile:
    ll = (xs[0], ys[-1]);  ur = (xs[-1]+mx-1, ys[0]+my-1)
which is right for south-west numbering (rows grow upwards).  On a flipped grid the rows
grow downwards: ys[0] is the TOP meta row and its first row is ys[0] itself, ys[-1] is the
BOTTOM meta row and its last row is ys[-1]+my-1.  The code uses ys[0]+my-1 and ys[-1]
instead, so as soon as two or more meta rows are affected the box loses (my-1) tile rows at
the top and (my-1) tile rows at the bottom: it does not cover the query rectangle and is
inconsistent with tile_bbox() of the reported tiles.  The same call on the same grid with
origin 'll' is correct.

Run:  cd /tmp/wt/hunt/C03 && /venv/bin/python demo.py
"""
import sys

from mapproxy.grid import tile_grid, MetaGrid

failures = []


def union_of_meta_tiles(mgrid, main_tiles):
    boxes = []
    for main in main_tiles:
        if main is None:
            continue
        for t in mgrid.tile_list(main):  # all tiles of the meta tile (None outside the grid)
            if t is not None:
                boxes.append(mgrid.grid.tile_bbox(t))
    return (min(b[0] for b in boxes), min(b[1] for b in boxes),
            max(b[2] for b in boxes), max(b[3] for b in boxes))


def close(a, b, eps):
    return all(abs(x - y) <= eps for x, y in zip(a, b))


cases = [
    # (query rectangle, level, meta size)
    ((-20037508.0, -20037508.0, 20037508.0, 20037508.0), 3, (2, 2)),   # whole world, 8x8 tiles
    ((-20000000.0, -19000000.0, -19000000.0, -1000000.0), 3, (2, 2)),  # one column, two meta rows
    ((1000.0, 1000.0, 9000000.0, 19000000.0), 4, (4, 4)),              # north-east quadrant, 16x16 tiles
]

for origin in ('ll', 'ul'):
    grid = tile_grid(srs='EPSG:3857', origin=origin)
    for rect, level, meta_size in cases:
        mgrid = MetaGrid(grid, meta_size=meta_size, meta_buffer=0)
        abbox, size, tiles = mgrid.get_affected_level_tiles(rect, level)
        tiles = list(tiles)
        expected = union_of_meta_tiles(mgrid, tiles)
        eps = grid.resolution(level) / 1000.0
        ok_same = close(abbox, expected, eps)
        ok_cover = (abbox[0] <= rect[0] + eps and abbox[1] <= rect[1] + eps and
                    abbox[2] >= rect[2] - eps and abbox[3] >= rect[3] - eps)
        print("origin=%s level=%d meta=%r rect=%r" % (origin, level, meta_size, rect))
        print("   meta tiles %r: %r" % (size, tiles))
        print("   returned bbox           %r" % (abbox,))
        print("   bbox of these meta tiles %r  -> %s, covers rectangle: %s"
              % (expected, 'equal' if ok_same else 'DIFFERENT', ok_cover))
        if not ok_same:
            span = grid.resolution(level) * grid.tile_size[1]
            failures.append("origin=%s level=%d meta=%r: returned bbox misses %.1f tile rows at the top "
                            "and %.1f at the bottom" % (origin, level, meta_size,
                                                        (expected[3] - abbox[3]) / span,
                                                        (abbox[1] - expected[1]) / span))
        elif not ok_cover:
            failures.append("origin=%s level=%d: returned bbox does not cover the rectangle" % (origin, level))

if failures:
    print('PROPERTY C03 VIOLATED:')
    for f in failures:
        print('  - ' + f)
    sys.exit(1)
print('ok: the bbox returned with the meta tiles is the bbox of these meta tiles for both origins')
sys.exit(0)
