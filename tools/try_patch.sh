#!/bin/sh
# usage: try_patch.sh <patch.diff> <Cxx> [extra check args]   -- run a check against a scratch COPY of /repo with the
# patch applied (never touches /repo); the copy lives under /tmp and is removed afterwards
P=$1; shift
D=$(mktemp -d /tmp/pyvc-scratch.XXXXXX)
cp -r /repo/mapproxy "$D/mapproxy"
( cd "$D" && patch -p1 -s < "$P" ) || { echo "patch failed"; rm -rf "$D"; exit 2; }
cd ${VERIF_ROOT:-/verif} && PYVC_OUT="$D/out" PYVC_REPO="$D" timeout ${TRY_TIMEOUT:-900} ./check "$@"; RC=$?
[ -n "$KEEP_OUT" ] && rm -rf "$KEEP_OUT" && cp -r "$D/out" "$KEEP_OUT"
rm -rf "$D"
exit $RC
