"""C11 - seeding creates every selected tile, nothing else, and survives interruption: progress order, one-step coverage,
walker bookkeeping (the whole-traversal induction is a stated lemma, DESIGN.md section 6 C11)."""
from pyvc.api import contract, cls, ghost, lemma
from pyvc import tracelib as T
from . import shared_grid, c03_grid, c04_meta  # noqa
SD = 'mapproxy.seed.seeder:'
G = 'mapproxy.grid:'

# lexicographic order on progress entries (index, number of subtiles)
ghost('plt', ['a', 'b'], "a[0] < b[0] or (a[0] == b[0] and a[1] < b[1])")

contract(SD + 'SeedProgress.can_skip', props=['C11'],
         types=dict(old_progress='opt[list[tuple[int,int]]]', current_progress='opt[list[tuple[int,int]]]'), returns='bool',
         ensures=[
             'implies(old_progress is None or current_progress is None, not result)',
             'implies(old_progress is not None and current_progress is not None and len(old_progress) == 0, result)',
             # behind the old progress <=> at the first position where they differ (both present) current < old;
             # a prefix of the old path, or the old path itself, is never skipped
             """implies(old_progress is not None and current_progress is not None and len(old_progress) > 0,
                        result == exists(lambda i: 0 <= i and i < len(old_progress) and i < len(current_progress)
                                         and plt(current_progress[i], old_progress[i])
                                         and forall(lambda j: implies(0 <= j < i, old_progress[j] == current_progress[j]))))"""],
         loops={0: dict(types={'old': 'opt[tuple[int,int]]', 'current': 'opt[tuple[int,int]]'}, inv=[
             '_k <= len(old_progress) and _k <= len(current_progress)',
             'forall(lambda j: implies(0 <= j < _k, old_progress[j] == current_progress[j]))'])},
         must_fail='result')

contract('mapproxy.seed.util:limit_sub_bbox', props=['C11'],
         types=dict(bbox='tuple[real,real,real,real]', sub_bbox='tuple[real,real,real,real]'),
         returns='tuple[real,real,real,real]',
         ensures=['result[0] == max(bbox[0], sub_bbox[0]) and result[1] == max(bbox[1], sub_bbox[1])',
                  'result[2] == min(bbox[2], sub_bbox[2]) and result[3] == min(bbox[3], sub_bbox[3])'],
         must_fail='result[0] == bbox[0]')
lemma('limit_sub_bbox_loses_nothing', ['C11'],
      doc='every point of cur_bbox that lies in the sub tile bbox lies in limit_sub_bbox(cur_bbox, sub_bbox): the recursion area '
          'is the exact intersection (one-step coverage)',
      fn=lambda z3: (lambda px, b0, b2, s0, s2: ([b0 <= px, px <= b2, s0 <= px, px <= s2],
                                                 z3.And(z3.If(b0 > s0, b0, s0) <= px, px <= z3.If(b2 < s2, b2, s2))))(
          z3.Real('px'), z3.Real('b0'), z3.Real('b2'), z3.Real('s0'), z3.Real('s2')))


# ---- one-step coverage: the meta tiles the walker visits for a bbox ------------------------------------------------------
# element m of the list: main tile in column m % w, row m // w (from the top) of the block of meta tiles
ghost('mi_y', ['mg', 'ytop', 'r', 'z'], "(ytop + r * msize(mg, z, 1)) if mg.grid.flipped_y_axis else (ytop - r * msize(mg, z, 1))")
ghost('mi_elem', ['mg', 'x0', 'ytop', 'w', 'z', 'm'], """
    None if (x0 + (m % w) * msize(mg, z, 0) < 0 or mi_y(mg, ytop, m // w, z) < 0
             or x0 + (m % w) * msize(mg, z, 0) >= mg.grid.grid_sizes[z][0] or mi_y(mg, ytop, m // w, z) >= mg.grid.grid_sizes[z][1])
    else (x0 + (m % w) * msize(mg, z, 0), mi_y(mg, ytop, m // w, z), z)""")
ghost('malign', ['mg', 'v', 'z', 'a'], "v // msize(mg, z, a) * msize(mg, z, a)")

contract(G + 'MetaGrid._tile_iter', props=['C11', 'C04'],
         types=dict(x0='int', y0='int', x1='int', y1='int', level='int'),
         returns='tuple[tuple[real,real,real,real],tuple[int,int],list[opt[tuple[int,int,int]]]]',
         requires=['meta_wf(self)', 'valid_level(self.grid, level)',
                   # callers pass main-tile (meta aligned) coordinates
                   'x0 % msize(self, level, 0) == 0 and x1 % msize(self, level, 0) == 0',
                   'y0 % msize(self, level, 1) == 0 and y1 % msize(self, level, 1) == 0'],
         raises={'IndexError': 'x1 < x0 or (y0 < y1 if self.grid.flipped_y_axis else y1 < y0)'},
         ensures=[
             'x0 <= x1 and (y1 <= y0 if self.grid.flipped_y_axis else y0 <= y1)',
             'result[1][0] == (x1 - x0) // msize(self, level, 0) + 1',
             """result[1][1] == (((y0 - y1) if self.grid.flipped_y_axis else (y1 - y0)) // msize(self, level, 1) + 1)""",
             'len(result[2]) == result[1][0] * result[1][1]',
             'forall(lambda m: implies(0 <= m < len(result[2]), result[2][m] == mi_elem(self, x0, y1, result[1][0], level, m)))',
             # C03: the bbox handed out with the list is the rectangle of exactly these meta tiles - from the west edge of column x0
             # to the east edge of the last column of the meta tile at x1, from the south edge of the southernmost row to the north
             # edge of the northernmost one, for either origin (S48: on origin=ul grids meta_size_y - 1 rows were missing at the top
             # and at the bottom)
             'abs(result[0][0] - tb_x0(self.grid, x0, level)) <= 2e-12',
             # (east and south edge in terms of the block that the list describes: w x h meta tiles from column x0 / top row y1)
             'abs(result[0][2] - tb_x1(self.grid, x0 + result[1][0] * msize(self, level, 0) - 1, level)) <= 2e-12',
             """abs(result[0][1] - tb_y0(self.grid, (y1 + result[1][1] * msize(self, level, 1) - 1) if self.grid.flipped_y_axis
                                                     else (y1 - (result[1][1] - 1) * msize(self, level, 1)), level)) <= 2e-12""",
             'abs(result[0][3] - tb_y1(self.grid, y1 if self.grid.flipped_y_axis else (y1 + msize(self, level, 1) - 1), level)) <= 2e-12',
         ],
         must_fail='result[1][0] == 1')

contract(G + 'MetaGrid.get_affected_level_tiles', props=['C11'],
         types=dict(bbox='tuple[real,real,real,real]', level='int'),
         returns='tuple[tuple[real,real,real,real],tuple[int,int],list[opt[tuple[int,int,int]]]]',
         requires=['meta_wf(self)', 'valid_level(self.grid, level)'],
         raises={'GridError': 'bbox[2] - bbox[0] <= 0 or bbox[3] - bbox[1] <= 0'},        # S47: only rectangles without area
         ensures=[
             # the block of meta tiles between the meta tile of the south-west and of the north-east corner of the
             # bbox (inset by 1/10 pixel), row by row from the top: every meta tile that the rectangle reaches is listed
             'len(result[2]) == result[1][0] * result[1][1] and result[1][0] >= 1 and result[1][1] >= 1',
             """result[1][0] == (malign(self, col_of(self.grid, bbox[2] - inset(self.grid, bbox, level), level), level, 0)
                               - malign(self, col_of(self.grid, bbox[0] + inset(self.grid, bbox, level), level), level, 0)) // msize(self, level, 0) + 1""",
             """forall(lambda m: implies(0 <= m < len(result[2]), result[2][m] == mi_elem(self,
                    malign(self, col_of(self.grid, bbox[0] + inset(self.grid, bbox, level), level), level, 0),
                    malign(self, row_of(self.grid, bbox[3] - inset(self.grid, bbox, level), level), level, 1),
                    result[1][0], level, m)))""",
             """result[1][1] == (abs(malign(self, row_of(self.grid, bbox[3] - inset(self.grid, bbox, level), level), level, 1)
                                    - malign(self, row_of(self.grid, bbox[1] + inset(self.grid, bbox, level), level), level, 1)) // msize(self, level, 1) + 1)""",
         ],
         must_fail='result[1][0] == 1')


# ---- the walker: bookkeeping of one _walk invocation ----------------------------------------------------------------------
cls(SD + 'SeedProgress', fields=dict(progress='real', level_progress_percentages='list[real]',
                                     level_progresses='opt[list[tuple[int,int]]]', level_progresses_level='int',
                                     progress_str_parts='list[opaque]', old_level_progresses='opt[list[tuple[int,int]]]'))
cls(SD + 'TileWalker', fields=dict(tile_mgr='opaque', task='opaque', worker_pool='opaque', grid='opaque',
                                   seed_progress='obj:mapproxy.seed.seeder:SeedProgress', handle_stale='bool',
                                   handle_uncached='bool', handle_all='bool', work_on_metatiles='bool',
                                   skip_geoms_for_last_levels='int', report_till_level='int', seeded_tiles='opaque',
                                   count='int', progress_logger='opaque', tiles_per_metatile='int'))

ghost('sp_wf', ['p'], """p.level_progresses_level >= 0 and len(p.level_progress_percentages) >= 1
    and implies(p.level_progresses is not None, len(p.level_progresses) >= p.level_progresses_level)
    and implies(p.level_progresses is None, p.level_progresses_level == 0)""")


def _havoc_progress(ex, s):
    """the progress object is modified inside the loop (step_down / step_forward are inlined callees)"""
    sp = s.heap[s.env['self'].ref]['seed_progress']
    decl = ex.reg.class_decl(sp.cls, ex.db)
    from pyvc.values import parse_type, expand_unions
    for f in ('progress', 'level_progress_percentages', 'level_progresses', 'level_progresses_level', 'progress_str_parts'):
        s.heap[sp.ref][f] = ex.fresh(s, expand_unions(parse_type(decl['fields'][f]))[0], 'sp.' + f)


def _walk_item(ex, st, k):
    """one sub tile of the current bbox"""
    import z3
    from pyvc.values import eq, VBool
    n0 = getattr(st, 'iter_start_trace', 0)
    evs_ = st.trace[n0:]
    walks = [e for e in evs_ if e.name == '_walk']
    procs = [e for e in evs_ if e.name == 'process']
    limits = [e for e in evs_ if e.key == 'mapproxy.seed.util:limit_sub_bbox']
    sub = st.env['subtile']
    inter = st.env['intersection']
    none_sub = sub.isnone if hasattr(sub, 'isnone') else z3.BoolVal(False)
    yield ('skipped_subtile_untouched', z3.Implies(none_sub, z3.BoolVal(not walks and not procs)),
           'a sub tile that does not intersect the coverage is neither recursed into nor processed')
    ok = len(walks) <= 1 and len(procs) <= 1
    goal = z3.BoolVal(ok)
    for w in walks:
        # recursion: into the part of the sub tile's bbox inside the current bbox, one level down, and
        # "take everything below" exactly when THIS sub tile is contained in the coverage
        g = z3.BoolVal(bool(limits) and w.args[0] is limits[-1].result)
        g = z3.And(g, eq(w.kwargs.get('current_level'), ex.ev1_nospec(st, __import__('ast').parse('current_level + 1', mode='eval').body)))
        contains = ex.B.py_eq(ex, st, inter, ex.global_name(st, st.module, 'CONTAINS'))
        g = z3.And(g, ex.truth(st, w.kwargs.get('all_subtiles')) == contains)
        goal = z3.And(goal, g)
    yield ('recursion_arguments', goal,
           'recursion uses limit_sub_bbox(cur_bbox, sub_bbox), current_level + 1 and all_subtiles == (intersection == CONTAINS)')
    # ---- added after the mutation audit: the positive half (what MUST happen for an intersecting sub tile) ----------------
    from pyvc.values import to_int, VSeq
    ent = st.entry.env
    levels0, cur = ent['levels'], ent['current_level']
    levels_now = st.env['levels']
    process = ex.truth(st, st.env['process'])
    j = z3.Int('wk_j')
    selected = z3.Exists([j], z3.And(0 <= j, j < levels0.length(), to_int(levels0.elem(j)) == to_int(cur)))
    shift = z3.If(process, 1, 0)
    g_flag = z3.And(process == selected, levels_now.length() == levels0.length() - shift,
                    z3.ForAll([j], z3.Implies(z3.And(0 <= j, j < levels_now.length()),
                                              to_int(levels_now.elem(j)) == to_int(levels0.elem(j + shift)))))
    yield ('level_selection', g_flag,
           'tiles of this level are processed iff current_level is one of the levels still to do; exactly that one entry (the '
           'first) is taken off the list handed to the next level')
    ap = [e for e in evs_ if e.name == 'already_processed']
    deeper = levels_now.length() > 0
    g_rec = z3.Implies(z3.And(z3.Not(none_sub), deeper),
                       z3.BoolVal(len(ap) == 1) if True else z3.BoolVal(True))
    if len(ap) == 1:
        g_rec = z3.And(g_rec, z3.Implies(z3.And(z3.Not(none_sub), deeper), z3.Not(ex.truth(st, ap[0].result)) == z3.BoolVal(len(walks) == 1)))
    g_rec = z3.And(g_rec, z3.Implies(z3.Not(deeper), z3.BoolVal(not walks)))
    yield ('intersecting_subtile_is_descended_into', g_rec,
           'an intersecting sub tile is recursed into exactly when deeper levels remain and the saved progress does not say it '
           'was already completed')
    def is_sub(a):
        return a is sub or a is getattr(sub, 'val', None)
    seen = [e for e in evs_ if e.name == 'contains' and len(e.args) == 2 and is_sub(e.args[1])]
    apl = [e for e in evs_ if e.name == 'appendleft']
    tl = [e for e in evs_ if e.name == 'tile_list']
    h = st.heap[st.env['self'].ref]
    wm, hall = ex.truth(st, h['work_on_metatiles']), ex.truth(st, h['handle_all'])
    fresh_tile = z3.And(z3.Not(none_sub), process, z3.Not(ex.truth(st, seen[0].result)) if seen else z3.BoolVal(False))
    g_proc = z3.And(
        z3.Implies(z3.BoolVal(bool(procs) or bool(apl)), z3.And(process, z3.Not(none_sub), z3.BoolVal(len(seen) == 1))),
        z3.Implies(z3.And(z3.Not(none_sub), process), z3.BoolVal(len(seen) == 1)),
        z3.Implies(fresh_tile, z3.BoolVal(len(apl) == 1 and is_sub(apl[0].args[-1]))),
        z3.Implies(z3.And(fresh_tile, z3.Not(wm)), z3.BoolVal(len(tl) == 1 and is_sub(tl[0].args[-1]))),
        z3.Implies(z3.And(fresh_tile, wm, hall),
                   z3.BoolVal(len(procs) == 1 and isinstance(procs[0].args[0], VSeq))))
    if 'handle_tiles' in st.env and apl:
        # whatever the mode (all / uncached / stale) selected from the sub tile goes to the worker pool - exactly when
        # the selection is non-empty, and as that very list
        ht = st.env['handle_tiles']
        g_proc = z3.And(g_proc, ex.truth(st, ht) == z3.BoolVal(len(procs) == 1))
        for p_ in procs:
            g_proc = z3.And(g_proc, z3.BoolVal(p_.args[0] is ht))
    yield ('selected_subtile_is_processed', g_proc,
           'a sub tile of a selected level that was not handled before is remembered (appendleft) and handed to the worker pool '
           '(its tile list, or itself when working on meta tiles); nothing is processed on unselected levels or twice')


def _interrupted_progress(ex, st, k, st_start, exc):
    """C11 resumability: when the traversal is stopped inside a sub tile (StopProcess out of the recursion), the progress
    path still names that sub tile -- the cleanup after step_down's yield must NOT run, otherwise the final report
    stores [] ("everything done") and a continued run skips the rest"""
    import z3
    if exc.cls != 'StopProcess':
        return
    n0 = getattr(st, 'iter_start_trace', 0)
    if not [e for e in st.trace[n0:] if e.name == '_walk' and e.raised]:
        return
    sp0 = st_start.heap[st_start.heap[st_start.env['self'].ref]['seed_progress'].ref]
    sp1 = st.heap[st.heap[st.env['self'].ref]['seed_progress'].ref]
    yield ('interrupted_progress_kept', sp1['level_progresses_level'].t == sp0['level_progresses_level'].t + 1,
           'StopProcess raised below sub tile i leaves (i, n) on the progress path (level + 1), it is not unwound')


def _walk_prologue(ex, st, post, result):
    """which sub tiles are considered at all: those of get_affected_level_tiles(cur_bbox, current_level), filtered against the
    coverage unless the caller said "all" or the last levels are exempt by configuration"""
    import z3
    from pyvc.values import eq, to_int, VSeq
    gal = [e for i, e in T.evs(st, 'get_affected_level_tiles')]
    fl = [e for i, e in T.evs(st, '_filter_subtiles')]
    ok = len(gal) == 1 and len(fl) == 1 and isinstance(gal[0].result, VSeq) and fl[0].args[-2] is gal[0].result.items[2]
    goal = z3.BoolVal(bool(ok))
    if ok:
        h = st.heap[post.env['self'].ref]
        exempt = post.env['levels'].length() < to_int(h['skip_geoms_for_last_levels'])
        goal = z3.And(goal, eq(gal[0].args[-2], post.env['cur_bbox']), eq(gal[0].args[-1], post.env['current_level']),
                      ex.truth(st, fl[0].args[-1]) == z3.Or(ex.truth(st, post.env['all_subtiles']), exempt))
    yield ('subtiles_are_filtered_against_the_coverage', goal,
           '_filter_subtiles gets the sub tiles of (cur_bbox, current_level) and all_subtiles == (caller said all OR fewer levels left '
           'than skip_geoms_for_last_levels): the intersection test is skipped in no other case')


contract(SD + 'TileWalker._walk', props=['C11', 'C12'],
         types=dict(cur_bbox='tuple[real,real,real,real]', levels='list[int]', current_level='int', all_subtiles='bool'),
         returns='none', default_callee='opaque',
         inline=['step_down', 'step_forward', 'report_progress'], opaque=['_walk', 'already_processed', '_filter_subtiles'],
         opaque_spec={'get_affected_level_tiles': {'returns': 'tuple[opaque,tuple[int,int],opaque]', 'raises': ['GridError'], 'pure': True},
                      '_filter_subtiles': {'returns': 'list[tuple[opt[tuple[int,int,int]],opt[tuple[real,real,real,real]],opaque]]', 'pure': True},
                      '_walk': {'raises': ['StopProcess']}, 'running': {'returns': 'bool', 'pure': True},
                      'already_processed': {'returns': 'bool', 'pure': True},
                      'tile_list': {'returns': 'list[opt[tuple[int,int,int]]]', 'pure': True},
                      'is_cached': {'returns': 'bool', 'pure': True}, 'is_stale': {'returns': 'bool', 'pure': True},
                      'status_symbol': {'pure': True}, 'log_progress': {'pure': True}, 'process': {'pure': True},
                      'appendleft': {'pure': True}, 'cleanup': {'pure': True}},
         requires=['sp_wf(self.seed_progress)', 'current_level >= 0'],
         raises={'StopProcess': True, 'GridError': True, 'ZeroDivisionError': True},
         loops={0: dict(inv=['sp_wf(self.seed_progress)'], havoc=[_havoc_progress],
                        types={'all_subtiles': 'bool', 'sub_bbox': 'opt[tuple[real,real,real,real]]', 'handle_tiles': 'opaque'},
                        body_trace=[_walk_item], raise_trace=[_interrupted_progress])},
         trace=[_walk_prologue])


# ---- TileWalker._filter_subtiles: one answer per sub tile, in order; a sub tile is dropped only if the task does not intersect it ----
def _filter_one(ex, st, k):
    import z3
    from pyvc.values import eq, VSeq, VNone
    evs_ = st.trace[getattr(st, 'iter_start_trace', 0):]
    pre = st.iter_start_state
    sub = st.env['subtiles'].elem(k)
    y0, y1 = pre.yielded, st.yielded
    out = y1.elem(y0.length())
    mt = [e for e in evs_ if e.name == 'meta_tile']
    it = [e for e in evs_ if e.name == 'intersects']
    alls = ex.truth(st, st.env['all_subtiles'])
    isnone = sub.isnone if hasattr(sub, 'isnone') else z3.BoolVal(isinstance(sub, VNone))
    g = y1.length() == y0.length() + 1
    dropped = z3.And(out.items[0].isnone, out.items[1].isnone, out.items[2].isnone)
    if not mt:
        g = z3.And(g, isnone, dropped, z3.BoolVal(not it))
    else:
        s_in = sub.val if hasattr(sub, 'isnone') else sub
        ok = len(mt) == 1 and len(it) <= 1
        g = z3.And(g, z3.Not(isnone), z3.BoolVal(bool(ok)), eq(mt[0].args[-1], s_in))
        bbox = ex.opaque_field_at(st, mt[0], mt[0].result, 'bbox') if ok else None
        if ok and it:
            code = it[0].result.t
            kept = z3.And(z3.Not(out.items[0].isnone), eq(out.items[0].val, s_in), z3.Not(out.items[1].isnone), eq(out.items[1].val, bbox),
                          z3.Not(out.items[2].isnone), out.items[2].val.t == code)
            g = z3.And(g, z3.Not(alls), eq(it[0].args[-1], bbox), z3.If(code != 0, kept, dropped))
        elif ok:
            # all_subtiles: no geometry test, the sub tile is kept as CONTAINS (-1)
            kept = z3.And(z3.Not(out.items[0].isnone), eq(out.items[0].val, s_in), z3.Not(out.items[1].isnone), eq(out.items[1].val, bbox),
                          z3.Not(out.items[2].isnone), out.items[2].val.t == -1)
            g = z3.And(g, alls, kept)
    yield ('subtile_kept_iff_it_intersects_the_task', g,
           'exactly one answer per sub tile, in order: (None, None, None) for a sub tile outside the grid or one whose meta-tile '
           'bbox the task does not intersect (intersects() == NONE == 0); otherwise (subtile, its meta-tile bbox, the intersection '
           'code) - without geometry test, as CONTAINS, when all_subtiles is set')


contract(SD + 'TileWalker._filter_subtiles', props=['C11', 'C12'],
         types=dict(subtiles='list[opt[tuple[int,int,int]]]', all_subtiles='bool'),
         returns='list[tuple[opt[tuple[int,int,int]],opt[opaque],opt[int]]]', default_callee='opaque',
         opaque_fields={'bbox': 'opaque'}, stable_fields=['bbox'],
         opaque_spec={'meta_tile': {'pure': True}, 'intersects': {'returns': 'int', 'pure': True}},
         ensures=['len(result) == len(subtiles)'],
         loops={0: dict(yield_type='tuple[opt[tuple[int,int,int]],opt[opaque],opt[int]]', inv=['len(yielded) == _k'],
                        body_trace=[_filter_one])})


# ---- SeedTask / CleanupTask.intersects: the three-valued answer the walker relies on -----------------------------------------------
def _task_intersection(ex, st, post, result):
    import z3
    from pyvc.values import eq
    h = st.heap[post.env['self'].ref]
    cov, grid = h['coverage'], h['grid']
    bbox = post.env['bbox']
    ct = [e for i, e in T.evs(st, 'contains')]
    it = [e for i, e in T.evs(st, 'intersects')]
    ok = len(ct) == 1 and ct[0].recv is not None and ct[0].recv.t.eq(cov.t) and len(ct[0].args) == 2 and ct[0].args[0] is bbox
    g = z3.BoolVal(bool(ok))
    if ok:
        srs = ex.opaque_field_at(st, ct[0], grid, 'srs')
        g = z3.And(g, eq(ct[0].args[1], srs))
        inside = ex.truth(st, ct[0].result)
        if it:
            ok2 = len(it) == 1 and it[0].recv.t.eq(cov.t) and len(it[0].args) == 2 and it[0].args[0] is bbox
            g = z3.And(g, z3.BoolVal(bool(ok2)), eq(it[0].args[1], srs) if ok2 else z3.BoolVal(False), z3.Not(inside),
                       result.t == z3.If(ex.truth(st, it[0].result), z3.IntVal(1), z3.IntVal(0)))
        else:
            g = z3.And(g, inside, result.t == -1)
    yield ('contains_intersects_none', g,
           'CONTAINS (-1) iff the task coverage contains the bbox, else INTERSECTS (1) iff it intersects it, else NONE (0); both '
           'tests are made with the bbox that was passed and the SRS of the task grid')


for _cls in ('SeedTask', 'CleanupTask'):
    cls(SD + _cls, fields=dict(coverage='opaque', grid='opaque'))
    contract(SD + _cls + '.intersects', props=['C11', 'C12'],
             types=dict(bbox='opaque'), returns='int', default_callee='opaque',
             opaque_fields={'srs': 'opaque'}, stable_fields=['srs'],
             opaque_spec={'contains': {'returns': 'bool', 'pure': True}, 'intersects': {'returns': 'bool', 'pure': True}},
             trace=[_task_intersection])


# ---- TileWalker.walk: the traversal starts at the extent of the task coverage, with all levels of the task ---------------------------
def _walk_entry(ex, st, post, result):
    import z3
    from pyvc.values import eq
    h = st.heap[post.env['self'].ref]
    w = [e for i, e in T.evs(st, '_walk', 'TileWalker._walk')]
    ap = [e for i, e in T.evs(st, 'already_processed', 'SeedProgress.already_processed')]
    bf = [e for i, e in T.evs(st, 'bbox_for')]
    ok = len(ap) == 1 and len(bf) == 1 and len(w) <= 1
    g = z3.BoolVal(bool(ok))
    if ok:
        done = ex.truth(st, ap[0].result)
        g = z3.And(g, done == z3.BoolVal(not w))
        for e in w:
            a = [x for x in e.args if getattr(x, 'ref', None) != post.env['self'].ref]
            okw = len(a) == 2 and a[0] is bf[0].result
            g = z3.And(g, z3.BoolVal(bool(okw)))
            if okw:
                g = z3.And(g, eq(a[1], ex.opaque_field_at(st, e, h['task'], 'levels')),
                           eq(bf[0].args[-1], ex.opaque_field_at(st, bf[0], ex.opaque_field_at(st, bf[0], h['tile_mgr'], 'grid'), 'srs')))
    yield ('walk_covers_the_task_extent_and_levels', g,
           'unless the saved progress says the task is complete, the walk starts once at bbox_for(grid srs) of the extent of the '
           'task coverage, with the full level list of the task and all_subtiles False; an interruption (StopProcess) ends it quietly')


contract(SD + 'TileWalker.walk', props=['C11'],
         types={}, returns='none', default_callee='opaque',
         opaque_fields={'levels': 'opaque', 'grid': 'opaque', 'srs': 'opaque', 'coverage': 'opaque', 'extent': 'opaque'},
         stable_fields=['levels', 'grid', 'srs', 'coverage', 'extent'],
         opaque_spec={'_walk': {'raises': ['StopProcess']}, 'already_processed': {'returns': 'bool', 'pure': True}, 'bbox_for': {'pure': True},
                      'step_forward': {}, 'report_progress': {}},
         opaque=['_walk', 'already_processed', 'step_forward', 'report_progress'],
         requires=['self.handle_stale or self.handle_uncached'],
         trace=[_walk_entry])


# ---- seed_task: what is (re)created is decided by the task: refresh threshold, refresh_all, skip_uncached -----------------------------
def _seed_task_setup(ex, st, post, result):
    import z3
    from pyvc.values import eq
    task = post.env['task']
    tw = [e for i, e in T.evs(st, 'TileWalker')]
    wk = [e for i, e in T.evs(st, 'walk')]
    stp = [e for i, e in T.evs(st, 'stop')]
    if not tw:
        from pyvc.values import ObjSort
        cov = ex.opaque_field(st, task, 'coverage')
        yield ('task_skipped_only_with_empty_coverage', z3.Function('opaque_is_false', ObjSort, z3.BoolSort())(cov.t),
               'a task is skipped only when its coverage is literally False')
        return
    kw = tw[0].kwargs
    skip = ex.truth(st, post.env['skip_uncached'])
    ok = all(k in kw for k in ('handle_uncached', 'handle_stale', 'handle_all', 'skip_geoms_for_last_levels', 'seed_progress', 'work_on_metatiles')) \
        and tw[0].args[0] is task and len(wk) == 1 and wk[0].recv is not None and wk[0].recv.t.eq(tw[0].result.t)
    g = z3.BoolVal(bool(ok))
    if ok:
        g = z3.And(g, ex.truth(st, kw['handle_uncached']) == z3.Not(skip), ex.truth(st, kw['handle_stale']) == skip,
                   eq(kw['handle_all'], ex.opaque_field_at(st, tw[0], task, 'refresh_all')),
                   z3.BoolVal(kw['skip_geoms_for_last_levels'] is post.env['skip_geoms_for_last_levels'] and kw['seed_progress'] is post.env['seed_progress']))
    yield ('walker_handles_what_the_task_asks_for', g,
           'uncached tiles are created unless skip_uncached, stale ones refreshed only with skip_uncached, everything with '
           'refresh_all; the walker gets the saved progress and the configured skip_geoms_for_last_levels; walk() is called once')
    sets = [e for e in st.trace if e.name == 'setattr:_expire_timestamp']
    rt = ex.opaque_field(st, task, 'refresh_timestamp')
    g2 = z3.Not(rt.isnone) == z3.BoolVal(len(sets) == 1)
    for e in sets:
        tm = ex.opaque_field_at(st, e, task, 'tile_manager')
        g2 = z3.And(g2, z3.BoolVal(e.recv is not None and e.recv.t.eq(tm.t)), eq(e.args[1], rt.val))
    yield ('refresh_threshold_of_the_task_reaches_the_tile_manager', g2,
           'a task with a refresh timestamp sets exactly that value as the expire timestamp of its tile manager (C13), before walking')
    yield ('worker_pool_always_stopped', z3.BoolVal(len(stp) >= 1), 'the worker pool is stopped on every way out')


contract(SD + 'seed_task', props=['C11'],
         types=dict(task='opaque', concurrency='opaque', dry_run='opaque', skip_geoms_for_last_levels='opaque', progress_logger='opaque',
                    seed_progress='opaque', skip_uncached='bool'), returns='none', default_callee='opaque',
         opaque_fields={'coverage': 'opaque', 'refresh_timestamp': 'opt[real]', 'tile_manager': 'opaque', 'refresh_all': 'opaque',
                        'rescale_tiles': 'opaque'},
         stable_fields=['coverage', 'refresh_timestamp', 'tile_manager', 'refresh_all', 'rescale_tiles'],
         opaque_spec={'TileWorkerPool': {'pure': True}, 'TileWalker': {'pure': True}, 'walk': {'raises': ['KeyboardInterrupt']}, 'stop': {}},
         raises={'KeyboardInterrupt': True},
         trace=[_seed_task_setup])


# ---- the key under which the progress of a task is saved identifies the task: seed name, cache, GRID and levels -------------------------
def _progress_key(names):
    def clause(ex, st, post, result):
        import z3
        from pyvc.values import VSeq
        h = st.heap[post.env['self'].ref]
        md = h['md']
        ok = isinstance(result, VSeq) and result.concrete and len(result.items) >= len(names)
        if ok:
            for k, name in names:
                t = getattr(result.items[k], 't', None)
                if name is None:
                    continue
                ok = ok and t is not None and z3.is_app(t) and t.decl().name().startswith('opaque_item_%s_' % abs(hash(('s', name)))) \
                    and t.num_args() == 1 and t.arg(0).eq(md.t)
        yield ('progress_key_names_seed_cache_and_grid', z3.BoolVal(bool(ok)),
               "the key is (.., md['name'], md['cache_name'], md['grid_name'], ..): two tasks of one seed that differ in cache OR grid "
               "never share (and so never skip on) each other's saved progress")
    return clause


cls(SD + 'SeedTask', fields=dict(coverage='opaque', grid='opaque', md='opaque', levels='opaque'))
cls(SD + 'CleanupTask', fields=dict(coverage='opaque', grid='opaque', md='opaque', levels='opaque'))
contract(SD + 'SeedTask.id', props=['C11'], types={}, returns='opaque', default_callee='opaque',
         opaque_spec={'tuple': {'pure': True}},
         trace=[_progress_key([(0, 'name'), (1, 'cache_name'), (2, 'grid_name')])])
contract(SD + 'CleanupTask.id', props=['C11', 'C12'], types={}, returns='opaque', default_callee='opaque',
         trace=[_progress_key([(0, None), (1, 'name'), (2, 'cache_name'), (3, 'grid_name')])])
