"""Builders: counter-model (JSON) -> real mapproxy objects.  Used only by the replayer (/venv/bin/python)."""
from pyvc.api import builder


def _gridlist(j, conv):
    from mapproxy.grid import NamedGridList
    vals = conv(j['values'])
    names = list(j['names']['$tuple'] if isinstance(j['names'], dict) else j['names'])
    vals = list(vals)
    if not (len(set(names)) == len(names) == len(vals) and all(isinstance(n, str) for n in names)):
        names = ['%02d' % i for i in range(len(vals))]
    return NamedGridList(list(zip(names, vals)))


def _tile_grid(j, conv):
    from mapproxy.grid import TileGrid
    from mapproxy.srs import SRS
    res = _gridlist(j['resolutions'], conv)
    g = TileGrid.__new__(TileGrid)
    try:
        c = TileGrid(srs=SRS(3857), bbox=conv(j['bbox']), tile_size=conv(j['tile_size']),
                     res=[res[i] for i in range(len(res))], origin=j['origin'])
        g.__dict__.update(c.__dict__)
    except Exception:
        g.srs = SRS(3857)
    g.bbox = conv(j['bbox'])
    g.tile_size = conv(j['tile_size'])
    g.origin = j['origin']
    g.flipped_y_axis = j['flipped_y_axis']
    g.levels = j['levels']
    g.resolutions = res
    want = _gridlist(j['grid_sizes'], conv)
    constructed = getattr(g, 'grid_sizes', None)
    same = constructed is not None and len(constructed) == len(want) and \
        all(tuple(constructed[i]) == tuple(want[i]) for i in range(len(want)))
    g.grid_sizes = want
    g._synthetic_state = not same
    g.stretch_factor = conv(j.get('stretch_factor', 1.15))
    g.max_shrink_factor = conv(j.get('max_shrink_factor', 4.0))
    tr = conv(j.get('threshold_res'))
    g.threshold_res = list(tr) if tr else None
    g.is_geodetic = j.get('is_geodetic', False)
    g.name = j.get('name')
    return g


def _meta_grid(j, conv):
    from mapproxy.grid import MetaGrid
    return MetaGrid(_tile_grid(j['grid'], conv), meta_size=conv(j['meta_size']), meta_buffer=j['meta_buffer'])


builder('$gridlist', _gridlist)
builder('mapproxy.grid:TileGrid', _tile_grid)
builder('mapproxy.grid:MetaGrid', _meta_grid)


# ---- random instance generators (pyvc.fuzz) ------------------------------------------------------------------
from pyvc.api import generator  # noqa


def _real(fr):
    from fractions import Fraction
    fr = Fraction(fr)
    return {'$real': '%d/%d' % (fr.numerator, fr.denominator)}


def _gen_tile_grid(gen, rng):
    """a reachable TileGrid: built by the real constructor from a random configuration"""
    from fractions import Fraction
    from mapproxy.grid import TileGrid
    from mapproxy.srs import SRS
    kind = rng.random()
    if kind < 0.3:
        bbox = (-20037508.342789244, -20037508.342789244, 20037508.342789244, 20037508.342789244)
    elif kind < 0.5:
        bbox = (-180.0, -90.0, 180.0, 90.0)
    else:
        x0 = rng.choice([0, -10, 5, 3.5, -1000.25, 400000])
        y0 = rng.choice([0, -7, 2, 1.75, 5000000])
        bbox = (x0, y0, x0 + rng.choice([10, 256, 1000, 1024.5, 77.7]), y0 + rng.choice([7, 256, 1000, 333.3, 512]))
    ts = rng.choice([(256, 256), (256, 256), (512, 256), (256, 128), (2, 2), (3, 5), (1, 1)])
    width = bbox[2] - bbox[0]
    r0 = max(width / ts[0], (bbox[3] - bbox[1]) / ts[1]) * rng.choice([1, 1, 0.5, 1.3])
    n = rng.randint(1, 6)
    fac = rng.choice([2.0, 2.0, 1.4142135623730951, 1.5, 3.0])
    res = [r0 / fac ** i for i in range(n)]
    if rng.random() < 0.3:
        res = sorted({float(rng.choice([1000, 500, 250, 100, 75, 12.5, 1, 0.375, 0.5])) for _ in range(n)}, reverse=True)
    origin = rng.choice(['ll', 'ul', 'll', 'ul', 'sw', 'nw'])
    g = TileGrid(srs=SRS(3857), bbox=bbox, tile_size=ts, res=list(res), origin=origin,
                 stretch_factor=rng.choice([1.15, 1.0, 1.5]), max_shrink_factor=rng.choice([4.0, 2.0]))
    return tile_grid_to_json(g)


def tile_grid_to_json(g):
    names = list(g.resolutions._names)
    return {'$cls': 'mapproxy.grid:TileGrid',
            'bbox': {'$tuple': [_real(v) for v in g.bbox]}, 'tile_size': {'$tuple': list(g.tile_size)},
            'levels': g.levels,
            'resolutions': {'$cls': '$gridlist', 'values': {'$tuple': [_real(g.resolutions[i]) for i in range(g.levels)]},
                            'names': {'$tuple': names}},
            'grid_sizes': {'$cls': '$gridlist', 'values': {'$tuple': [{'$tuple': list(g.grid_sizes[i])} for i in range(g.levels)]},
                           'names': {'$tuple': names}},
            'flipped_y_axis': g.flipped_y_axis, 'origin': g.origin, 'stretch_factor': _real(g.stretch_factor),
            'max_shrink_factor': _real(g.max_shrink_factor), 'threshold_res': None, 'is_geodetic': False, 'name': None}


def _gen_meta_grid(gen, rng):
    return {'$cls': 'mapproxy.grid:MetaGrid', 'grid': _gen_tile_grid(gen, rng),
            'meta_size': {'$tuple': list(rng.choice([(1, 1), (2, 2), (2, 2), (4, 4), (4, 2), (2, 3), (8, 8)]))},
            'meta_buffer': rng.choice([0, 0, 10, 80, 200, 1])}


generator('mapproxy.grid:TileGrid', _gen_tile_grid)
generator('mapproxy.grid:MetaGrid', _gen_meta_grid)


def _tile_service_grid(j, conv):
    from mapproxy.service.tile import TileServiceGrid
    sg = TileServiceGrid.__new__(TileServiceGrid)
    sg.grid = _tile_grid(j['grid'], conv)
    sg.profile = j.get('profile') or 'local'
    sg.srs_name = j.get('srs_name') or 'EPSG:3857'
    sg._skip_first_level = j['_skip_first_level']
    sg._skip_odd_level = j['_skip_odd_level']
    return sg


builder('mapproxy.service.tile:TileServiceGrid', _tile_service_grid)


def _res_range(j, conv):
    from mapproxy.grid import ResolutionRange
    r = ResolutionRange.__new__(ResolutionRange)
    r.min_res = conv(j.get('min_res'))
    r.max_res = conv(j.get('max_res'))
    return r


builder('mapproxy.grid:ResolutionRange', _res_range)


def _map_query(j, conv):
    from mapproxy.layer import MapQuery
    dims = j.get('dimensions')
    if isinstance(dims, dict) and '$pydict' in dims:
        dims = dict(dims['$pydict'])
    elif not isinstance(dims, dict) or any(k.startswith('$') for k in dims):
        from pyvc.replay import NoReplay
        raise NoReplay('symbolic dimensions dict')
    return MapQuery(None, None, None, dimensions=dims)


builder('mapproxy.layer:MapQuery', _map_query)


# ---- real compact caches for the bounded twin of CompactCacheBase.load_tiles (C05) ---------------------------------------------
def _tile_bytes(c):
    return ('tile-%d-%d-%d|' % tuple(c)).encode() * 3


def _compact_cache(j, conv):
    import atexit, shutil, tempfile
    from io import BytesIO
    from mapproxy.cache import compact
    from mapproxy.cache.tile import Tile
    from mapproxy.image import ImageSource
    d = tempfile.mkdtemp(prefix='pyvc-compact.')
    atexit.register(shutil.rmtree, d, True)
    cache = (compact.CompactCacheV1 if j['version'] == 1 else compact.CompactCacheV2)(d)
    for c in j['stored']:
        assert cache.store_tile(Tile(tuple(c), ImageSource(BytesIO(_tile_bytes(c)))))
    # (history for C19: overwrites and removes leave unused space behind, so that defragmentation has something to do)
    for c in j.get('overwritten', []):
        assert cache.store_tile(Tile(tuple(c), ImageSource(BytesIO(_tile_bytes(c) * 2))))
    for c in j.get('removed', []):
        cache.remove_tile(Tile(tuple(c)))
    if j.get('snapshot'):
        from contracts.c05_compact import _cache_view
        cache._pyvc_before = _cache_view(cache)
    return cache


def _tile_list(j, conv):
    from mapproxy.cache.tile import Tile
    return [Tile(tuple(c)) for c in j['coords']]


builder('$compact_cache', _compact_cache)
builder('$tile_list', _tile_list)
