#!/bin/sh
# run the hand-written single-line mutations under /verif/selftest/<Cxx>/*.diff against the check of that property
# (scratch copies only).  Every one of them breaks the property and must be reported; prints one line per mutation.
cd ${VERIF_ROOT:-/verif} || exit 1
miss=0
for f in selftest/${1:-C*}/*.diff; do
  prop=$(basename $(dirname $f))
  out=$(TRY_TIMEOUT=1500 tools/try_patch.sh $(pwd)/$f $prop 2>&1); rc=$?
  v=$(echo "$out" | grep -m1 '^VIOLATION' | sed 's/.*obligation=\([^ ]*\).*/\1/')
  if [ $rc = 1 ]; then echo "detected $f $v"; else echo "MISSED   $f (exit $rc)"; miss=1; fi
done
exit $miss
