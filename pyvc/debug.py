"""developer tool: show the failing state of an obligation.  python3-vt -m pyvc.debug <modules,> <target> <oid substring>"""
import importlib, sys, z3
from .api import REG
from .progdb import ProgDB
from . import verify, smt
from .engine import Executor
from .verify import concretize


def main():
    for m in sys.argv[1].split(','):
        importlib.import_module(m)
    key, sub = sys.argv[2], sys.argv[3]
    import os
    db = ProgDB(os.environ.get('PYVC_REPO', '/repo'))
    captured = []
    orig = smt.solve

    def spy(pc, goal, timeout_ms, quick_ms=3000):
        r = orig(pc, goal, timeout_ms, quick_ms)
        captured.append((pc, goal, r))
        return r
    smt.solve = spy
    orig_oblige = Executor.oblige
    vcs = []

    def ob(self, st, goal, oid, kind, where='', info=None):
        vcs.append((oid, st, goal))
        return orig_oblige(self, st, goal, oid, kind, where, info)
    Executor.oblige = ob
    verify.verify_target(db, REG, key, timeout_ms=20000)
    for oid, st, goal in vcs:
        if sub not in oid:
            continue
        s = z3.Solver(); s.set('timeout', 20000); s.add(*st.pc); s.add(z3.Not(goal))
        r = s.check()
        if r != z3.sat:
            continue
        m = s.model()
        print('==', oid, 'SAT; trace:', [e.name for e in st.trace][-25:])
        for n, v in st.env.items():
            try:
                print('  ', n, '=', str(concretize(m, v, st))[:300])
            except Exception as e:
                print('  ', n, '?', e)
        for r_, flds in st.heap.items():
            if st.objcls.get(r_, '').endswith('SeedProgress') or len(st.heap) < 4:
                print('   heap', r_, st.objcls.get(r_), {f: str(concretize(m, v, st))[:120] for f, v in flds.items() if not f.startswith('$')})
        print('   pc tail:', [str(z3.simplify(c))[:160] for c in st.pc[-14:]])
        print('  goal:', str(z3.simplify(goal))[:1500])
        break


main()
