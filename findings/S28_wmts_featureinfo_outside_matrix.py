"""
C16 / defect 1: WMTS GetFeatureInfo does not check the tile address against the
tile matrix.  A GetFeatureInfo request (RESTful or KVP) whose TileCol/TileRow lie
outside the advertised matrix is not refused with TileOutOfRange; MapProxy computes
the bbox of the non-existing tile and sends a GetFeatureInfo request for it to the
upstream WMS.

Run:  cd /tmp/wt/hunt/C16 && /venv/bin/python demo.py
Exit code 1 while the defect exists, 0 once it is fixed.
"""
import os
import sys
sys.path.insert(0, os.getcwd())

import io
import logging
import re
import shutil
import tempfile
import threading
from http.server import BaseHTTPRequestHandler, HTTPServer
from urllib.parse import urlparse, parse_qs

from PIL import Image

logging.disable(logging.CRITICAL)

UPSTREAM = []


class Upstream(BaseHTTPRequestHandler):
    def log_message(self, *a):
        pass

    def do_GET(self):
        UPSTREAM.append(self.path)
        q = dict((k.lower(), v[0]) for k, v in parse_qs(urlparse(self.path).query).items())
        if q.get('request', '').lower() == 'getfeatureinfo':
            body, ctype = b'feature info from upstream', 'text/plain'
        else:
            buf = io.BytesIO()
            Image.new('RGB', (int(q.get('width', 256)), int(q.get('height', 256)))).save(buf, 'png')
            body, ctype = buf.getvalue(), 'image/png'
        self.send_response(200)
        self.send_header('Content-type', ctype)
        self.send_header('Content-length', str(len(body)))
        self.end_headers()
        self.wfile.write(body)


CONFIG = """
services:
  wmts:
    restful: true
    kvp: true
    featureinfo_formats:
      - mimetype: text/plain
        suffix: txt
layers:
  - name: lyr
    title: lyr
    sources: [c]
caches:
  c:
    grids: [g]
    sources: [w]
    cache:
      type: file
      directory: %(tmp)s/cache
sources:
  w:
    type: wms
    wms_opts:
      featureinfo: true
    req:
      url: http://127.0.0.1:%(port)d/service
      layers: foo
grids:
  g:
    srs: 'EPSG:25832'
    bbox: [300000, 5500000, 400000, 5600000]
    origin: nw
    res: [400, 200, 100, 50]
"""


def main():
    from mapproxy.wsgiapp import make_wsgi_app
    from webtest import TestApp

    srv = HTTPServer(('127.0.0.1', 0), Upstream)
    threading.Thread(target=srv.serve_forever, daemon=True).start()
    tmp = tempfile.mkdtemp(prefix='c16_1_')
    failures = []
    try:
        conf = os.path.join(tmp, 'mapproxy.yaml')
        with open(conf, 'w') as f:
            f.write(CONFIG % dict(tmp=tmp, port=srv.server_port))
        app = TestApp(make_wsgi_app(conf))

        caps = app.get('/wmts/1.0.0/WMTSCapabilities.xml').text
        sizes = list(zip(map(int, re.findall(r'<MatrixWidth>(\d+)', caps)),
                         map(int, re.findall(r'<MatrixHeight>(\d+)', caps))))
        print('advertised matrix sizes (level: w x h):',
              ', '.join('%d: %dx%d' % (i, w, h) for i, (w, h) in enumerate(sizes)))

        def rest(z, x, y):
            return '/wmts/lyr/g/%d/%d/%d/10/10.txt' % (z, x, y)

        def kvp(z, x, y):
            return ('/service?service=WMTS&request=GetFeatureInfo&version=1.0.0&layer=lyr&style='
                    '&tilematrixset=g&tilematrix=%d&tilecol=%d&tilerow=%d&format=image/png'
                    '&infoformat=text/plain&i=10&j=10' % (z, x, y))

        # control: a tile inside the matrix is answered from upstream
        del UPSTREAM[:]
        resp = app.get(rest(0, 0, 0))
        assert resp.status_int == 200 and len(UPSTREAM) == 1, 'control request failed'
        print('control  %-40s -> %d, %d upstream request(s)' % (rest(0, 0, 0), resp.status_int, len(UPSTREAM)))

        w1, h1 = sizes[1]
        outside = [
            ('rest', rest, (0, 1, 0)),          # first invalid column of level 0
            ('rest', rest, (0, 0, 1)),          # first invalid row of level 0
            ('rest', rest, (1, w1, h1 - 1)),    # just outside level 1
            ('rest', rest, (1, -1, 0)),         # negative column
            ('rest', rest, (0, 10 ** 12, 10 ** 12)),
            ('kvp', kvp, (0, 1, 0)),
            ('kvp', kvp, (1, w1 - 1, h1)),
            ('kvp', kvp, (2, 77, 77)),
            ('kvp', kvp, (0, -3, -3)),
        ]
        for kind, mk, (z, x, y) in outside:
            del UPSTREAM[:]
            url = mk(z, x, y)
            resp = app.get(url, expect_errors=True)
            bad = resp.status_int < 400 or len(UPSTREAM) > 0
            print('%s %-4s GetFeatureInfo tile (col=%d,row=%d,matrix=%d) outside matrix -> HTTP %d, %d upstream request(s)'
                  % ('FAIL' if bad else 'ok  ', kind, x, y, z, resp.status_int, len(UPSTREAM)))
            if bad:
                if UPSTREAM:
                    q = parse_qs(urlparse(UPSTREAM[0]).query)
                    print('       upstream was asked: REQUEST=%s BBOX=%s' % (q.get('request'), q.get('bbox')))
                failures.append(url)
    finally:
        srv.shutdown()
        srv.server_close()
        shutil.rmtree(tmp, ignore_errors=True)

    if failures:
        print('\nPROPERTY C16 VIOLATED: %d WMTS GetFeatureInfo request(s) for tile addresses outside the '
              'advertised matrix were not refused and/or were forwarded to the upstream source.' % len(failures))
        return 1
    print('\nall out-of-matrix GetFeatureInfo requests were refused without an upstream request')
    return 0


if __name__ == '__main__':
    sys.exit(main())
