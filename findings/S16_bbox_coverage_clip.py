"""S16: a source coverage given as bbox with clip: true crashes the per-source clipping (mask_image)"""
import sys
from mapproxy.util.coverage import BBOXCoverage
from mapproxy.srs import SRS
from mapproxy.image.mask import mask_image
from PIL import Image
bad = []
cov = BBOXCoverage([0, 0, 10, 10], SRS(4326), clip=True)
img = Image.new('RGBA', (100, 100), (255, 0, 0, 255))
try:
    r = mask_image(img, (5, 5, 15, 15), SRS(4326), cov)
    # request bbox 5..15: the coverage ends at 10 = pixel 50: lower-left quadrant stays, the rest becomes transparent
    inside, outside = r.getpixel((10, 90)), r.getpixel((90, 10))
    if inside[3] != 255 or outside[3] != 0:
        bad.append('wrong clipping: inside %r outside %r' % (inside, outside))
except Exception as e:
    bad.append('mask_image raised %s: %s' % (type(e).__name__, e))
try:
    r = mask_image(img, (20, 20, 30, 30), SRS(4326), cov)      # no overlap at all: everything is outside
    if r.getpixel((50, 50))[3] != 0:
        bad.append('disjoint request not fully masked')
except Exception as e:
    bad.append('mask_image (disjoint) raised %s: %s' % (type(e).__name__, e))
print('\n'.join(bad) or 'ok')
sys.exit(1 if bad else 0)
