"""Type descriptors of the sidecar contracts (no z3 import: also used under /venv/bin/python)."""

# ---------------------------------------------------------------------------------------------------------
# type descriptors:  int real bool str none blob opaque  tuple[a,b,..]  seq[T]  list[T]  opt[T]  T|None
#                    A|B (non-None unions: forked)   obj:Name   gridlist[T]

class Ty(object):
    def __init__(self, kind, args=(), name=None):
        self.kind = kind
        self.args = tuple(args)
        self.name = name

    def __repr__(self):
        if self.kind == 'obj':
            return 'obj:%s' % self.name
        if self.args:
            return '%s[%s]' % (self.kind, ','.join(map(repr, self.args)))
        return self.kind


def parse_type(s):
    if isinstance(s, Ty):
        return s
    toks = []
    cur = ''
    for ch in s.replace(' ', ''):
        if ch in '[],|':
            if cur:
                toks.append(cur)
                cur = ''
            toks.append(ch)
        else:
            cur += ch
    if cur:
        toks.append(cur)
    pos = [0]

    def peek():
        return toks[pos[0]] if pos[0] < len(toks) else None

    def eat(t=None):
        x = toks[pos[0]]
        if t is not None and x != t:
            raise ValueError('type syntax: expected %s got %s in %r' % (t, x, s))
        pos[0] += 1
        return x

    def atom():
        name = eat()
        if name.startswith('obj:'):
            return Ty('obj', name=name[4:])
        if peek() == '[':
            eat('[')
            args = [union()]
            while peek() == ',':
                eat(',')
                args.append(union())
            eat(']')
            if name == 'list':
                return Ty('seq', args, name='list')
            return Ty(name, args)
        if name == 'None':
            name = 'none'
        if name == 'float':
            name = 'real'
        return Ty(name)

    def union():
        alts = [atom()]
        while peek() == '|':
            eat('|')
            alts.append(atom())
        if len(alts) == 1:
            return alts[0]
        nn = [a for a in alts if a.kind != 'none']
        has_none = len(nn) != len(alts)
        inner = nn[0] if len(nn) == 1 else Ty('union', nn)
        return Ty('opt', [inner]) if has_none else inner

    t = union()
    if pos[0] != len(toks):
        raise ValueError('type syntax: trailing tokens in %r' % s)
    return t


def expand_unions(t):
    """list of union-free types (non-None unions are forked by the caller)."""
    if t.kind == 'union':
        out = []
        for a in t.args:
            out.extend(expand_unions(a))
        return out
    if not t.args:
        return [t]
    combos = [[]]
    for a in t.args:
        alts = expand_unions(a)
        combos = [c + [x] for c in combos for x in alts]
    return [Ty(t.kind, c, t.name) for c in combos]
