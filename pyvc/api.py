"""what sidecar contract files import"""
from .registry import Registry

REG = Registry()
contract = REG.contract
cls = REG.cls
ghost = REG.ghost
loop = REG.loop
lemma = REG.lemma
exception = REG.exception
builder = REG.builder
generator = REG.generator
finding_class = REG.finding_class
