"""Witness of finding S9 (C02): WMTS on a res_factor sqrt2 grid serves TileMatrix n from internal level 2n and
refuses the upper half of the advertised matrices.  exit 1 = reproduces, exit 0 = does not."""
import os, sys, tempfile, shutil, re
from mapproxy.config.loader import load_configuration
from mapproxy.wsgiapp import MapProxyApp
from webtest import TestApp
import mapproxy.client.http as http

tmp = tempfile.mkdtemp()
conf = """
services:
  wmts:
  tms:
layers:
  - name: l
    title: l
    sources: [c]
caches:
  c:
    grids: [g]
    sources: [s]
    meta_size: [1, 1]
    meta_buffer: 0
    cache: {type: file, directory: %s/cache}
sources:
  s:
    type: wms
    req: {url: http://localhost:1/service, layers: a}
grids:
  g:
    srs: 'EPSG:4326'
    bbox: [-180, -90, 180, 90]
    res_factor: sqrt2
    origin: nw
    num_levels: 8
""" % tmp
open(tmp + '/m.yaml', 'w').write(conf)
seen = []
class FakeResp(object):
    def __init__(self):
        from mapproxy.image import BlankImageSource
        from mapproxy.image.opts import ImageOptions
        self.data = BlankImageSource((256, 256), ImageOptions(format='image/png')).as_buffer().read()
        self.headers = {'Content-type': 'image/png'}
        self.code = 200
    def read(self): return self.data
def fake_open(self, url, data=None, method=None):
    seen.append(url); return FakeResp()
http.HTTPClient.open = fake_open
app = TestApp(MapProxyApp(load_configuration(tmp + '/m.yaml').configured_services(), load_configuration(tmp + '/m.yaml').base_config))
caps = app.get('/service?SERVICE=WMTS&REQUEST=GetCapabilities').text
mats = re.findall(r'<TileMatrix>\s*<ows:Identifier>(\d+)</ows:Identifier>\s*<ScaleDenominator>([0-9.e+-]+)</ScaleDenominator>', caps)
bad = 0
for ident, scale in mats[:6]:
    res = float(scale) * 0.00028 / (111319.4907932736)      # meters per degree for EPSG:4326 in mapproxy
    del seen[:]
    r = app.get('/service?SERVICE=WMTS&REQUEST=GetTile&VERSION=1.0.0&LAYER=l&STYLE=&TILEMATRIXSET=g&TILEMATRIX=%s&TILEROW=0&TILECOL=0&FORMAT=image/png' % ident, expect_errors=True)
    bbox = None
    for u in seen:
        m = re.search(r'BBOX=([-0-9.,e]+)', u, re.I)
        if m: bbox = [float(v) for v in m.group(1).split(',')]
    if bbox is None:
        print('matrix', ident, 'status', r.status_int, 'no upstream request'); bad += 1; continue
    served_res = (bbox[2] - bbox[0]) / 256
    ok = abs(served_res - res) / res < 1e-6
    print('matrix', ident, 'advertised res %.6f served res %.6f %s' % (res, served_res, 'ok' if ok else 'MISMATCH'))
    bad += (not ok)
shutil.rmtree(tmp)
sys.exit(1 if bad else 0)
