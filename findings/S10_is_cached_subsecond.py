"""Witness of finding S10 (C13): a tile written AFTER the refresh threshold (by less than a second) is judged stale.
exit 1 = the defect reproduces on the mapproxy tree on PYTHONPATH, exit 0 = it does not."""
import sys
from mapproxy.cache.tile import TileManager, Tile


class Cache(object):
    def is_cached(self, tile, dimensions=None):
        return True

    def load_tile_metadata(self, tile, dimensions=None):
        tile.timestamp = 100.7
        tile.size = 10


class TM(TileManager):
    def __init__(self):
        self.cache = Cache()
        self.dimensions = None
        self._refresh_before = {}
        self._expire_timestamp = 100.2      # e.g. the mtime of a file (refresh_before: mtime:)


cached = TM().is_cached(Tile((0, 0, 0)))
print('tile timestamp 100.7, threshold 100.2 -> is_cached =', cached)
sys.exit(0 if cached else 1)
