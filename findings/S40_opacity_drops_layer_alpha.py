"""
C14 / defect 2: a layer with an opacity (< 1) that also has an alpha channel
(transparent source image and/or clipped coverage) is composited WITHOUT its
alpha channel when the output has no alpha (TRANSPARENT=FALSE, the WMS default).
LayerMerger.merge then uses Image.blend(result, img.convert('RGB'), opacity):
fully transparent pixels of the layer are blended in with their hidden colour.
"""
import io
import os
import shutil
import sys
import tempfile
import threading
from http.server import BaseHTTPRequestHandler, HTTPServer

sys.path.insert(0, os.getcwd())

import numpy as np
from PIL import Image

SIZE = 100
OPACITY = 0.5


def overlay_pixels():
    # fully transparent (hidden colour black, like most renderers produce) with
    # an opaque red stripe
    img = np.zeros((SIZE, SIZE, 4), dtype=np.uint8)
    img[40:60, :] = (255, 0, 0, 255)
    return img


class Handler(BaseHTTPRequestHandler):
    def do_GET(self):
        buf = io.BytesIO()
        Image.fromarray(overlay_pixels(), 'RGBA').save(buf, 'PNG')
        data = buf.getvalue()
        self.send_response(200)
        self.send_header('Content-type', 'image/png')
        self.send_header('Content-length', str(len(data)))
        self.end_headers()
        self.wfile.write(data)

    def log_message(self, *a):
        pass


CONF = """
services:
  wms:
    md: {title: demo}
    srs: ['EPSG:4326']
layers:
  - name: overlay
    title: overlay
    sources: [overlay_src]
sources:
  overlay_src:
    type: wms
    req:
      url: http://127.0.0.1:%(port)d/service
      layers: roads
      transparent: true
    image:
      opacity: %(opacity)s
globals:
  cache:
    base_dir: %(tmp)s/cache
    lock_dir: %(tmp)s/locks
    tile_lock_dir: %(tmp)s/tlocks
"""


def reference(bgcolor):
    """bottom-to-top 'over': bgcolor, then the layer with alpha * opacity"""
    src = overlay_pixels().astype(np.float64) / 255.0
    a = src[..., 3:4] * OPACITY
    res = np.zeros((SIZE, SIZE, 3)) + np.array(bgcolor) / 255.0
    res = src[..., :3] * a + res * (1 - a)
    return (res * 255 + 0.5).astype(np.uint8)


def check_direct():
    """the same through LayerMerger alone, without any service"""
    from mapproxy.image import ImageSource
    from mapproxy.image.merge import LayerMerger
    from mapproxy.image.opts import ImageOptions
    layer = ImageSource(Image.fromarray(overlay_pixels(), 'RGBA'),
                        image_opts=ImageOptions(transparent=True, opacity=OPACITY))
    merger = LayerMerger()
    merger.add(layer)
    out = merger.merge(ImageOptions(transparent=False, bgcolor=(255, 255, 255)), size=(SIZE, SIZE))
    return np.asarray(out.as_image().convert('RGB'))


def main():
    from mapproxy.wsgiapp import make_wsgi_app
    from webtest import TestApp

    httpd = HTTPServer(('127.0.0.1', 0), Handler)
    threading.Thread(target=httpd.serve_forever, daemon=True).start()
    tmp = tempfile.mkdtemp(prefix='c14_2_')
    failed = False
    try:
        conf = os.path.join(tmp, 'mapproxy.yaml')
        with open(conf, 'w') as f:
            f.write(CONF % {'port': httpd.server_port, 'tmp': tmp, 'opacity': OPACITY})
        app = TestApp(make_wsgi_app(conf))
        resp = app.get('/service?SERVICE=WMS&VERSION=1.1.1&REQUEST=GetMap&LAYERS=overlay&STYLES='
                       '&SRS=EPSG:4326&BBOX=0,0,10,10&WIDTH=%d&HEIGHT=%d&FORMAT=image/png'
                       '&TRANSPARENT=FALSE&BGCOLOR=0xFFFFFF' % (SIZE, SIZE))
        assert resp.content_type == 'image/png', resp.body[:300]
        got = np.asarray(Image.open(io.BytesIO(resp.body)).convert('RGB'))
        ref = reference((255, 255, 255))

        for name, img in (('GetMap TRANSPARENT=FALSE', got), ('LayerMerger.merge', check_direct())):
            diff = np.abs(img.astype(int) - ref.astype(int)).max()
            print('%s:' % name)
            print('   pixel in a fully transparent part of the layer (10,10): got %s, reference %s'
                  % (tuple(int(v) for v in img[10, 10]), tuple(int(v) for v in ref[10, 10])))
            print('   pixel in the red stripe (50,50): got %s, reference %s'
                  % (tuple(int(v) for v in img[50, 50]), tuple(int(v) for v in ref[50, 50])))
            print('   max channel difference:', diff)
            if diff > 2:
                failed = True
        if failed:
            print('FAIL: the alpha channel of a layer with opacity is ignored when the '
                  'output has no alpha channel: transparent pixels darken the background')
            return 1
        print('OK: image equals the reference composition')
        return 0
    finally:
        httpd.shutdown()
        httpd.server_close()
        shutil.rmtree(tmp, ignore_errors=True)


if __name__ == '__main__':
    sys.exit(main())
