"""S43 (C15): the module-level helpers mapproxy.util.async_.starmap / starcall size their pool with len(args[0]) - the length of
the FIRST ARGUMENT TUPLE - instead of the number of inputs (the S14 mistake at a second site): an empty input list raises
IndexError instead of yielding nothing, and a list of 1-tuples is run sequentially.
Exits 1 on the defective tree, 0 on the repaired one.  Run with cwd = the mapproxy tree."""
import sys
sys.path.insert(0, '.')
from mapproxy.util import async_

bad = []
for name, call in (('starmap(f, [])', lambda: list(async_.starmap(lambda a: a, []))),
                   ('starcall([])', lambda: list(async_.starcall([])))):
    try:
        r = call()
        print(name, '->', r)
        if r != []:
            bad.append(name)
    except Exception as e:      # noqa
        print(name, 'raised', type(e).__name__, e)
        bad.append(name)
sizes = []
orig = async_.ThreadPool.__init__
def spy(self, size=4):
    sizes.append(size)
    orig(self, size)
async_.ThreadPool.__init__ = spy
r = list(async_.starmap(lambda a: a * 2, [(1,), (2,), (3,)]))
print('starmap over three 1-tuples ->', r, 'pool size', sizes)
if r != [2, 4, 6] or sizes != [3]:
    bad.append('pool size')
if bad:
    print('VIOLATION: one result per input, for every input list:', bad)
    sys.exit(1)
print('OK')
