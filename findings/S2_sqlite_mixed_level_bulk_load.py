"""Witness of defect S2 (C05): MBTilesCache.load_tiles / GeopackageCache.load_tiles associate the result rows with the
requested tiles by (column, row) only.  A bulk load that asks for the same column/row on two levels hands BOTH rows to
one tile object: one address comes back with the other level's bytes (or nothing).  exit 1 = reproduces, exit 0 = not."""
import shutil
import sys
import tempfile
from io import BytesIO

from mapproxy.cache.mbtiles import MBTilesCache
from mapproxy.cache.geopackage import GeopackageCache
from mapproxy.cache.tile import Tile
from mapproxy.grid import tile_grid
from mapproxy.image import ImageSource
from PIL import Image


def png(color):
    buf = BytesIO()
    Image.new('RGB', (256, 256), color).save(buf, 'png')
    return buf.getvalue()


bad = []
tmp = tempfile.mkdtemp()
try:
    caches = [('mbtiles', MBTilesCache(tmp + '/a.mbtiles')),
              ('geopackage', GeopackageCache(tmp + '/a.gpkg', tile_grid(3857, name='webmercator'), 'tiles'))]
    for name, cache in caches:
        want = {}
        for coord, color in (((1, 1, 1), (200, 0, 0)), ((1, 1, 2), (0, 200, 0)), ((0, 1, 2), (0, 0, 200))):
            data = png(color)
            cache.store_tile(Tile(coord, ImageSource(BytesIO(data))))
            single = Tile(coord)
            cache.load_tile(single)
            want[coord] = single.source.as_buffer().read()
        tiles = [Tile(c) for c in want]
        cache.load_tiles(tiles)
        for t in tiles:
            got = t.source.as_buffer().read() if t.source is not None else None
            if got != want[t.coord]:
                other = [c for c, b in want.items() if b == got]
                bad.append('%s: bulk load of %s gives %s' % (name, t.coord, 'nothing' if got is None else 'the bytes of %s' % (other,)))
        cache.cleanup()
finally:
    shutil.rmtree(tmp, ignore_errors=True)
for b in bad:
    print(b)
sys.exit(1 if bad else 0)
