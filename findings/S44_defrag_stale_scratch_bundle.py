"""C19 / defect 2: defragmentation appends to a stale <cache_dir>/tmp_defrag.*

defrag_compact_cache() rewrites every bundle into the fixed scratch bundle
<cache_dir>/tmp_defrag(.bundle/.bundlx) and renames it over the original.
The scratch bundle is opened with the normal bundle class, which *appends*
to an existing file.  Nothing removes a scratch bundle that an earlier,
interrupted run (Ctrl-C, disk full, kill) left behind, so the next run
merges the left-over tiles of bundle S into whatever bundle F it processes
first: addresses of F that never had a tile now return tiles that belong to
a different part of the map (other bundle, other level), and F grows instead
of shrinking.

History used here (both bundle formats):
  1. tiles are stored in two bundles (level 1 and level 2), the tiles of the
     bundle that the defrag walk visits second (S) are overwritten once
  2. defrag run #1 is interrupted by a KeyboardInterrupt while it is about
     to swap S (the original S is still untouched, tmp_defrag.* stays)
  3. tiles of the other bundle (F) are overwritten once
  4. defrag run #2 runs to completion
  5. every address of both bundles is read back through the cache API and
     compared with the bytes it returned before run #2.
"""
import glob
import os
import shutil
import sys
import tempfile
from io import BytesIO

from mapproxy.cache.compact import CompactCacheV1, CompactCacheV2
from mapproxy.cache.tile import Tile
from mapproxy.image import ImageSource
import mapproxy.script.defrag as defrag_mod
from mapproxy.script.defrag import defrag_compact_cache


def store(cache, coord, data):
    cache.store_tile(Tile(coord, ImageSource(BytesIO(data))))


def snapshot(cache, levels):
    """bytes (or None) for every address of bundle R0000C0000 of each level"""
    snap = {}
    for z in levels:
        for y in range(128):
            tiles = [Tile((x, y, z)) for x in range(128)]
            cache.load_tiles(tiles)
            for t in tiles:
                snap[t.coord] = t.source.as_buffer().read() if t.source else None
    return snap


def run(cache_class, label):
    tmp = tempfile.mkdtemp(prefix='c19_2_')
    real_remove = os.remove
    try:
        cache = cache_class(tmp)
        levels = (1, 2)
        # 1. two bundles; tiles at different relative addresses
        for i in range(40):
            store(cache, (i, 1, 1), b'level1-' + bytes([65 + i % 26]) * 3000)
            store(cache, (i, 100, 2), b'level2-' + bytes([97 + i % 26]) * 3000)

        order = glob.glob(os.path.join(tmp, 'L??', 'R????C????.bundle'))
        assert len(order) == 2, order
        first, second = order                      # order of the defrag walk
        lvl = lambda fname: int(os.path.basename(os.path.dirname(fname))[1:])
        row = {1: 1, 2: 100}
        z_first, z_second = lvl(first), lvl(second)

        # fragment S (the bundle visited second)
        for i in range(40):
            store(cache, (i, row[z_second], z_second), b'S-new-' + bytes([48 + i % 10]) * 3000)

        # 2. run #1: interrupted right before the swap of S
        def interrupting_remove(path, *a, **kw):
            if path == second:
                raise KeyboardInterrupt('operator pressed Ctrl-C')
            return real_remove(path, *a, **kw)
        os.remove = interrupting_remove
        try:
            defrag_compact_cache(cache, min_percent=0.1, min_bytes=1000)
        except KeyboardInterrupt:
            pass
        finally:
            os.remove = real_remove
        leftover = sorted(f for f in os.listdir(tmp) if not f.startswith('L'))
        print('[%s] after the interrupted run, cache_dir contains: %s' % (label, leftover))

        # 3. F becomes fragmented
        for i in range(40):
            store(cache, (i, row[z_first], z_first), b'F-new-' + bytes([48 + i % 10]) * 3000)

        before = snapshot(cache, levels)
        size_before = {f: os.path.getsize(f) for f in order}

        # 4. run #2, undisturbed
        defrag_compact_cache(cache, min_percent=0.1, min_bytes=1000)

        # 5. compare
        after = snapshot(cache, levels)
        changed = [c for c in before if before[c] != after[c]]
        failed = False
        if changed:
            failed = True
            print('[%s] %d addresses return different bytes after defragmentation, e.g.:'
                  % (label, len(changed)))
            for c in changed[:3]:
                b, a = before[c], after[c]
                print('     %s: before=%s  after=%s' % (
                    c, None if b is None else b[:8] + b'...',
                    None if a is None else a[:8] + b'...'))
        for f in order:
            if os.path.exists(f) and os.path.getsize(f) > size_before[f]:
                failed = True
                print('[%s] %s grew from %d to %d bytes' % (
                    label, os.path.relpath(f, tmp), size_before[f], os.path.getsize(f)))
        return failed
    finally:
        os.remove = real_remove
        shutil.rmtree(tmp, ignore_errors=True)


def main():
    failed = False
    for cls, label in ((CompactCacheV2, 'v2'), (CompactCacheV1, 'v1')):
        if run(cls, label):
            failed = True
    if failed:
        print('FAIL: C19 violated (defragmentation changed tiles / grew a bundle)')
        return 1
    print('OK: defragmentation after an interrupted run changed no tile')
    return 0


if __name__ == '__main__':
    sys.exit(main())
