"""Sidecar contract registry.  Contract files (under /verif/contracts) are *data for pyvc*: they call the
functions below at import time; nothing in /repo is touched."""
import ast


class Registry(object):
    def __init__(self):
        self.contracts = {}      # key -> dict
        self.classes = {}        # class key -> dict(fields={}, invariant=[...])
        self.ghosts = {}         # name -> (params, ast expr | callable)
        self.loops = {}          # (fn key, ordinal) -> dict(inv=[...], types={...}, decreases=..., yield_type=...)
        self.exceptions = {}     # project exception class -> parent name
        self.lemmas = []         # dict(id, props, fn)
        self.targets = []        # list of (prop, key, variant name)
        self.builders = {}
        self.ghost_concrete = {}
        self.generators = {}
        self.findings_classes = {}
        self._spec_cache = {}

    # ---- declaration API ----------------------------------------------------------------------------
    def contract(self, key, **kw):
        """kw: props=[...], types={param: type}, returns=type, requires=[...], ensures=[...],
        raises={exc: cond|True}, modifies=[...], inline=[...], opaque=[...], opaque_spec={...},
        loops={ordinal: {...}}, must_fail=clause, verify=True|False (False: assumed contract),
        trace=[callable(ex, st, outcome)->[(id, z3Bool)]], default_callee='inline'|'opaque'"""
        if kw.pop('merge', False) and key in self.contracts:
            old = self.contracts[key]
            old['trace'] = list(old.get('trace', [])) + list(kw.get('trace_extra', []))
            old['props'] = sorted(set(old['props']) | set(kw.get('props', [])))
            return old
        kw.setdefault('props', [])
        if isinstance(kw['props'], str):
            kw['props'] = [kw['props']]
        for f in ('requires', 'ensures'):
            v = kw.get(f, [])
            if isinstance(v, str) or callable(v):
                v = [v]
            kw[f] = list(v)
        kw.setdefault('raises', {})
        kw.setdefault('types', {})
        kw.setdefault('verify', True)
        kw['key'] = key
        for ordn, l in kw.pop('loops', {}).items():
            self.loop(key, ordn, **l)
        self.contracts[key] = kw
        return kw

    def cls(self, key, fields, invariant=None):
        fields = dict(fields)
        if key in self.classes:
            # a second declaration (another contract module) may ADD fields but must agree on the common ones: a silently
            # different type would change what the clauses of the first module can see
            old = self.classes[key]
            clash = {k: (old['fields'][k], fields[k]) for k in fields if k in old['fields'] and old['fields'][k] != fields[k]}
            if clash:
                raise ValueError('class %s declared twice with different field types: %r' % (key, clash))
            fields = dict(old['fields'], **fields)
            invariant = invariant or old['invariant']
        self.classes[key] = {'fields': fields, 'invariant': invariant or []}

    def finding_class(self, name, fn):
        """fn(ex, st) -> z3 Bool: the failure class of a known finding on trace-level obligations ('py:<name>')"""
        self.findings_classes[name] = fn

    @property
    def finding_classes(self):
        return self.findings_classes

    def generator(self, name, fn):
        """fn(gen, rng[, ty]) -> JSON model of a random instance (used by pyvc.fuzz under /venv/bin/python)"""
        self.generators[name] = fn

    def builder(self, clskey, fn):
        """fn(json_model, conv) -> real object; runs under /venv/bin/python in the replayer"""
        self.builders[clskey] = fn

    def ghost(self, name, params, body, concrete=None, opaque=False):
        """spec function: body is a spec-dialect expression string, or callable(ex, st, *values)->Value
        (then `concrete` is its twin on real Python objects for the replayer).
        opaque=True: outside contracts that `reveal` it the ghost is an uninterpreted function of its arguments (the
        solver sees f(args), not the body); a contract with reveal=[name] sees the body and the defining equation
        f(args) == body."""
        if opaque:
            self.__dict__.setdefault('opaque_ghosts', set()).add(name)
        if concrete is not None:
            self.ghost_concrete[name] = concrete
        if isinstance(body, str):
            body = ast.parse(' '.join(body.split()), mode='eval').body
        self.ghosts[name] = (list(params), body)

    def loop(self, fnkey, ordinal, inv=(), types=None, decreases=None, yield_type=None, havoc=(), body_trace=(), raise_trace=(), no_early_exit=None):
        if isinstance(inv, str):
            inv = [inv]
        self.loops[(fnkey, ordinal)] = {'inv': list(inv), 'types': types or {}, 'decreases': decreases,
                                        'yield_type': yield_type, 'havoc': list(havoc), 'body_trace': list(body_trace), 'raise_trace': list(raise_trace), 'no_early_exit': no_early_exit}

    def lemma(self, lid, props, fn, doc=''):
        """fn(z3) -> (list of hypotheses, goal) ; discharged like any other obligation"""
        self.lemmas.append({'id': lid, 'props': [props] if isinstance(props, str) else list(props), 'fn': fn,
                            'doc': doc})

    def exception(self, name, parent='Exception'):
        self.exceptions[name] = parent

    # ---- lookup ----------------------------------------------------------------------------------------
    def class_decl(self, key, db=None):
        d = self.classes.get(key)
        if d is not None or db is None or ':' not in key:
            return d
        # inherit declarations from base classes
        ci = db.cls(key)
        if ci is None:
            return None
        fields = {}
        found = False
        for c in reversed(db.mro(ci)):
            if c.key in self.classes:
                fields.update(self.classes[c.key]['fields'])
                found = True
        if not found:
            return None
        d = {'fields': fields, 'invariant': []}
        self.classes[key] = d
        return d

    def loop_inv(self, fnkey, ordinal):
        return self.loops.get((fnkey, ordinal))

    def parse_spec(self, s):
        n = self._spec_cache.get(s)
        if n is None:
            n = ast.parse(' '.join(s.split()), mode='eval').body
            self._spec_cache[s] = n
        return n
