#!/bin/sh
# usage: validate_seed.sh <Cxx> <variant> : confirm an agent-produced seeded change in a scratch worktree and,
# if it holds up, keep it as /verif/seeded/<Cxx><variant>/
ID=$1; V=$2
# optional: SEED_SRC=<dir with patch.diff demo.py meta.json>  SEED_NAME=<name under /verif/seeded>
SRC=${SEED_SRC:-/tmp/wt/out/$ID/$V}
NAME=${SEED_NAME:-$ID$V}
WT=/tmp/wt/val/$NAME
DST=/verif/seeded/$NAME
[ -f "$SRC/patch.diff" ] || { echo "no patch for $ID $V"; exit 2; }
rm -rf "$WT"; mkdir -p /tmp/wt/val
git -C /repo worktree add --detach "$WT" HEAD >/dev/null 2>&1 || exit 2
cp "$SRC/demo.py" "$WT/demo.py"
cd "$WT" || exit 2
timeout 300 /venv/bin/python demo.py >/tmp/wt/val/$NAME.clean.log 2>&1; CLEAN=$?
git apply "$SRC/patch.diff" || { echo "patch does not apply"; git -C /repo worktree remove --force "$WT"; exit 2; }
timeout 300 /venv/bin/python demo.py >/tmp/wt/val/$NAME.patched.log 2>&1; PATCHED=$?
rm -f "$WT/demo.py"   # the suite collects doctests from every module in the tree: the demo must not be one of them
BASE=$(unshare -n sh -c "ip link set lo up; /verif/tools/baseline_check.py $WT" 2>&1 | head -3)
cd /; git -C /repo worktree remove --force "$WT"
echo "$NAME demo_clean_exit=$CLEAN demo_patched_exit=$PATCHED baseline: $BASE"
if [ "$CLEAN" = 0 ] && [ "$PATCHED" != 0 ] && echo "$BASE" | grep -q "missing=0"; then
  mkdir -p "$DST"; cp "$SRC/patch.diff" "$SRC/demo.py" "$DST/"
  /venv/bin/python - "$SRC/meta.json" "$DST/meta.json" "$CLEAN" "$PATCHED" "$BASE" <<'P'
import json, sys
m = json.load(open(sys.argv[1]))
m['confirmed'] = {'demo_exit_clean_tree': int(sys.argv[3]), 'demo_exit_with_patch': int(sys.argv[4]),
                  'baseline_check_with_patch': sys.argv[5],
                  'ran': 'tools/validate_seed.sh: scratch worktree of /repo HEAD under /tmp, demo on clean tree, git apply patch.diff, '
                         'demo again, pinned test suite in a private network namespace compared with BASELINE.json stable_pass, worktree removed'}
json.dump(m, open(sys.argv[2], 'w'), indent=1)
P
  echo "KEPT $DST"
else
  echo "REJECTED $NAME"
fi
