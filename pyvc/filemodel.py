"""Field-granular model of binary file objects (trusted stub, DESIGN.md 2.5).

A file is a heap object '$file' with
   len   : z3 Int, current length           pos : z3 Int, current position
   int_at(off, k)  : value of the k-byte little-endian unsigned field at offset off        (python closure -> z3 Int)
   blob_at(off, n) : the n bytes starting at off as an abstract blob                       (python closure -> z3 Blob)
Writes are read-over-write updates:  the same field reads back the written value, fields that do not overlap the
written range are unchanged, partially overlapping reads are unspecified (uninterpreted `junk`), so nothing can be
concluded from them.  Packed integers (struct.pack / Struct.pack) are VPacked(k, value); byte payloads are VBlob.
Crash points: every write is followed by the current target's crash clauses as obligations (DESIGN.md 2.6); a blob
write longer than 8 bytes additionally has a torn variant (a prefix of symbolic length was written).
"""
import z3

from .values import (Value, VInt, VReal, VBool, VStr, VNone, NONE, VOpt, VSeq, VObj, VOpaque, VBlob, VFunc, Unsupported,
                     Raised, uid, ite, to_int, BlobSort)

junk_int = z3.Function('junk_int', z3.IntSort(), z3.IntSort(), z3.IntSort(), z3.IntSort())
junk_blob = z3.Function('junk_blob', z3.IntSort(), z3.IntSort(), z3.IntSort(), BlobSort)
blob_len = z3.Function('blob_len', BlobSort, z3.IntSort())
blob_prefix = z3.Function('blob_prefix', BlobSort, z3.IntSort(), BlobSort)     # first n bytes of a blob
_epoch = [0]


class VPacked(Value):
    """k bytes holding the little-endian unsigned integer v (0 <= v < 256^k)"""
    shape = 'packed'

    def __init__(self, k, t):
        self.k = k
        self.t = t

    def __repr__(self):
        return 'VPacked(%d, %s)' % (self.k, self.t)


class VPackedSeq(Value):
    """several little-endian unsigned fields in a row: [(k, value)]"""
    shape = 'packedseq'

    def __init__(self, fields):
        self.fields = fields

    def __repr__(self):
        return 'VPackedSeq(%r)' % (self.fields,)


def parse_fmt(fmt):
    """'<4I3Q5I' -> [4,4,4,4,8,8,8,4,...] (little-endian, unsigned, no padding) or None"""
    import re
    if not fmt.startswith('<'):
        return None
    out = []
    for cnt, ch in re.findall(r'(\d*)([A-Za-z])', fmt[1:]):
        k = {'Q': 8, 'L': 4, 'I': 4, 'H': 2, 'B': 1}.get(ch)
        if k is None:
            return None
        out += [k] * (int(cnt) if cnt else 1)
    return out


def disjoint(o1, n1, o2, n2):
    return z3.Or(o1 + n1 <= o2, o2 + n2 <= o1)


def fresh_file(ex, st, name='fh'):
    obj = ex.new_ref(st, '$file')
    f_int = z3.Function(uid(name + '.int'), z3.IntSort(), z3.IntSort(), z3.IntSort())
    f_blob = z3.Function(uid(name + '.blob'), z3.IntSort(), z3.IntSort(), BlobSort)
    ln = z3.Int(uid(name + '.len'))
    st.assume(ln >= 0)
    h = st.heap[obj.ref]
    h['len'] = VInt(ln)
    h['pos'] = VInt(z3.Int(uid(name + '.pos')))
    h['$int_at'] = lambda off, k: f_int(off, k)
    h['$blob_at'] = lambda off, n: f_blob(off, n)
    h['$closed'] = False
    h['$pending'] = ()          # (offset, length) of writes still in the handle's userspace buffer
    ex.used_stubs.add('file-object model: field-granular read-over-write, disjoint-frame; partial overlaps unspecified; '
                      'writes on one handle reach the file in program order')
    return obj


def _file_fresh(ex, st, ty, name, idx):
    if idx:
        raise Unsupported('sequence of files')
    return fresh_file(ex, st, name)


def f_len(st, fh):
    return st.heap[fh.ref]['len'].t


def f_int(st, fh, off, k):
    return st.heap[fh.ref]['$int_at'](off, k)


def f_blob(st, fh, off, n):
    return st.heap[fh.ref]['$blob_at'](off, n)


def write_int(ex, st, fh, off, k, v):
    h = st.heap[fh.ref]
    old_i, old_b = h['$int_at'], h['$blob_at']
    _epoch[0] += 1
    ep = _epoch[0]
    kk = z3.IntVal(k)

    def int_at(o, n, old_i=old_i):
        return z3.If(z3.And(o == off, n == kk), v,
                     z3.If(disjoint(o, n, off, kk), old_i(o, n), junk_int(ep, o, n)))

    def blob_at(o, n, old_b=old_b):
        return z3.If(disjoint(o, n, off, kk), old_b(o, n), junk_blob(ep, o, n))
    h['$int_at'], h['$blob_at'] = int_at, blob_at
    ln = h['len'].t
    h['len'] = VInt(z3.If(off + kk > ln, off + kk, ln))
    h['pos'] = VInt(off + kk)
    h['$pending'] = tuple(h.get('$pending', ())) + ((off, kk),)


def write_blob(ex, st, fh, off, blob, n):
    h = st.heap[fh.ref]
    old_i, old_b = h['$int_at'], h['$blob_at']
    _epoch[0] += 1
    ep = _epoch[0]

    def int_at(o, k, old_i=old_i):
        return z3.If(disjoint(o, k, off, n), old_i(o, k), junk_int(ep, o, k))

    def blob_at(o, m, old_b=old_b):
        return z3.If(z3.And(o == off, m == n), blob,
                     z3.If(disjoint(o, m, off, n), old_b(o, m), junk_blob(ep, o, m)))
    h['$int_at'], h['$blob_at'] = int_at, blob_at
    ln = h['len'].t
    h['len'] = VInt(z3.If(off + n > ln, off + n, ln))
    h['pos'] = VInt(off + n)
    h['$pending'] = tuple(h.get('$pending', ())) + ((off, n),)


def crash_point(ex, st, what):
    """the process may die right here: the target's crash clauses must hold in this state"""
    tgt = ex.cur_target or {}
    clauses = tgt.get('crash', [])
    if not clauses or st.entry is None:
        return
    n = st.ghost.get('$crashpoints', 0) + 1
    st.ghost['$crashpoints'] = n
    sp = st.fork()
    sp.spec = True
    sp.old = st.entry
    env0 = getattr(st.entry, 'env', {})
    sp.env = dict(env0)
    qual = tgt['key'].split(':')[1]
    for i, c in enumerate(clauses):
        g = ex.spec_bool(sp, c)
        ex.oblige(st, g, '%s.crash#%d' % (qual, i), 'crash', '%s after %s' % (tgt['key'], what),
                  {'clause': 'after every write: ' + ' '.join(str(c).split())})


# ---- methods of the file object -------------------------------------------------------------------------------------
def _flush(h):
    """io.BufferedRandom: seek(), read(), flush() and close() hand the buffered writes to the OS; write() alone
    may leave them in the process (they are lost if the process dies)"""
    h['$pending'] = ()


def f_durable(st, fh, off, n):
    """no byte of [off, off+n) is still waiting in the handle's write buffer"""
    pend = st.heap[fh.ref].get('$pending', ())
    return z3.And([disjoint(off, n, po, pn) for po, pn in pend]) if pend else z3.BoolVal(True)


def _m_seek(ex, st, v, args, kwargs, node):
    h = st.heap[v.ref]
    _flush(h)
    off = to_int(args[0])
    whence = args[1] if len(args) > 1 else kwargs.get('whence', VInt(0))
    w = whence.conc() if isinstance(whence, VInt) else None
    if w is None:
        raise Unsupported('seek with symbolic whence')
    if w == 0:
        h['pos'] = VInt(off)
    elif w == 2:
        h['pos'] = VInt(h['len'].t + off)
    elif w == 1:
        h['pos'] = VInt(h['pos'].t + off)
    return [(st, VInt(h['pos'].t))]


def _m_tell(ex, st, v, args, kwargs, node):
    return [(st, VInt(st.heap[v.ref]['pos'].t))]


def _m_read(ex, st, v, args, kwargs, node):
    h = st.heap[v.ref]
    _flush(h)
    pos = h['pos'].t
    if not args:
        n = h['len'].t - pos
        h['pos'] = VInt(h['len'].t)
        return [(st, VBlob(h['$blob_at'](pos, n), n))]
    n = to_int(args[0])
    if z3.is_int_value(n) and n.as_long() in (1, 2, 4, 5, 8):
        k = n.as_long()
        # a short read at the end of the file gives fewer bytes: fork on it
        res = []
        for s2, ok in ex.branch(st, pos + k <= h['len'].t):
            h2 = s2.heap[v.ref]
            if ok:
                val = h2['$int_at'](pos, z3.IntVal(k))
                s2.assume(z3.And(val >= 0, val < 256 ** k))
                h2['pos'] = VInt(pos + k)
                res.append((s2, VPacked(k, val)))
            else:
                res.append((s2, VPacked(-1, z3.Int(uid('short')))))
        return res
    res = []
    for s2, ok in ex.branch(st, z3.And(n >= 0, pos + n <= h['len'].t)):
        h2 = s2.heap[v.ref]
        if ok:
            b = h2['$blob_at'](pos, n)
            s2.assume(blob_len(b) == n)
            h2['pos'] = VInt(pos + n)
            vb = VBlob(b, n)
            vb.src = (h2['$int_at'], pos)       # the integer fields of these bytes (struct.unpack)
            res.append((s2, vb))
        else:
            m = z3.Int(uid('shortn'))
            s2.assume(z3.And(m >= 0, m < n))
            res.append((s2, VBlob(z3.Const(uid('shortblob'), BlobSort), m)))
    return res


def _m_write(ex, st, v, args, kwargs, node):
    h = st.heap[v.ref]
    pos = h['pos'].t
    d = args[0]
    if isinstance(d, VPacked):
        write_int(ex, st, v, pos, d.k, d.t)
        crash_point(ex, st, 'write(%d bytes)' % d.k)
        return [(st, VInt(d.k))]
    raw = const_bytes(d)
    if raw is not None and 0 < len(raw) <= 16:
        d = VPacked(len(raw), z3.IntVal(int.from_bytes(raw, 'little')))
        write_int(ex, st, v, pos, d.k, d.t)
        crash_point(ex, st, 'write(%d constant bytes)' % d.k)
        return [(st, VInt(d.k))]
    if isinstance(d, VPackedSeq):
        total = 0
        for k, t in d.fields:
            write_int(ex, st, v, pos + total, k, t)
            total += k
        h['$pending'] = tuple(h['$pending'][:len(h['$pending']) - len(d.fields)]) + ((pos, z3.IntVal(total)),)
        crash_point(ex, st, 'write(%d packed bytes)' % total)
        return [(st, VInt(total))]
    if isinstance(d, VBlob):
        # torn variant: the process dies after a prefix of the payload reached the file
        tgt = ex.cur_target or {}
        if tgt.get('crash'):
            torn = st.fork()
            m = z3.Int(uid('torn'))
            torn.assume(z3.And(m >= 0, m < d.len))
            write_blob(ex, torn, v, pos, blob_prefix(d.t, m), m)
            crash_point(ex, torn, 'torn write')
        write_blob(ex, st, v, pos, d.t, d.len)
        crash_point(ex, st, 'write(blob)')
        return [(st, VInt(d.len))]
    raise Unsupported('file.write(%r)' % (d,))


def _m_flush(ex, st, v, args, kwargs, node):
    _flush(st.heap[v.ref])
    return [(st, NONE)]


def _m_close(ex, st, v, args, kwargs, node):
    st.heap[v.ref]['$closed'] = True
    _flush(st.heap[v.ref])
    return [(st, NONE)]


FILE_METHODS = {
    'seek': _m_seek, 'tell': _m_tell, 'read': _m_read, 'write': _m_write, 'close': _m_close,
    'flush': _m_flush,
    '__enter__': lambda ex, st, v: [(st, v)],
    '__exit__': lambda ex, st, v, kind, val: [(st, None)],
    '__bool__': lambda ex, st, v: z3.BoolVal(True),
}


# ---- struct ----------------------------------------------------------------------------------------------------------
FMT_SIZE = {'<Q': 8, '<L': 4, '<I': 4, '<q': 8, '<H': 2, '<B': 1}


def struct_pack(ex, st, args, kwargs, node):
    fmt = args[0].conc() if isinstance(args[0], VStr) else None
    ks = parse_fmt(fmt) if fmt else None
    if ks and len(ks) > 1 and len(args) == len(ks) + 1:
        vals = [to_int(a) for a in args[1:]]
        inr = z3.And([z3.And(v >= 0, v < 256 ** k) for k, v in zip(ks, vals)])
        res = []
        for s2, ok in ex.branch(st, inr):
            res.append((s2, VPackedSeq(list(zip(ks, vals))) if ok else Raised('struct.error', note='value out of range for %s' % fmt)))
        ex.used_stubs.add('struct little-endian pack/unpack of unsigned ints: value <-> k-byte field (A-struct)')
        return res
    if fmt not in FMT_SIZE or len(args) != 2:
        raise Unsupported('struct.pack(%r)' % (fmt,))
    k = FMT_SIZE[fmt]
    v = to_int(args[1])
    res = []
    for s2, ok in ex.branch(st, z3.And(v >= 0, v < 256 ** k)):
        res.append((s2, VPacked(k, v) if ok else Raised('struct.error', note='value out of range for %s' % fmt)))
    ex.used_stubs.add('struct little-endian pack/unpack of unsigned ints: value <-> k-byte field (A-struct)')
    return res


def struct_unpack(ex, st, args, kwargs, node):
    fmt = args[0].conc() if isinstance(args[0], VStr) else None
    ks = parse_fmt(fmt) if fmt else None
    if ks and len(ks) > 1:
        data = args[1]
        if not isinstance(data, VBlob) or getattr(data, 'src', None) is None:
            raise Unsupported('multi-field unpack of %r' % (data,))
        int_at, pos = data.src
        res = []
        for s2, ok in ex.branch(st, data.len == sum(ks)):
            if not ok:
                res.append((s2, Raised('struct.error', note='unpack requires a buffer of %d bytes' % sum(ks))))
                continue
            items, o = [], 0
            for k in ks:
                val = int_at(pos + o, z3.IntVal(k))
                s2.assume(z3.And(val >= 0, val < 256 ** k))
                items.append(VInt(val))
                o += k
            res.append((s2, VSeq(items, kind='tuple')))
        return res
    if fmt not in FMT_SIZE:
        raise Unsupported('struct.unpack(%r)' % (fmt,))
    return _unpack(ex, st, FMT_SIZE[fmt], args[1])


def _unpack(ex, st, k, data):
    if not isinstance(data, VPacked):
        raise Unsupported('unpack of %r' % (data,))
    if data.k != k:
        return [(st, Raised('struct.error', note='unpack requires a buffer of %d bytes' % k))]
    return [(st, VSeq([VInt(data.t)], kind='tuple'))]


def struct_Struct(ex, st, args, kwargs, node):
    fmt = args[0].conc() if isinstance(args[0], VStr) else None
    if fmt not in FMT_SIZE:
        raise Unsupported('struct.Struct(%r)' % (fmt,))
    # a stateless object: the field width is part of the stub class name (module constants such as
    # INT64LE = struct.Struct('<Q') are evaluated outside any heap)
    return [(st, VObj(-FMT_SIZE[fmt], '$struct%d' % FMT_SIZE[fmt]))]


def _s_pack(ex, st, v, args, kwargs, node):
    k = -v.ref
    return struct_pack(ex, st, [VStr({8: '<Q', 4: '<L', 2: '<H', 1: '<B'}[k])] + list(args), kwargs, node)


def _s_unpack(ex, st, v, args, kwargs, node):
    return _unpack(ex, st, -v.ref, args[0])


# ---- blobs ----------------------------------------------------------------------------------------------------------
def blob_concat(a, b):
    raise Unsupported('blob concatenation')


def const_bytes(v):
    """concrete bytes value -> python bytes, else None (z3 prints non-printable characters as \\u{..})"""
    import re
    if not (isinstance(v, VStr) and v.isbytes) or v.conc() is None:
        return None
    txt = re.sub(r'\\u\{([0-9a-fA-F]+)\}', lambda m: chr(int(m.group(1), 16)), v.conc())
    try:
        return txt.encode('latin-1')
    except UnicodeEncodeError:
        return None


def packed_slice(ex, st, base, lo, hi):
    """p[:k] of a little-endian field: the k low-order bytes"""
    if lo is not None and not isinstance(lo, VNone):
        raise Unsupported('packed[lo:]')
    k = hi.conc() if isinstance(hi, VInt) else None
    if k is None or not (0 < k <= base.k):
        raise Unsupported('packed[:%r]' % (hi,))
    return [(st, VPacked(k, base.t % (256 ** k)))]


def packed_add(ex, st, a, b):
    """field + constant zero bytes: the same little-endian value in a wider field"""
    raw = const_bytes(b)
    if isinstance(a, VPacked) and raw is not None and set(raw) <= {0}:
        if a.k < 0:
            return [(st, VPacked(-1, a.t))]        # short read stays short
        return [(st, VPacked(a.k + len(raw), a.t))]
    raise Unsupported('bytes concatenation %r + %r' % (a, b))


def blob_slice(ex, st, base, lo, hi):
    raise Unsupported('blob slice')


def b_open(ex, st, args, kwargs, node):
    if (ex.cur_target or {}).get('default_callee') == 'opaque':
        # orchestration targets: opening a file is an observable event (trace clauses can forbid or order it)
        return ex.opaque_call(st, 'open', None, args, kwargs, node)
    raise Unsupported('open()')


def install(B):
    B.STUB_TYPES['file'] = _file_fresh
    B.STUB_CLASSES['$file'] = FILE_METHODS
    for k_ in (1, 2, 4, 5, 8):
        B.STUB_CLASSES['$struct%d' % k_] = {'pack': _s_pack, 'unpack': _s_unpack}
    B.EXTERNS['struct.pack'] = struct_pack
    B.EXTERNS['struct.unpack'] = struct_unpack
    B.EXTERNS['struct.Struct'] = struct_Struct
    B.EXTERNS['os.SEEK_SET'] = VInt(0)
    B.EXTERNS['os.SEEK_CUR'] = VInt(1)
    B.EXTERNS['os.SEEK_END'] = VInt(2)

    # spec dialect access to the file model
    def sp_flen(ex, st, args, kwargs, node):
        return [(st, VInt(f_len(st, args[0])))]

    def sp_fint(ex, st, args, kwargs, node):
        return [(st, VInt(f_int(st, args[0], to_int(args[1]), to_int(args[2]))))]

    def sp_fblob(ex, st, args, kwargs, node):
        n = to_int(args[2])
        return [(st, VBlob(f_blob(st, args[0], to_int(args[1]), n), n))]
    def sp_fdurable(ex, st, args, kwargs, node):
        return [(st, VBool(f_durable(st, args[0], to_int(args[1]), to_int(args[2]))))]
    B.BUILTINS['f_durable'] = sp_fdurable
    B.BUILTINS['f_len'] = sp_flen
    B.BUILTINS['f_int'] = sp_fint
    B.BUILTINS['f_blob'] = sp_fblob
