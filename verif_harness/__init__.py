"""Proof harnesses: tiny functions that only CALL real mapproxy functions, so that a property relating the results of
several real functions can be stated as one postcondition.  At every call the verifier uses the callee's contract (or its
real body where the contract says `inline`); nothing of mapproxy is re-implemented here."""
