"""
C15 / defect 1: a ThreadPool that is used again after a call was aborted by an
exception hands the late results of the ABORTED call to the NEXT call.

The unit tests of mapproxy use one pool for several calls, also after an
exception (test_async.CommonPoolTests.test_multiple_arguments_exceptions), so
re-using a pool is a supported usage.
"""
import os
import sys
import threading
import time

sys.path.insert(0, os.getcwd())  # the tree in the current directory is the one under test

from mapproxy.util.async_ import ThreadPool

TIMEOUT = 20


def scenario(abort):
    """abort(pool, f) runs a first call on `pool` that ends with an exception
    while two items are still running.  Returns what a second, unrelated call
    on the same pool yields."""
    pool = ThreadPool(3)
    gate = threading.Event()
    finished = []
    started = threading.Semaphore(0)

    def f(x):
        if x == 'fail':
            # fail only when the two other items are being worked on
            started.acquire(timeout=TIMEOUT)
            started.acquire(timeout=TIMEOUT)
            raise ValueError('boom')
        started.release()
        gate.wait(TIMEOUT)          # still running when the call is aborted
        finished.append(x)
        return 'OLD-%s' % x

    abort(pool, f)

    # the two items of the aborted call finish now
    gate.set()
    deadline = time.time() + TIMEOUT
    while len(finished) < 2 and time.time() < deadline:
        time.sleep(0.01)
    time.sleep(0.2)

    def g(x):
        time.sleep(0.2)
        return 'new-%s' % x

    return pool.map(g, ['p', 'q', 'r'])


def abort_raise_mode(pool, f):
    try:
        pool.map(f, ['fail', 'a', 'b'])
    except ValueError:
        pass
    else:
        raise AssertionError('first call should have raised')


def abort_like_wms(pool, f):
    # what LayerRenderer._render_raise_exceptions / _create_bulk_meta_tile do
    for task in pool.imap(f, ['fail', 'a', 'b'], use_result_objects=True):
        if task.exception is not None:
            pool.shutdown(True)
            break


def main():
    failed = False
    for name, abort in (('raise mode', abort_raise_mode),
                        ('result objects + shutdown(True)', abort_like_wms)):
        box = []
        t = threading.Thread(target=lambda: box.append(scenario(abort)), daemon=True)
        t.start()
        t.join(TIMEOUT * 2)
        expected = ['new-p', 'new-q', 'new-r']
        if not box:
            print('%s: second call did not terminate / failed' % name)
            failed = True
        elif box[0] != expected:
            print('%s: second call on the re-used pool returned %r, expected %r'
                  % (name, box[0], expected))
            failed = True
        else:
            print('%s: ok %r' % (name, box[0]))
    if failed:
        print('VIOLATION: results of an aborted call were delivered as the results '
              'of other inputs of a later call')
        return 1
    return 0


if __name__ == '__main__':
    sys.exit(main())
