"""Bounded stand-in / contract cross-check: run the REAL function on generated inputs and evaluate the contract
concretely (runs under /venv/bin/python, no z3).  Never counted as proof; used
  * to keep contracts honest (a clause that is false on the unchanged code is a contract error or a defect),
  * to search for a concrete failing input when an obligation is refuted/undecided without a replayable model,
  * as the bounded check for targets outside pyvc's subset.

usage: /venv/bin/python -m pyvc.fuzz <modules,comma> <target key> [--n N] [--seed S] [--seconds T] [--clause I]
prints one JSON object: {target, tried, accepted, failures: [{clause, index, inputs(json), result}], errors}
"""
import argparse
import copy
import importlib
import json
import random
import sys
import time
import traceback
from fractions import Fraction

from .replay import CEval, NoReplay, from_json


def parse_type(s):
    from .values_types import parse_type as p
    return p(s)


class Gen(object):
    def __init__(self, rng, reg):
        self.rng = rng
        self.reg = reg

    def value(self, ty, name=''):
        """-> JSON model value (same format as counter-models)"""
        k = ty.kind
        r = self.rng
        if k in ('int', 'nat'):
            c = r.random()
            if c < 0.6:
                v = r.randint(-2 if k == 'int' else 0, 9)
            elif c < 0.9:
                v = r.randint(-40 if k == 'int' else 0, 300)
            else:
                v = r.choice([0, 1, 127, 128, 255, 256, 999, 1000, 2 ** 31, 10 ** 9, -1])
                if k == 'nat':
                    v = abs(v)
            return v
        if k == 'real':
            c = r.random()
            if c < 0.5:
                fr = Fraction(r.randint(-40, 200), r.choice([1, 1, 2, 4, 5, 10]))
            elif c < 0.8:
                fr = Fraction(r.randint(-10 ** 7, 10 ** 7), r.choice([1, 3, 7, 1000]))
            else:
                fr = Fraction(r.uniform(-2e7, 2e7)).limit_denominator(10 ** 6)
            return {'$real': '%d/%d' % (fr.numerator, fr.denominator)}
        if k == 'bool':
            return r.random() < 0.5
        if k == 'str':
            return r.choice(['', 'a', 'll', 'ul', 'nw', 'sw', 'LL', '00', '01', '02', 'x/y', '..', 'foo'])
        if k == 'bytes':
            return {'$bytes': r.choice(['', 'abc', 'PNG\x89data'])}
        if k == 'none':
            return None
        if k == 'opt':
            if r.random() < 0.3:
                return None
            return self.value(ty.args[0], name)
        if k == 'tuple':
            return {'$tuple': [self.value(a, name) for a in ty.args]}
        if k == 'seq':
            n = r.choice([0, 1, 1, 2, 3, 4, 6])
            items = [self.value(ty.args[0], name) for _ in range(n)]
            return items if ty.name == 'list' else {'$tuple': items}
        if k == 'union':
            return self.value(r.choice(ty.args), name)
        if k == 'obj':
            g = self.reg.generators.get(ty.name)
            if g is None:
                raise NoReplay('no generator for %s' % ty.name)
            return g(self, r)
        if k == 'blob':
            n = r.choice([0, 1, 5, 100, 3000])
            return {'$blob': 'b%d' % r.randint(0, 99), 'len': n}
        if k in self.reg.generators:
            return self.reg.generators[k](self, r, ty)
        raise NoReplay('no generator for type %r' % ty)


class _CallTimeout(Exception):
    pass


def _alarm(signum, frame):
    raise _CallTimeout()


def _limits():
    """the real function is called on generated inputs: keep one runaway call (huge ranges ...) from hanging the check
    or eating the machine's memory"""
    import resource
    import signal
    try:
        resource.setrlimit(resource.RLIMIT_AS, (6 * 1024 ** 3, 6 * 1024 ** 3))
    except Exception:       # noqa
        pass
    signal.signal(signal.SIGALRM, _alarm)


def run_target(reg, key, n=300, seed=0, seconds=20.0, clause_idx=None, gen_override=None):
    import signal
    _limits()
    c = reg.contracts[key]
    rng = random.Random(seed)
    gen = Gen(rng, reg)
    modname, qual = key.split(':')
    mod = importlib.import_module(modname)
    parts = qual.split('.')
    import inspect
    if len(parts) == 2:
        klass = getattr(mod, parts[0])
        fn = getattr(klass, parts[1])
        if isinstance(inspect.getattr_static(klass, parts[1]), property):
            fn = inspect.getattr_static(klass, parts[1]).fget
    else:
        fn = getattr(mod, parts[0])
    params = [p for p in inspect.signature(fn).parameters]
    types = dict(c.get('types', {}))
    if params and params[0] == 'self' and 'self' not in types:
        types['self'] = 'obj:%s' % (c.get('self_class') or '%s:%s' % (modname, parts[0]))
    out = {'target': key, 'tried': 0, 'accepted': 0, 'failures': [], 'errors': [], 'unevaluated': {}}
    t0 = time.time()
    gens = gen_override or c.get('fuzz_gen')
    while out['tried'] < n and time.time() - t0 < seconds and len(out['failures']) < 3:
        out['tried'] += 1
        try:
            if gens:
                model = gens(gen, rng)
            else:
                model = {p: gen.value(parse_type(types[p]), p) for p in params if p in types}
            args = {p: from_json(v, reg.builders) for p, v in model.items()}
        except NoReplay as e:
            out['errors'].append('generator: %s' % e)
            break
        except Exception as e:      # noqa  (e.g. constructor rejects the random configuration)
            continue
        ce = CEval(reg, dict(args), strict=True)
        ok = True
        for r in c['requires']:
            if callable(r):
                continue
            try:
                if not ce.ev(reg.parse_spec(r)):
                    ok = False
                    break
            except NoReplay as e:
                out['unevaluated'][str(r)[:60]] = str(e)
            except Exception:       # noqa  ill-typed random input for this precondition
                ok = False
                break
        if not ok:
            continue
        out['accepted'] += 1
        old_args = {p: from_json(v, reg.builders) for p, v in model.items()}
        raised = None
        result = None
        try:
            signal.alarm(2)
            result = fn(**args)
            import types as _t
            from .replay import _listify
            result = _listify(result, _t)
        except (_CallTimeout, MemoryError):
            signal.alarm(0)
            out['skipped_slow'] = out.get('skipped_slow', 0) + 1
            continue
        except Exception as e:      # noqa
            raised = e
        finally:
            signal.alarm(0)
        if raised is not None:
            allowed = False
            for exc, cond in c.get('raises', {}).items():
                if any(k.__name__ == exc for k in type(raised).__mro__):
                    if cond is True:
                        allowed = True
                    else:
                        try:
                            allowed = bool(CEval(reg, dict(old_args)).ev(reg.parse_spec(cond)))
                        except NoReplay:
                            allowed = True
                    break
            if not allowed:
                out['failures'].append({'clause': 'no unexpected exception', 'index': -1, 'inputs': model,
                                        'result': 'raised %r' % (raised,)})
            continue
        env = dict(args)
        env['result'] = result
        ce = CEval(reg, env, old_args)
        for i, e in enumerate(c['ensures']):
            if clause_idx is not None and i != clause_idx:
                continue
            if callable(e):
                try:
                    okc = e(args, result)
                except Exception as ex:     # noqa
                    out['errors'].append('ensures#%d: %s: %s' % (i, type(ex).__name__, ex))
                    continue
                if not okc:
                    out['failures'].append({'clause': (getattr(e, '__doc__', None) or 'callable clause %d' % i).strip(), 'index': i,
                                            'inputs': model, 'result': repr(result)[:500]})
                    break
                continue
            try:
                if not ce.ev(reg.parse_spec(e)):
                    out['failures'].append({'clause': ' '.join(e.split()), 'index': i, 'inputs': model,
                                            'result': repr(result)[:500]})
                    break
            except NoReplay as ex:
                out['unevaluated']['ensures#%d' % i] = str(ex)
            except Exception as ex:     # noqa
                out['errors'].append('ensures#%d: %s: %s' % (i, type(ex).__name__, ex))
                if len(out['errors']) > 5:
                    return out
    out['seconds'] = round(time.time() - t0, 2)
    return out


def main():
    ap = argparse.ArgumentParser()
    ap.add_argument('modules')
    ap.add_argument('target')
    ap.add_argument('--n', type=int, default=300)
    ap.add_argument('--seed', type=int, default=0)
    ap.add_argument('--seconds', type=float, default=20.0)
    ap.add_argument('--clause', type=int, default=None)
    a = ap.parse_args()
    from .replay import _scratch_cwd
    _scratch_cwd()
    for m in a.modules.split(','):
        importlib.import_module(m)
    from .api import REG
    try:
        out = run_target(REG, a.target, a.n, a.seed, a.seconds, a.clause)
    except Exception as e:      # noqa
        out = {'target': a.target, 'errors': ['%s: %s' % (type(e).__name__, e), traceback.format_exc()[-1500:]],
               'failures': [], 'tried': 0, 'accepted': 0}
    print(json.dumps(out, indent=1, default=str))


if __name__ == '__main__':
    main()
