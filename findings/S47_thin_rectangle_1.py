#!/usr/bin/env python
"""
C03 defect 1: a rectangle that is narrower than 2/10 of a level pixel and crosses a
tile edge (TileGrid) or a meta-tile edge (MetaGrid) makes `get_affected_level_tiles`
compute an inverted tile range (x0 > x1): the empty range raises IndexError, which is
turned into GridError('Invalid BBOX').

Property C03: "The set of tiles reported for a rectangle covers every part of it that
lies inside the grid".  The rectangles below lie completely inside the grid; instead of
the two tiles (meta tiles) they overlap, an error is raised.

Consequences shown below on the unchanged tree:
  A) grid API: TileGrid / MetaGrid .get_affected_level_tiles raise GridError
  B) mapproxy-seed (dry run, in process) of a 700 m wide coverage across the Greenwich
     meridian dies with GridError: Invalid BBOX
  C) a WMS GetMap of a 10 cm window across a tile edge of a 1 m/px grid is answered
     with 'Invalid BBOX' instead of a map

Run:  cd /tmp/wt/hunt/C03 && /venv/bin/python demo.py
"""
import io
import os
import shutil
import sys
import tempfile
import traceback

from mapproxy.grid import tile_grid, MetaGrid, GridError

failures = []


def covered(grid, rect, tiles):
    """union of the reported tiles contains the rectangle (it lies inside the grid)"""
    tiles = [t for t in tiles if t is not None]
    if not tiles:
        return False
    boxes = [grid.tile_bbox(t) for t in tiles]
    u = (min(b[0] for b in boxes), min(b[1] for b in boxes),
         max(b[2] for b in boxes), max(b[3] for b in boxes))
    return u[0] <= rect[0] and u[1] <= rect[1] and u[2] >= rect[2] and u[3] >= rect[3]


# ---------------------------------------------------------------- A) grid API
print('A) grid API')
g = tile_grid(srs='EPSG:3857')  # GLOBAL_MERCATOR, x=0 / y=0 are tile edges on all levels >= 1

level = 19
res = g.resolution(level)
rect = (-0.05 * res, 1000.0, 0.05 * res, 1000.0 + 0.1 * res)  # 0.1 px wide, 0.1 px high, across x=0
try:
    _bbox, size, tiles = g.get_affected_level_tiles(rect, level)
    tiles = list(tiles)
    print('   TileGrid level %d rect %r -> %r %r' % (level, rect, size, tiles))
    if not covered(g, rect, tiles):
        failures.append('TileGrid: reported tiles do not cover the rectangle')
except GridError as ex:
    print('   TileGrid.get_affected_level_tiles(%r, %d) raised GridError(%s)' % (rect, level, ex))
    failures.append('TileGrid.get_affected_level_tiles: GridError for a rectangle inside the grid')

mg = MetaGrid(g, meta_size=(4, 4), meta_buffer=0)
level = 3  # 8x8 tiles, 2x2 meta tiles, x=0 is a meta tile edge; 1/10 px = 1957 m
rect = (-350.0, 6700000.0, 350.0, 6701000.0)  # 700 m x 1000 m
try:
    _bbox, size, tiles = mg.get_affected_level_tiles(rect, level)
    tiles = list(tiles)
    print('   MetaGrid level %d rect %r -> %r %r' % (level, rect, size, tiles))
    all_tiles = [t for main in tiles if main is not None for t in mg.tile_list(main)]
    if not covered(g, rect, all_tiles):
        failures.append('MetaGrid: reported meta tiles do not cover the rectangle')
except GridError as ex:
    print('   MetaGrid.get_affected_level_tiles(%r, %d) raised GridError(%s)' % (rect, level, ex))
    failures.append('MetaGrid.get_affected_level_tiles: GridError for a rectangle inside the grid')

tmp = tempfile.mkdtemp(prefix='c03_d1_')
try:
    # ------------------------------------------------------------ B) seeding
    print('B) mapproxy-seed --dry-run, coverage 0.005W..0.005E / 51.47N..51.48N (Greenwich)')
    mp_yaml = os.path.join(tmp, 'mapproxy.yaml')
    seed_yaml = os.path.join(tmp, 'seed.yaml')
    with open(mp_yaml, 'w') as f:
        f.write('''
services:
  wms:
    md: {title: t}
layers:
  - name: l
    title: l
    sources: [c]
caches:
  c:
    grids: [GLOBAL_MERCATOR]
    sources: [s]
    cache:
      type: file
      directory: %(tmp)s/cache_seed
sources:
  s:
    type: wms
    req:
      url: http://127.0.0.1:1/service
      layers: x
''' % {'tmp': tmp})
    with open(seed_yaml, 'w') as f:
        f.write('''
seeds:
  s1:
    caches: [c]
    coverages: [greenwich]
    levels:
      to: 8
coverages:
  greenwich:
    bbox: [-0.005, 51.47, 0.005, 51.48]
    srs: 'EPSG:4326'
''')
    from mapproxy.config.loader import load_configuration
    from mapproxy.seed.config import load_seed_tasks_conf
    from mapproxy.seed.seeder import seed

    conf = load_configuration(mp_yaml, seed=True)
    with conf:
        seed_conf = load_seed_tasks_conf(seed_yaml, conf)
        tasks = seed_conf.seeds(['s1'])
        try:
            seed(tasks, dry_run=True, concurrency=1)
            print('   seeding (dry run) finished')
        except GridError as ex:
            tb = traceback.extract_tb(sys.exc_info()[2])
            print('   seeding aborted: GridError(%s) from %s:%d %s' % (ex, os.path.basename(tb[-1][0]), tb[-1][1], tb[-1][2]))
            failures.append('seeding a small coverage across a meta tile edge aborts with GridError')

    # ------------------------------------------------------------ C) WMS
    print('C) WMS GetMap, 10 cm window across the tile edge x=256 of a 1 m/px grid')
    from PIL import Image
    cache_dir = os.path.join(tmp, 'cache_wms')
    for x, col in ((0, (255, 0, 0)), (1, (0, 0, 255))):
        p = os.path.join(cache_dir, '2', str(x), '0.png')
        os.makedirs(os.path.dirname(p))
        Image.new('RGB', (256, 256), col).save(p)
    wms_yaml = os.path.join(tmp, 'wms.yaml')
    with open(wms_yaml, 'w') as f:
        f.write('''
services:
  wms:
    srs: ['EPSG:3857']
    md: {title: t}
layers:
  - name: l
    title: l
    sources: [c]
caches:
  c:
    grids: [g]
    sources: []
    cache:
      type: file
      directory: %(dir)s
      directory_layout: tms
grids:
  g:
    srs: 'EPSG:3857'
    bbox: [0, 0, 2560, 2560]
    res: [10, 5, 1]
    origin: ll
''' % {'dir': cache_dir})
    from mapproxy.wsgiapp import make_wsgi_app
    from webtest import TestApp
    app = TestApp(make_wsgi_app(wms_yaml))
    resp = app.get('/service?SERVICE=WMS&VERSION=1.1.1&REQUEST=GetMap&LAYERS=l&STYLES=&SRS=EPSG:3857'
                   '&FORMAT=image/png&WIDTH=256&HEIGHT=256&BBOX=255.95,100,256.05,100.1',
                   expect_errors=True)
    print('   status %s, content type %s' % (resp.status, resp.content_type))
    if resp.content_type != 'image/png':
        print('   body: %s' % ' '.join(resp.text.split())[-150:])
        failures.append('WMS GetMap of a window inside the grid is refused')
    else:
        img = Image.open(io.BytesIO(resp.body)).convert('RGB')
        left, right = img.getpixel((20, 128)), img.getpixel((235, 128))
        print('   pixel left %r right %r' % (left, right))
        # the window is 1/10 of a cached pixel wide, so the picture is an interpolation of the two
        # neighbouring pixels: both the red and the blue tile have to contribute
        if not (left[0] > 60 and right[2] > 60):
            failures.append('WMS GetMap: picture does not show both cached tiles (red | blue)')
finally:
    shutil.rmtree(tmp, ignore_errors=True)

if failures:
    print('PROPERTY C03 VIOLATED:')
    for f_ in failures:
        print('  - ' + f_)
    sys.exit(1)
print('ok: thin rectangles across tile edges are answered with the tiles they overlap')
sys.exit(0)
