"""C16 - invalid or oversized requests are refused before they cost anything (also carries C02 address arithmetic)."""
from pyvc.api import contract, cls, ghost, lemma
from pyvc import tracelib as T
from . import shared_grid, c03_grid  # noqa
S = 'mapproxy.service.tile:'

cls(S + 'TileServiceGrid', fields=dict(grid='obj:mapproxy.grid:TileGrid', profile='str', srs_name='str',
                                       _skip_first_level='bool', _skip_odd_level='bool'))

# internal level of a public integer (TMS-style) level z
ghost('int_level', ['sg', 'z', 'use_profiles'],
      "((z + 1) if (use_profiles and sg._skip_first_level) else z) * (2 if sg._skip_odd_level else 1)")

# public (integer) level -> internal level.  Every service parses the level with int(...) before it gets here
# (request/tile.py, request/wmts.py), so the level is an int; named levels only reach TileGrid.limit_tile directly.
contract(S + 'TileServiceGrid.internal_tile_coord', props=['C16', 'C02'],
         types=dict(tile_coord='tuple[int,int,int]', use_profiles='bool'), returns='opt[tuple[int,int,int]]',
         requires=['grid_wf(self.grid)'],
         ensures=[
             # profile shift and sqrt2 skip, then the grid bounds: answered iff the address is inside the matrix
             """iff(result is not None,
                    tile_coord[2] >= 0 and 0 <= int_level(self, tile_coord[2], use_profiles) < self.grid.levels
                    and 0 <= tile_coord[0] < self.grid.grid_sizes[int_level(self, tile_coord[2], use_profiles)][0]
                    and 0 <= tile_coord[1] < self.grid.grid_sizes[int_level(self, tile_coord[2], use_profiles)][1])""",
             """implies(result is not None,
                    result == (tile_coord[0], tile_coord[1], int_level(self, tile_coord[2], use_profiles)))""",
         ],
         must_fail='result is None')

contract(S + 'TileServiceGrid.external_tile_coord', props=['C02'],
         types=dict(tile_coord='tuple[int,int,int]', use_profiles='bool'), returns='opt[tuple[int,int,int]]',
         requires=[],
         ensures=['iff(result is None, tile_coord[2] < 0)',
                  """implies(result is not None, result[0] == tile_coord[0] and result[1] == tile_coord[1]
                       and result[2] == ((tile_coord[2] - 1) if (use_profiles and self._skip_first_level) else tile_coord[2])
                                        // (2 if self._skip_odd_level else 1))"""],
         must_fail='result is None')

lemma('external_inverts_internal', ['C02'],
      doc='external_tile_coord(internal_tile_coord(t)) == t on advertised addresses: ((z+s)*k - s) // k == z for k in {1,2}, s in {0,1} '
          '-- note the odd-level skip happens AFTER the profile shift on the way in and BEFORE it on the way out',
      fn=lambda z3: (lambda z, s, k: ([z >= 0, z3.Or(s == 0, s == 1), z3.Or(k == 1, k == 2)],
                                      # internal: (z + s) * k ; external: (Z - s) // k   (as the code does it)
                                      ((z + s) * k - s) / k == z))(
          z3.Int('z'), z3.Int('s'), z3.Int('k')))


# ---- TileLayer: range / format / dimension checks precede every cache or upstream access -------------------------
cls(S + 'TileLayer', fields=dict(name='str', title='opaque', md='opaque', tile_manager='opaque', info_sources='opaque',
                                 dimensions='opaque', grid='obj:mapproxy.service.tile:TileServiceGrid', extent='opaque',
                                 _empty_tile='opaque', _mixed_format='bool', empty_response_as_png='bool',
                                 legend_version='opaque'))

REQ_FIELDS = {'tile': 'tuple[int,int,int]', 'origin': 'opt[str]', 'format': 'str'}

contract(S + 'TileLayer._internal_tile_coord', props=['C16', 'C02', 'C09'],
         types=dict(tile_request='opaque', use_profiles='bool'), returns='tuple[int,int,int]',
         opaque_fields=REQ_FIELDS, stable_fields=['tile', 'origin', 'format'],
         requires=['grid_wf(self.grid.grid)'],
         raises={'RequestError': True},
         ensures=[
             # whatever is returned is a tile of the grid (no request can address a tile outside it)
             """0 <= result[2] < self.grid.grid.levels and 0 <= result[0] < self.grid.grid.grid_sizes[result[2]][0]
                and 0 <= result[1] < self.grid.grid.grid_sizes[result[2]][1]""",
             # C02: the column is the requested one, the level is the advertised level mapped to the internal one, and the row is
             # counted from the other edge exactly when the request's origin convention differs from the grid's
             'result[0] == tile_request.tile[0] and result[2] == int_level(self.grid, tile_request.tile[2], use_profiles)',
             """result[1] == (self.grid.grid.grid_sizes[result[2]][1] - 1 - tile_request.tile[1]
                   if ((tile_request.origin == 'nw' and not (self.grid.grid.origin == 'ul' or self.grid.grid.origin == 'nw'))
                       or (tile_request.origin == 'sw' and not (self.grid.grid.origin == 'll' or self.grid.grid.origin == 'sw'
                                                                or self.grid.grid.origin is None)))
                   else tile_request.tile[1])""",
             # C02: rows are counted from the other edge only on a grid whose tile rows end at that edge - otherwise the flipped
             # row is not the rectangle a client computes from the advertised origin (such a request is refused instead)
             """implies((tile_request.origin == 'nw' and not (self.grid.grid.origin == 'ul' or self.grid.grid.origin == 'nw'))
                        or (tile_request.origin == 'sw' and not (self.grid.grid.origin == 'll' or self.grid.grid.origin == 'sw'
                                                                 or self.grid.grid.origin is None)),
                        level_aligned(self.grid.grid, result[2]))"""],
         must_fail='result[0] == 0')


def _render_checks_first(ex, st, post, result):
    import z3
    from pyvc.values import eq
    loads = T.evs(st, 'load_tile_coord', 'load_tile_coords')
    coords = [e for e in st.trace if e.key == S + 'TileLayer._internal_tile_coord']
    dims = T.evs(st, 'checked_dimensions')
    fmts = T.evs(st, 'format')
    ok = True
    goal = z3.BoolVal(True)
    for i, e in loads:
        before_coord = [c for c in coords if st.trace.index(c) < i and not c.raised]
        before_dims = [d for j, d in dims if j < i and not d.raised]
        if not before_coord or not before_dims or not fmts:
            ok = False
            continue
        # the coordinate handed to the tile manager is the validated one, the dimensions are the checked ones
        goal = z3.And(goal, eq(e.args[0], before_coord[-1].result))
        goal = z3.And(goal, eq(e.kwargs.get('dimensions'), before_dims[-1].result))
        # and the requested format equals the layer's format on this path
        req = post.env['tile_request']
        goal = z3.And(goal, eq(ex.opaque_field(st, req, 'format'), fmts[0][1].result))
    yield ('checks_precede_cache_access', z3.And(z3.BoolVal(ok), goal),
           'format, range and dimension checks all precede load_tile_coord, which receives the validated in-grid '
           'coordinate and the checked dimensions')
    yield ('at_most_one_load', z3.BoolVal(len(loads) <= 1), 'one tile-manager access per request')


RENDER_SPEC = {'format': {'returns': 'str', 'pure': True}, 'checked_dimensions': {'raises': ['RequestError'], 'pure': True},
               'load_tile_coord': {'raises': ['SourceError']}, 'session': {'pure': True},
               'contains': {'returns': 'bool', 'pure': True}, 'intersects': {'returns': 'bool', 'pure': True},
               'empty_response': {'pure': True}, 'tile_bbox': {'pure': True}}

for _fn, _arg in (('render', 'tile_request'), ('get_info', 'info_request')):
    contract(S + 'TileLayer.' + _fn, props=['C16', 'C10', 'C09'],
             types={_arg: 'opaque', 'use_profiles': 'bool', 'coverage': 'opt[opaque]', 'decorate_img': 'opt[opaque]'} if _fn == 'render'
             else {_arg: 'opaque', 'coverage': 'opt[opaque]', 'decorate_img': 'opt[opaque]'},
             returns='opaque', default_callee='opaque', opaque_fields=dict(REQ_FIELDS, source='opt[opaque]'),
             stable_fields=['tile', 'origin', 'format'],
             opaque_spec=RENDER_SPEC, opaque=['tile_bbox', 'checked_dimensions', 'format', 'empty_response'],
             requires=['grid_wf(self.grid.grid)'], raises={'RequestError': True},
             trace=[_render_checks_first] if _fn == 'render' else
             [lambda ex, st, post, result: _render_checks_first(ex, st, dict_env(post, 'info_request'), result)])


class _EnvProxy(object):
    def __init__(self, post, name):
        self.env = dict(post.env)
        self.env['tile_request'] = post.env[name]


def dict_env(post, name):
    return _EnvProxy(post, name)


# ---- map requests: tile-count and pixel limits ------------------------------------------------------------------------
cls('mapproxy.layer:CacheMapLayer', fields=dict(tile_manager='opaque', grid='opaque', extent='opaque', res_range='opaque',
                                                max_tile_limit='opt[int]', image_opts='opaque', supports_meta_tiles='bool'))


def _tile_limit_before_load(ex, st, post, result):
    import z3
    self_ = post.env['self']
    limit = st.heap[self_.ref]['max_tile_limit']
    aff = T.evs(st, 'get_affected_tiles')
    loads = T.evs(st, 'load_tile_coords', 'load_tile_coord')
    goal = z3.BoolVal(True)
    ok = True
    for i, e in loads:
        prev = [a for j, a in aff if j < i and not a.raised]
        if not prev:
            ok = False
            continue
        tg = prev[-1].result.items[1]
        n = tg.items[0].t * tg.items[1].t
        over = z3.And(z3.Not(limit.isnone), limit.val.t != 0, n >= limit.val.t)
        goal = z3.And(goal, z3.Not(over))
        # the coordinates loaded are the ones the grid reported for this request
        goal = z3.And(goal, z3.BoolVal(e.args[0] is prev[-1].result.items[2]))
    yield ('tile_limit_checked_before_load', z3.And(z3.BoolVal(ok), goal),
           'num_tiles (columns x rows) >= max_tile_limit => the request is refused before any tile is loaded or created')


def _mosaic_georeference(ex, st, post, result):
    """C01: the mosaic of the affected tiles is declared with the bbox / tile grid the grid reported for THIS request and is
    transformed to exactly the requested bbox, SRS and size; a tiled-only request returns the one tile untouched"""
    import z3
    from pyvc.values import eq, VSeq
    q = post.env['query']
    aff = [e for i, e in T.evs(st, 'get_affected_tiles') if not e.raised]
    loads = [e for i, e in T.evs(st, 'load_tile_coords')]
    ti = [e for i, e in T.evs(st, 'TiledImage')]
    tr = [e for i, e in T.evs(st, 'transform') if not e.raised]
    be = [e for i, e in T.evs(st, 'bbox_equals')]
    if not aff or not loads:
        return
    src_bbox, tile_grid, coords = aff[0].result.items
    goal = z3.And(eq(aff[0].args[0], ex.opaque_field_at(st, aff[0], q, 'bbox')), eq(aff[0].args[1], ex.opaque_field_at(st, aff[0], q, 'size')),
                  z3.BoolVal(aff[0].kwargs.get('req_srs') is not None))
    tiled = ex.truth(st, ex.opaque_field(st, q, 'tiled_only'))
    if tr:
        ok = len(ti) == 1 and len(tr) == 1 and ti[0].kwargs.get('src_bbox') is src_bbox and ti[0].kwargs.get('tile_grid') is tile_grid \
            and tr[0].recv is not None and tr[0].recv.t.eq(ti[0].result.t) and len(tr[0].args) >= 3
        goal = z3.And(goal, z3.BoolVal(bool(ok)), z3.Not(tiled))
        if ok:
            goal = z3.And(goal, eq(tr[0].args[0], ex.opaque_field_at(st, tr[0], q, 'bbox')),
                          eq(tr[0].args[2], ex.opaque_field_at(st, tr[0], q, 'size')))
    elif not ti and loads and not [e for e in st.trace if e.name == 'transform']:
        # single stored tile handed out unresampled: only in tiled-only mode, for one tile, with the request aligned to it
        n = tile_grid.items[0].t * tile_grid.items[1].t
        ok = len(be) == 1 and be[0].args[1] is src_bbox
        goal = z3.And(goal, tiled, n <= 1, z3.BoolVal(bool(ok)), ex.truth(st, be[0].result) if be else z3.BoolVal(False))
        if ok:
            from pyvc.values import to_real
            qb = ex.opaque_field_at(st, be[0], q, 'bbox')
            qs = ex.opaque_field_at(st, be[0], q, 'size')
            b = [to_real(x) for x in qb.items]

            def zabs(t):
                return z3.If(t >= 0, t, -t)
            goal = z3.And(goal, eq(be[0].args[0], qb), z3.BoolVal(len(be[0].args) == 4))
            if len(be[0].args) == 4:
                # alignment tolerance: a tenth of an output pixel, per axis
                goal = z3.And(goal, z3.Implies(z3.And(to_real(qs.items[0]) != 0, to_real(qs.items[1]) != 0), z3.And(
                    to_real(be[0].args[2]) == zabs((b[2] - b[0]) / to_real(qs.items[0]) / 10),
                    to_real(be[0].args[3]) == zabs((b[3] - b[1]) / to_real(qs.items[1]) / 10))))
    yield ('mosaic_is_georeferenced_and_transformed_to_the_request', goal,
           'get_affected_tiles(query.bbox, query.size, req_srs=query.srs) -> TiledImage(sources, src_bbox, tile_grid of that answer) '
           '-> transform(query.bbox, query.srs, query.size); the untransformed shortcut only for tiled-only requests of one tile '
           'whose bbox equals the tile bbox')


contract('mapproxy.layer:CacheMapLayer._image', props=['C16', 'C01'],
         types=dict(query='opaque'), returns='opaque', default_callee='opaque',
         opaque_fields={'bbox': 'tuple[real,real,real,real]', 'size': 'tuple[int,int]', 'tiled_only': 'bool'},
         stable_fields=['bbox', 'size', 'tiled_only'],
         opaque_spec={'get_affected_tiles': {'returns': 'tuple[tuple[real,real,real,real],tuple[int,int],opaque]',
                                             'raises': ['NoTiles', 'GridError'], 'pure': True},
                      'session': {'pure': True}, 'bbox_equals': {'returns': 'bool', 'pure': True}, 'TiledImage': {'pure': True},
                      'transform': {'raises': ['ProjError', 'IOError']}},
         opaque=['bbox_equals', 'TiledImage'],
         raises={'BlankImage': True, 'MapBBOXError': True, 'SourceError': True, 'Exception': True},
         trace=[_tile_limit_before_load, _mosaic_georeference])

WMS_SERVER_FIELDS = dict(max_output_pixels='opt[int]', layers='opaque', image_formats='opaque',
                         srs='opaque', md='opaque', max_tile_age='opaque', root_layer='opaque',
                         info_types='opaque', strict='bool', attribution='opaque',
                         on_error='opaque', concurrent_layer_renderer='int', srs_extents='opaque',
                         request_parser='opaque', tile_layers='opaque', inspire_md='opaque', fi_transformers='opaque')
cls('mapproxy.service.wms:WMSServer', fields=dict(WMS_SERVER_FIELDS))


def _pixel_limit_first(ex, st, post, result):
    import z3
    self_ = post.env['self']
    limit = st.heap[self_.ref]['max_output_pixels']
    req = post.env['request']
    size = ex.opaque_field(st, ex.opaque_field(st, req, 'params'), 'size')
    n = size.items[0].t * size.items[1].t
    over = z3.And(z3.Not(limit.isnone), limit.val.t != 0, n > limit.val.t)
    yield ('oversized_request_refused', z3.Not(over),
           'width x height > max_output_pixels => RequestError (the request is not accepted)')
    yield ('non_positive_size_refused', z3.And(size.items[0].t > 0, size.items[1].t > 0),
           'an accepted request has a positive width and a positive height (a negative factor would make the product pass any limit)')
    vals = T.evs(st, 'validate_layers', 'WMSServer.validate_layers', 'validate_format', 'validate_srs')
    yield ('validated', z3.BoolVal(len(vals) == 3), 'layers, format and SRS are validated on the accepting path')


contract('mapproxy.service.wms:WMSServer.check_map_request', props=['C16'],
         types=dict(request='opaque'), returns='none', default_callee='opaque',
         opaque_fields={'size': 'tuple[int,int]'}, stable_fields=['size', 'params'],
         raises={'RequestError': True},
         trace=[_pixel_limit_first])


# ---- WMS request validation: what an accepted request is known to satisfy ---------------------------------------------------------------
RW = 'mapproxy.request.wms:'
cls(RW + 'WMSMapRequest', fields=dict(params='opaque', non_strict='opaque', expected_param='opaque', non_strict_params='opaque'))


def _bbox_is_proper(ex, st, post, result):
    import z3
    b = ex.opaque_field(post.old if getattr(post, 'old', None) is not None else st, st.heap[post.env['self'].ref]['params'], 'bbox')
    yield ('accepted_bbox_has_positive_extent', z3.And(b.items[0].t < b.items[2].t, b.items[1].t < b.items[3].t),
           'a request is accepted only with minx < maxx and miny < maxy (an empty or inverted bbox is refused before anything is computed from it)')


contract(RW + 'WMSMapRequest.validate_bbox', props=['C16'],
         types={}, returns='none', default_callee='opaque',
         opaque_fields={'bbox': 'tuple[real,real,real,real]'}, stable_fields=['bbox'],
         opaque_spec={'get': {'pure': True}}, raises={'RequestError': True},
         trace=[_bbox_is_proper])


def _member_of(name_of_arg):
    def clause(ex, st, post, result):
        import z3
        lst = post.env[name_of_arg]
        ins = [e for i, e in T.evs(st, 'contains') if len(e.args) == 2 and (e.args[0] is lst or (hasattr(e.args[0], 't') and hasattr(lst, 't') and e.args[0].t.eq(lst.t)))]
        g = z3.BoolVal(len(ins) == 1)
        for e in ins:
            g = z3.And(g, ex.truth(st, e.result))
        yield ('accepted_value_is_configured', g,
               'the request is accepted only if the requested value was looked up in the configured list and found')
    return clause


contract(RW + 'WMSMapRequest.validate_format', props=['C16'],
         types=dict(image_formats='opaque'), returns='none', default_callee='opaque', raises={'RequestError': True},
         trace=[_member_of('image_formats')])
contract(RW + 'WMSMapRequest.validate_srs', props=['C16'],
         types=dict(srs='opaque'), returns='none', default_callee='opaque', raises={'RequestError': True},
         opaque_spec={'upper': {'pure': True}},
         trace=[_member_of('srs')])


def _layer_known(ex, st, k):
    import z3
    evs_ = st.trace[getattr(st, 'iter_start_trace', 0):]
    h = st.heap[st.env['self'].ref]
    ins = [e for e in evs_ if e.name == 'contains' and len(e.args) == 2 and hasattr(e.args[0], 't') and e.args[0].t.eq(h['layers'].t)]
    g = z3.BoolVal(len(ins) == 1)
    for e in ins:
        g = z3.And(g, ex.truth(st, e.result), z3.BoolVal(e.args[1] is st.env['layer']))
    yield ('every_requested_layer_is_configured', g, 'each requested (and each queried) layer name is looked up in self.layers and found, else the request is refused')


contract('mapproxy.service.wms:WMSServer.validate_layers', props=['C16'],
         types=dict(request='opaque'), returns='none', default_callee='opaque', raises={'RequestError': True},
         opaque_spec={'chain': {'returns': 'list[opaque]', 'pure': True}},
         loops={0: dict(inv=[], types={}, body_trace=[_layer_known])})


def _wmts_request_known(ex, st, post, result):
    import z3
    h = st.heap[post.env['self'].ref]
    req = post.env['request']
    ins = [e for i, e in T.evs(st, 'contains') if len(e.args) == 2]
    top = [e for e in ins if hasattr(e.args[0], 't') and e.args[0].t.eq(h['layers'].t)]
    g = z3.BoolVal(len(top) == 1 and len(ins) >= 2)
    if len(top) == 1 and len(ins) >= 2:
        lay = ex.opaque_field_at(st, top[0], req, 'layer')
        g = z3.And(g, ex.truth(st, top[0].result), top[0].args[1].t == lay.t, ex.truth(st, ins[1].result),
                   ins[1].args[1].t == ex.opaque_field_at(st, ins[1], req, 'tilematrixset').t)
    mk = [e for i, e in T.evs(st, 'make_request')]
    yield ('wmts_layer_and_matrix_set_are_configured', z3.And(g, z3.BoolVal(len(mk) == 1 and st.trace.index(mk[0]) == 0)),
           'a WMTS request is accepted only after it was parsed (make_request) and its layer is configured and its tile matrix '
           'set is one of that layer')


cls('mapproxy.service.wmts:WMTSServer', fields=dict(layers='opaque', info_formats='opaque'))
contract('mapproxy.service.wmts:WMTSServer.check_request', props=['C16'],
         types=dict(request='opaque', info_formats='opt[opaque]'), returns='none', default_callee='opaque',
         opaque_fields={'layer': 'opaque', 'tilematrixset': 'opaque'}, stable_fields=[],
         opaque_spec={'make_request': {'raises': ['RequestError']}, 'values': {'pure': True}},
         raises={'RequestError': True},
         trace=[_wmts_request_known])


# ---- TileLayer.checked_dimensions: only configured dimension names and configured values reach the tile manager (and the cache path) --
def _dimension_value_checked(ex, st, k):
    import z3
    from pyvc.values import eq, VStr
    evs_ = st.trace[getattr(st, 'iter_start_trace', 0):]
    dim, values = st.env['dimension'], st.env['values']
    gets = [e for e in evs_ if e.name == 'get']
    ins = [e for e in evs_ if e.name == 'contains' and len(e.args) == 2 and hasattr(e.args[0], 't') and e.args[0].t.eq(values.t)]
    sets = [e for e in evs_ if e.name == 'setitem']
    ok = len(gets) == 1 and len(ins) == 1 and len(sets) == 1 and len(gets[0].args) == 1 and gets[0].args[0] is dim \
        and ins[0].args[1] is gets[0].result and sets[0].args[1] is dim
    g = z3.BoolVal(bool(ok))
    if ok:
        offered = ex.truth(st, ins[0].result)
        dflt = ex.opaque_field_at(st, sets[0], values, 'default')
        val = sets[0].args[2]
        from pyvc.values import opaque_eq_str
        v = gets[0].result
        may_default = z3.Or(z3.Not(ex.truth(st, v)), opaque_eq_str(v.t, z3.StringVal('default')))
        g = z3.And(g, z3.If(offered, z3.BoolVal(val is gets[0].result), z3.And(eq(val, dflt), may_default)))
    yield ('dimension_value_is_offered_or_default', g,
           'for every CONFIGURED dimension the value handed on is the requested one only if it is among the configured values, '
           'otherwise the configured default (possible only for an absent / empty / "default" request value - anything else is refused)')


def _dimension_refused(ex, st, k, pre, exc):
    import z3
    from pyvc.values import opaque_eq_str
    evs_ = st.trace[getattr(st, 'iter_start_trace', 0):]
    gets = [e for e in evs_ if e.name == 'get']
    ins = [e for e in evs_ if e.name == 'contains']
    g = z3.BoolVal(len(gets) == 1 and len(ins) == 1)
    if len(gets) == 1 and len(ins) == 1:
        v = gets[0].result
        g = z3.And(g, z3.Not(ex.truth(st, ins[0].result)), ex.truth(st, v))
    yield ('only_unknown_values_are_refused', g, 'the request is refused here only for a non-empty value that is not among the configured ones')


contract(S + 'TileLayer.checked_dimensions', props=['C16', 'C09'],
         types=dict(tile_request='opaque'), returns='opaque', default_callee='opaque',
         opaque_fields={'default': 'opaque'}, stable_fields=['default'],
         opaque_spec={'items': {'returns': 'list[tuple[opaque,opaque]]', 'pure': True}, 'get': {'pure': True},
                      'contains': {'returns': 'bool', 'pure': True}},
         raises={'RequestError': True},
         loops={0: dict(inv=[], types={'dimensions': 'opaque'}, body_trace=[_dimension_value_checked], raise_trace=[_dimension_refused])})


# ---- WMTS GetFeatureInfo: the tile address is validated and converted like for GetTile before anything is asked -------------------------
def _wmts_fi_address(ex, st, post, result):
    import z3
    req = post.env['request']
    iq = [(i, e) for i, e in T.evs(st, 'InfoQuery')]
    tb = [(i, e) for i, e in T.evs(st, 'tile_bbox')]
    gi = [(i, e) for i, e in T.evs(st, 'get_info')]
    chk = [(i, e) for i, e in T.evs(st, 'check_request')]
    if not iq:
        yield ('refused_before_any_query', z3.BoolVal(not gi), 'no feature info is requested without a validated query')
        return
    ok = len(iq) == 1 and len(chk) == 1 and chk[0][0] < iq[0][0] and len(tb) >= 1 and tb[0][0] < iq[0][0] \
        and iq[0][1].args[0] is tb[0][1].result and any(a is req for a in tb[0][1].args) and not tb[0][1].kwargs \
        and all(iq[0][0] < i for i, e in gi)
    # the rectangle comes from the LAYER's tile_bbox(request) (which raises TileOutOfRange outside the matrix and maps the
    # WMTS address to the internal one), not from grid.tile_bbox(<raw address>)
    h_layers = st.heap[post.env['self'].ref]['layers']
    from_layer = ok and tb[0][1].recv is not None and len([a for a in tb[0][1].args if a is not tb[0][1].recv]) == 1
    yield ('feature_info_for_a_validated_tile_address', z3.BoolVal(bool(ok and from_layer)),
           'the InfoQuery rectangle is tile_layer.tile_bbox(request): the address was checked against the matrix (TileOutOfRange '
           'otherwise) and converted to the internal numbering, after check_request and before any source is asked')


contract('mapproxy.service.wmts:WMTSServer.featureinfo', props=['C16', 'C01'],
         types=dict(request='opaque'), returns='opaque', default_callee='opaque', raises={'RequestError': True},
         opaque_spec={'check_request': {'raises': ['RequestError']}, 'tile_bbox': {'raises': ['RequestError'], 'pure': True},
                      'InfoQuery': {'pure': True}, 'check_request_dimensions': {'raises': ['RequestError']},
                      'authorize_tile_layer': {'raises': ['RequestError'], 'returns': 'opt[opaque]'}, 'contains': {'returns': 'bool', 'pure': True},
                      'get_info': {'returns': 'opt[opaque]'}, 'combine_docs': {'returns': 'tuple[opaque,opaque]', 'pure': True},
                      'Response': {'pure': True}, 'get': {'pure': True}},
         opaque=['check_request', 'check_request_dimensions', 'authorize_tile_layer'],
         loops={0: dict(inv=[], types={'infos': 'opaque'})},
         trace=[_wmts_fi_address])
