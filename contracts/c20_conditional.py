"""C20 - conditional requests: validators, 304 soundness, no-store for uncacheable tiles."""
from pyvc.api import contract, cls, ghost, lemma
from pyvc import tracelib as T
from . import shared_grid, c16_limits  # noqa


def _uncacheable_gets_no_store(ex, st, post, result):
    """every response built from a tile that is not cacheable is sent with cache_headers(no_cache=True); validators
    are only ever computed from (timestamp, size) of the rendered tile"""
    import z3
    from pyvc.values import eq, VBool
    renders = [e for i, e in T.evs(st, 'render') if not e.raised]
    chs = T.evs(st, 'cache_headers')
    if not renders:
        yield ('tile_rendered', z3.BoolVal(not chs), 'no cache headers without a rendered tile')
        return
    tile = renders[-1].result
    cacheable = ex.truth(st, ex.opaque_field(st, tile, 'cacheable'))
    goal = z3.BoolVal(len(chs) == 1)
    for i, e in chs:
        nc = e.kwargs.get('no_cache')
        if nc is not None and isinstance(nc, VBool) and nc.conc() is True:
            # the no-store branch: must be free of validators
            goal = z3.And(goal, z3.BoolVal(len(e.args) == 0 and 'etag_data' not in e.kwargs))
            continue
        # public validators: only allowed when the tile is cacheable on this path ...
        goal = z3.And(goal, cacheable)
        # ... and built from the tile's own timestamp and size
        ts = ex.opaque_field(st, tile, 'timestamp')
        size = ex.opaque_field(st, tile, 'size')
        ok = len(e.args) >= 1 and 'etag_data' in e.kwargs
        goal = z3.And(goal, z3.BoolVal(ok))
        if ok:
            goal = z3.And(goal, eq(e.args[0], ts), eq(e.kwargs['etag_data'].items[0], ts), eq(e.kwargs['etag_data'].items[1], size))
    yield ('uncacheable_tile_no_store', goal,
           'tile.cacheable false => cache_headers(no_cache=True); otherwise validators come from (timestamp, size) of the tile')
    mc = T.evs(st, 'make_conditional')
    yield ('conditional_after_headers', z3.BoolVal(len(mc) == 1 and chs and mc[0][0] > chs[-1][0]),
           'make_conditional is evaluated after the validators are set')


def _handler_protocol(ex, st, post, result):
    """C16 / C10: a tile is rendered only after the request was checked and authorized for THIS layer, and the limit handed
    to the renderer is the one the authorization returned (added after the mutation audit)"""
    import z3
    renders = [(i, e) for i, e in T.evs(st, 'render')]
    if not renders:
        return
    i_r, r = renders[0]
    chk = [(i, e) for i, e in T.evs(st, 'check_request', 'WMTSServer.check_request', 'layer', 'TileServer.layer', 'KMLServer.layer')]
    dim = [(i, e) for i, e in T.evs(st, 'check_request_dimensions')]
    auth = [(i, e) for i, e in enumerate(st.trace) if e.name.endswith('authorize_tile_layer')]
    req = None
    for name in ('request', 'tile_request', 'map_request'):
        if name in post.env:
            req = post.env[name]
    goal = z3.BoolVal(len(renders) == 1 and bool(chk) and chk[0][0] < i_r and any(a is req for a in r.args))
    layer = r.recv
    if 'request' in post.env:
        # WMTS: the dimension values are checked by the service before rendering (RESTful: unknown dimensions are refused)
        goal = z3.And(goal, z3.BoolVal(len(dim) == 1))
    if 'tile_request' not in post.env:
        goal = z3.And(goal, z3.BoolVal(len(auth) == 1))     # (the TMS server authorizes inside self.layer())
    for i, e in dim:
        goal = z3.And(goal, z3.BoolVal(i < i_r and len(e.args) >= 2 and e.args[-1] is req and layer is not None
                                       and hasattr(e.args[-2], 't') and e.args[-2].t.eq(layer.t)))
    for i, e in auth:
        ok = i < i_r and len(e.args) >= 2 and e.args[-1] is req and layer is not None and hasattr(e.args[-2], 't') \
            and e.args[-2].t.eq(layer.t) and r.kwargs.get('coverage') is e.result
        goal = z3.And(goal, z3.BoolVal(bool(ok)))
    yield ('render_after_checks_for_this_layer', goal,
           'the request is validated (check_request / layer lookup) before the one render call; dimension check and '
           'authorization are made for the layer that is rendered and the very request; render(coverage=<what the '
           'authorization returned>)')


def _tile_answer(ex, st, post, result):
    """the answer is built from the rendered tile and made conditional on the headers of THIS request; the address
    origin of the service (TMS option / KML) is applied to the request before the layer is looked up"""
    import z3
    from pyvc.values import eq, VStr
    renders = [e for i, e in T.evs(st, 'render') if not e.raised]
    resp = [e for i, e in T.evs(st, 'Response')]
    if not renders or not resp:
        return
    req = [post.env[n] for n in ('request', 'tile_request', 'map_request') if n in post.env][0]
    tile = renders[-1].result
    ab = [e for i, e in T.evs(st, 'as_buffer')]
    chs = [e for i, e in T.evs(st, 'cache_headers')]
    mc = [e for i, e in T.evs(st, 'make_conditional')]
    ok = len(resp) == 1 and len(ab) == 1 and ab[0].recv is not None and ab[0].recv.t.eq(tile.t) and resp[0].args[0] is ab[0].result \
        and result is resp[0].result and all(e.recv is not None and e.recv.t.eq(result.t) for e in chs + mc) and len(mc) == 1
    g = z3.BoolVal(bool(ok))
    if ok:
        a = [x for x in mc[0].args if x is not mc[0].recv]
        g = z3.And(g, z3.BoolVal(len(a) == 1), eq(a[0], ex.opaque_field_at(st, mc[0], req, 'http')) if len(a) == 1 else z3.BoolVal(False))
        h = st.heap[post.env['self'].ref]
        for e in chs:
            if 'max_age' in e.kwargs:
                g = z3.And(g, eq(e.kwargs['max_age'], h['max_tile_age']))
    ct = resp[0].kwargs.get('content_type')
    g_ct = z3.BoolVal(False)
    t = getattr(ct, 't', None)
    if t is not None and z3.is_app(t) and t.decl().name() == 'opaque_binop_Add' and z3.is_app(t.arg(0)) \
            and t.arg(0).decl().name() == 'opaque_of_str' and z3.is_string_value(t.arg(0).arg(0)) and t.arg(0).arg(0).as_string() == 'image/':
        fmt = t.arg(1)
        tf = ex.opaque_field_at(st, resp[0], tile, 'format') if 'format' in (ex.cur_target or {}).get('opaque_fields', {}) else None
        # the format of the rendered tile (mixed-mode caches decide per tile); TMS/KML fall back to the requested one
        g_ct = z3.BoolVal(True) if tf is None else z3.Or(fmt == tf.t, z3.BoolVal('request' not in post.env))
    yield ('content_type_is_image_slash_format', g_ct, "the declared content type is 'image/' + the format of the tile that is sent")
    yield ('answer_is_the_rendered_tile_conditional_on_this_request', g,
           'the body is tile.as_buffer() of the rendered tile; the cache headers (max_age = the configured max_tile_age) and '
           'make_conditional(request.http) are applied to the Response that is returned')
    so = [(i, e) for i, e in enumerate(st.trace) if e.name == 'setattr:origin']
    lk = [(i, e) for i, e in T.evs(st, 'layer', 'TileServer.layer', 'KMLServer.layer')]
    if 'tile_request' in post.env:
        h = st.heap[post.env['self'].ref]
        want = z3.And(ex.truth(st, h['origin']), z3.Not(ex.truth(st, ex.opaque_field_at(st, st.trace[0], req, 'origin'))))
        g2 = want == z3.BoolVal(len(so) == 1)
        for i, e in so:
            g2 = z3.And(g2, z3.BoolVal(e.recv is not None and e.recv.t.eq(req.t) and bool(lk) and i < lk[0][0]), eq(e.args[1], h['origin']))
        yield ('service_origin_applies_unless_request_has_one', g2,
               'the origin configured for the TMS service is put on the request exactly when the request names none, before '
               'the layer (and with it the tile address) is resolved')
    elif 'map_request' in post.env:
        g2 = z3.BoolVal(len(so) == 1 and bool(lk) and so[0][0] < lk[0][0] and isinstance(so[0][1].args[1], VStr) and so[0][1].args[1].conc() == 'sw')
        yield ('kml_addresses_are_south_west', g2, "KML tile addresses are always resolved with origin 'sw'")


SVC_FIELDS = {'cacheable': 'bool', 'timestamp': 'opt[real]', 'size': 'opt[int]', 'http': 'opaque', 'origin': 'opaque',
              'format': 'opaque'}
SVC_SPEC = {'render': {'raises': ['RequestError'], 'returns': 'opaque'}, 'Response': {'pure': True},
            'layer': {'raises': ['RequestError']}, 'authorize_tile_layer': {'raises': ['RequestError']},
            'check_request': {'raises': ['RequestError']}, 'check_request_dimensions': {'raises': ['RequestError']},
            'as_buffer': {'pure': True}, 'cache_headers': {'pure': True}, 'make_conditional': {'pure': True}}

for key, arg in (('mapproxy.service.tile:TileServer.map', 'tile_request'),
                 ('mapproxy.service.wmts:WMTSServer.tile', 'request'),
                 ('mapproxy.service.kml:KMLServer.map', 'map_request')):
    cls(key.rsplit('.', 1)[0], fields=dict(layers='opaque', md='opaque', max_tile_age='opaque', use_dimension_layers='bool',
                                           origin='opaque', matrix_sets='opaque', info_formats='opaque',
                                           request_parser='opaque', capabilities_class='opaque', fi_transformers='opaque'))
    contract(key, props=['C20'], types={arg: 'opaque'}, returns='opaque', default_callee='opaque', opaque=['Response'],
             opaque_fields=SVC_FIELDS, stable_fields=['cacheable', 'timestamp', 'size', 'http'],
             opaque_spec=dict(SVC_SPEC, layer={'raises': ['RequestError'], 'returns': 'tuple[opaque,opt[opaque]]'}) if key.endswith('TileServer.map') else SVC_SPEC,
             raises={'RequestError': True}, trace=[_uncacheable_gets_no_store, _handler_protocol, _tile_answer])


# ---- Response.make_conditional / cache_headers -------------------------------------------------------------------------
R = 'mapproxy.response:'
cls(R + 'Response', fields=dict(response='opaque', _status='str', _timestamp='opt[real]', headers='dict[str,str]'))


def _httpdate(ex, st, s):
    """value of an HTTP date string: uninterpreted (email.utils.parsedate + calendar.timegm), None if malformed"""
    import z3
    from pyvc.values import VOpt, VReal, VNone, NONE
    if isinstance(s, VNone):
        return NONE
    isnone = z3.Function('httpdate_isnone', z3.StringSort(), z3.BoolSort())
    val = z3.Function('httpdate_val', z3.StringSort(), z3.RealSort())
    t = s.val.t if isinstance(s, VOpt) else s.t
    none_in = s.isnone if isinstance(s, VOpt) else z3.BoolVal(False)
    return VOpt(z3.Or(none_in, isnone(t)), VReal(val(t)))


ghost('httpdate', ['s'], _httpdate)
contract('mapproxy.util.times:parse_httpdate', props=[], verify=False,
         types=dict(date='opt[str]'), returns='opt[real]',
         ensures=['result == httpdate(date)', 'implies(date is None, result is None)'])

NM = "'304 Not Modified'"
contract(R + 'Response.make_conditional', props=['C20'],
         types=dict(req='opt[opaque]'), returns='none',
         opaque_fields={'environ': 'dict[str,str]'}, stable_fields=['environ'],
         inline=['status_code', '_status_set', '_etag_get'],
         requires=["self._status != " + NM],
         modifies=['self._status', 'self.response', 'self.headers'],
         ensures=[
             # a request carrying the current ETag is answered 304 with no body and no Content-type
             """implies(req is not None and 'ETag' in old(self.headers) and 'HTTP_IF_NONE_MATCH' in req.environ
                        and old(self.headers)['ETag'] == req.environ['HTTP_IF_NONE_MATCH'],
                        self._status == %s and not ('Content-type' in self.headers))""" % NM,
             # 304 is never sent unless the client's validator matches: ETag equal, or Last-Modified not newer than
             # a well-formed If-Modified-Since
             """implies(self._status == %s, req is not None and (
                        ('ETag' in old(self.headers) and 'HTTP_IF_NONE_MATCH' in req.environ
                         and old(self.headers)['ETag'] == req.environ['HTTP_IF_NONE_MATCH'])
                        or (old(self._timestamp) is not None and 'HTTP_IF_MODIFIED_SINCE' in req.environ
                            and httpdate(req.environ['HTTP_IF_MODIFIED_SINCE']) is not None
                            and old(self._timestamp) <= httpdate(req.environ['HTTP_IF_MODIFIED_SINCE']))))""" % NM,
             # otherwise nothing changes
             "implies(self._status != %s, self._status == old(self._status))" % NM,
             # all other headers are untouched
             "forall_str(lambda k: implies(k != 'Content-type', (k in self.headers) == (k in old(self.headers)) and implies(k in self.headers, self.headers[k] == old(self.headers)[k])))",
         ],
         must_fail="self._status == " + NM)

contract(R + 'Response.cache_headers', props=['C20'],
         types=dict(timestamp='opt[real]', etag_data='opt[tuple[opt[real],opt[int]]]', max_age='opt[int]', no_cache='bool'),
         returns='none', default_callee='inline',
         opaque_spec={'format_date_time': {'returns': 'str', 'pure': True}, 'wsgiref.handlers.format_date_time': {'returns': 'str', 'pure': True}},
         raises={'AssertionError': 'no_cache and ((timestamp is not None and timestamp != 0) or (max_age is not None and max_age != 0))'},
         modifies=['self.headers', 'self._timestamp'],
         ensures=[
             # no-store directives exactly as requested
             """implies(no_cache, 'Cache-Control' in self.headers and self.headers['Cache-Control'] == 'no-cache, no-store'
                        and 'Pragma' in self.headers and self.headers['Pragma'] == 'no-cache'
                        and 'Expires' in self.headers and self.headers['Expires'] == '-1')""",
             # validators: an ETag appears only when etag_data is given; Last-modified only with a timestamp
             "implies(etag_data is None, ('ETag' in self.headers) == ('ETag' in old(self.headers)))",
             "implies(etag_data is not None, 'ETag' in self.headers)",
             "implies(timestamp is None or timestamp == 0, ('Last-modified' in self.headers) == ('Last-modified' in old(self.headers)))",
             "implies(timestamp is not None and timestamp != 0, self._timestamp == timestamp and 'Last-modified' in self.headers)",
             # public caching only with a validator and a max age
             """implies(not ((timestamp is not None and timestamp != 0) or etag_data is not None) or max_age is None,
                        ('Cache-control' in self.headers) == ('Cache-control' in old(self.headers)))""",
         ],
         must_fail="'ETag' in self.headers")


# the HTTP date is interpreted as GMT (calendar.timegm), never as local time
def _parse_is_utc(ex, st, post, result):
    import z3
    from pyvc.values import eq
    gm = T.evs(st, 'timegm')
    mk = T.evs(st, 'mktime')
    pd = T.evs(st, 'parsedate')
    ok = not mk and len(pd) == 1
    yield ('http_date_is_gmt', z3.BoolVal(ok and (len(gm) == 1 or result is None or not gm)),
           'If-Modified-Since is parsed with email.utils.parsedate and converted with calendar.timegm (GMT), never mktime')
    if gm:
        yield ('result_is_timegm', eq(result, gm[-1][1].result), 'the result is the GMT timestamp')
    if gm and len(pd) == 1:
        parsed = pd[0][1].result
        parsed = parsed.val if hasattr(parsed, 'isnone') else parsed
        arg = gm[-1][1].args[0]
        arg = arg.val if hasattr(arg, 'isnone') else arg
        good = hasattr(arg, 'items') and arg.items is not None and len(arg.items) == len(parsed.items) == 9
        g = z3.BoolVal(bool(good))
        if good:
            y = parsed.items[0].t
            g = z3.And(g, arg.items[0].t == z3.If(y < 1970, y + 2000, y), *[eq(a, b) for a, b in zip(arg.items[1:], parsed.items[1:])])
        yield ('two_digit_years_are_2000s', g,
               'the tuple converted is the parsed date, unchanged except that a year before 1970 (a two-digit year) is read as '
               '2000 + year')
    if len(pd) == 1:
        r = pd[0][1].result
        isn = r.isnone if hasattr(r, 'isnone') else z3.BoolVal(False)
        res_none = result.isnone if hasattr(result, 'isnone') else z3.BoolVal(result is None or type(result).__name__ == 'VNone')
        yield ('malformed_date_is_none', isn == res_none, 'an unparseable date gives None (the header is then ignored), a parseable one a timestamp')


contract('mapproxy.util.times:parse_httpdate', props=['C20'],
         types=dict(date='opt[str]'), returns='opt[real]', default_callee='opaque',
         opaque_spec={'parsedate': {'returns': 'opt[tuple[int,int,int,int,int,int,int,int,int]]', 'pure': True},
                      'timegm': {'returns': 'real', 'pure': True}, 'mktime': {'returns': 'real', 'pure': True}},
         ensures=['result == httpdate(date)', 'implies(date is None, result is None)'],
         assume_ensures=True,
         trace=[_parse_is_utc])


# ---- TileResponse: the answer object carries the validators and the cacheability of the TILE (not of an image derived from it) ----------
def _tile_response_fields(ex, st, post, result):
    import z3
    from pyvc.values import eq
    tile = post.env['tile']
    h = st.heap[post.env['self'].ref]
    t0 = st.trace[0] if st.trace else None
    def f(name):
        return ex.opaque_field_at(st, t0, tile, name) if t0 is not None else ex.opaque_field(st, tile, name)
    g = z3.And(eq(h['timestamp'], f('timestamp')), eq(h['size'], f('size')), eq(h['cacheable'], f('cacheable')))
    yield ('validators_and_cacheability_are_the_tiles', g,
           'TileResponse.timestamp / size / cacheable are the values of the tile itself: a tile marked not cacheable (an upstream '
           'error mapped to a fill image) stays not cacheable whatever was done to its image afterwards (watermark, clipping)')
    sb = [e for i, e in T.evs(st, 'source_buffer')]
    ok = len(sb) == 1 and sb[0].recv is not None and sb[0].recv.t.eq(tile.t) and h.get('_buf') is sb[0].result
    yield ('body_is_the_tiles_buffer', z3.BoolVal(bool(ok)), 'the body is tile.source_buffer(format, image_opts) of that tile')


cls('mapproxy.service.tile:TileResponse', fields=dict(tile='opaque', timestamp='opt[real]', size='opt[int]', cacheable='bool', _buf='opaque',
                                                       format='opaque'))
contract('mapproxy.service.tile:TileResponse.__init__', props=['C20'],
         types=dict(tile='opaque', format='opaque', timestamp='opaque', image_opts='opaque'), returns='none', default_callee='opaque',
         opaque_fields=dict(SVC_FIELDS), stable_fields=['timestamp', 'size', 'cacheable'],
         opaque_spec={'source_buffer': {'pure': True}, '_format_from_magic_bytes': {'pure': True}},
         opaque=['_format_from_magic_bytes'], modifies=['self.tile', 'self.timestamp', 'self.size', 'self.cacheable', 'self._buf', 'self.format'],
         trace=[_tile_response_fields])
