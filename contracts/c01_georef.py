"""C01 - map content and feature-info queries land at the right place on the ground: placement arithmetic
(resampling / reprojection accuracy is outside)."""
from pyvc.api import contract, cls, ghost, lemma
from pyvc import tracelib as T
from . import shared_grid, c03_grid, c04_meta, c17_upstream  # noqa

# ---- clicked pixel -> ground coordinate (y axis flipped: pixel rows grow downwards) -----------------------------------------
cls('mapproxy.layer:InfoQuery', fields=dict(bbox='tuple[real,real,real,real]', size='tuple[int,int]', srs='opaque',
                                            pos='tuple[int,int]', info_format='opaque', format='opaque', feature_count='opaque'))
contract('mapproxy.layer:InfoQuery.coord', props=['C01'], types={}, returns='tuple[real,real]',
         requires=['self.size[0] > 0 and self.size[1] > 0'],
         ensures=['result[0] == self.bbox[0] + self.pos[0] * (self.bbox[2] - self.bbox[0]) / self.size[0]',
                  'result[1] == self.bbox[1] + (self.size[1] - self.pos[1]) * (self.bbox[3] - self.bbox[1]) / self.size[1]'],
         must_fail='result[0] == self.bbox[0]')
lemma('lin_transf_roundtrip', ['C01'],
      doc='make_lin_transf(a, b) followed by make_lin_transf(b, a) is the identity (x component; widths non-zero)',
      fn=lambda z3: (lambda x, a0, a2, b0, b2: ([a2 != a0, b2 != b0],
                                                a0 + ((b0 + (x - a0) * (b2 - b0) / (a2 - a0)) - b0) * (a2 - a0) / (b2 - b0) == x))(
          *z3.Reals('x a0 a2 b0 b2')))


def _fi_transfer(ex, st, post, result):
    """feature info for an unsupported SRS: the point handed to the reprojection is the exact ground position of the
    clicked pixel (width AND height of the request), and the forwarded pixel is the rounded affine image of the
    reprojected point in the new bbox/size"""
    import z3
    from pyvc.values import eq, VSeq, VReal, to_real
    q = post.env['query']
    tr = T.evs(st, 'transform_to')
    if len(tr) != 1:
        yield ('clicked_point_reprojected_once', z3.BoolVal(False), 'the clicked point is reprojected exactly once')
        return
    e = tr[0][1]
    bbox = ex.opaque_field_at(st, e, q, 'bbox')
    size = ex.opaque_field_at(st, e, q, 'size')
    pos = ex.opaque_field_at(st, e, q, 'pos')
    b = [x.t for x in bbox.items]
    w, h = to_real(size.items[0]), to_real(size.items[1])
    px, py = to_real(pos.items[0]), to_real(pos.items[1])
    gx = b[0] + px * (b[2] - b[0]) / w
    gy = b[1] + (h - py) * (b[3] - b[1]) / h
    want = VSeq([VReal(gx), VReal(gy)], kind='tuple')
    yield ('ground_point_of_clicked_pixel', z3.Implies(z3.And(w > 0, h > 0), eq(e.args[1], want)),
           'the coordinate that is reprojected is bbox.min + pos * extent / size in x and bbox.miny + (height - row) * extent / height in y')


cls('mapproxy.client.wms:WMSInfoClient', fields=dict(request_template='opaque', http_client='opaque', supported_srs='opaque'))
contract('mapproxy.client.wms:WMSInfoClient._get_transformed_query', props=['C01'],
         types=dict(query='opaque'), returns='opaque', default_callee='opaque',
         opaque_fields={'bbox': 'tuple[real,real,real,real]', 'size': 'tuple[int,int]', 'pos': 'tuple[int,int]', 'srs': 'opaque'},
         stable_fields=['bbox', 'size', 'pos', 'srs', 'info_format', 'feature_count'],
         inline=['make_lin_transf', 'func'],
         opaque_spec={'best_srs': {'pure': True}, 'transform_bbox_to': {'returns': 'tuple[real,real,real,real]', 'pure': True},
                      'transform_to': {'returns': 'tuple[real,real]', 'pure': True}, 'InfoQuery': {'pure': True}},
         opaque=['InfoQuery'],
         raises={'ZeroDivisionError': True}, trace=[_fi_transfer])

# ---- mosaic of tiles -----------------------------------------------------------------------------------------------------------
cls('mapproxy.image.tile:TileMerger', fields=dict(tile_grid='tuple[int,int]', tile_size='tuple[int,int]'))
contract('mapproxy.image.tile:TileMerger._tile_offset', props=['C01'], types=dict(i='int'), returns='tuple[int,int]',
         requires=['self.tile_grid[0] >= 1 and self.tile_grid[1] >= 1', 'i >= 0'],
         ensures=['result[0] == (i % self.tile_grid[0]) * self.tile_size[0]',
                  'result[1] == (i // self.tile_grid[0]) * self.tile_size[1]'],
         must_fail='result[0] == 0')
contract('mapproxy.image.tile:TileMerger._src_size', props=['C01'], types={}, returns='tuple[int,int]',
         ensures=['result[0] == self.tile_grid[0] * self.tile_size[0] and result[1] == self.tile_grid[1] * self.tile_size[1]'],
         must_fail='result[0] == 0')
lemma('mosaic_offset_is_ground_offset', ['C01'],
      doc='tile m of the row-major list (column c = m % w, row r = m // w from the top) lies at ground offset (c*tw*res, r*th*res) '
          'from the north-west corner of the block: pasting it at pixel (c*tw, r*th) shows every tile where it belongs',
      fn=lambda z3: (lambda b0, res, x0, c, tw: ([res > 0, tw >= 1],
                     ((b0 + z3.ToReal(x0 + c) * res * z3.ToReal(tw)) - (b0 + z3.ToReal(x0) * res * z3.ToReal(tw))) == z3.ToReal(c * tw) * res))(
          z3.Real('b0'), z3.Real('res'), z3.Int('x0'), z3.Int('c'), z3.Int('tw')))


# ---- cutting a tile out of a meta image -------------------------------------------------------------------------------------------
def _crop_alignment(ex, st, post, result):
    """pixel (u, v) of the returned tile is pixel (crop_x + u, crop_y + v) of the meta image wherever that exists: the crop
    origin minus the paste position equals the requested crop coordinate, in both branches"""
    import z3
    from pyvc.values import eq, to_int
    cc = post.env['crop_coord']
    ts = post.env['tile_size']
    minx, miny = to_int(cc.items[0]), to_int(cc.items[1])
    crops = T.evs(st, 'crop')
    pastes = T.evs(st, 'paste')
    ok = len(crops) == 1 and len(pastes) <= 1
    goal = z3.BoolVal(ok)
    if ok:
        box = crops[0][1].args[0]
        cx0, cy0 = to_int(box.items[0]), to_int(box.items[1])
        if pastes:
            p = pastes[0][1].args[1]
            px, py = to_int(p.items[0]), to_int(p.items[1])
            goal = z3.And(goal, z3.BoolVal(pastes[0][1].args[0] is crops[0][1].result))
        else:
            px, py = z3.IntVal(0), z3.IntVal(0)
        goal = z3.And(goal, cx0 - px == minx, cy0 - py == miny, px >= 0, py >= 0)
        # the crop box is the requested window clipped to the meta image
        w = to_int(box.items[2]) - cx0
        h = to_int(box.items[3]) - cy0
        goal = z3.And(goal, w <= to_int(ts.items[0]), h <= to_int(ts.items[1]))
    yield ('crop_origin_minus_paste_is_crop_coord', goal,
           'TileSplitter.get_tile: the cropped window, pasted (if it overlaps the border) at abs(min(crop, 0)), keeps every '
           'pixel at its position relative to the requested crop coordinate')


cls('mapproxy.image.tile:TileSplitter', fields=dict(meta_img='opaque', image_opts='opaque'))
contract('mapproxy.image.tile:TileSplitter.get_tile', props=['C01', 'C04'],
         types=dict(crop_coord='tuple[int,int]', tile_size='tuple[int,int]'), returns='opaque', default_callee='opaque',
         opaque_fields={'size': 'tuple[int,int]'}, stable_fields=['size'],
         opaque_spec={'crop': {'pure': True}, 'create_image': {'pure': True}, 'paste': {'pure': True}, 'ImageSource': {'pure': True}},
         requires=['tile_size[0] >= 1 and tile_size[1] >= 1'],
         trace=[_crop_alignment])
