"""String models (A-fmt): integer formatting as uninterpreted injective functions with per-application facts."""
import z3
from .values import (VInt, VReal, VBool, VStr, VNone, NONE, VOpt, VSeq, VObj, VOpaque, Unsupported, Raised, uid,
                     to_int, to_real, is_num)

fmt_d = z3.Function('fmt_d', z3.IntSort(), z3.StringSort())             # '%d' % n == str(n)
unfmt_d = z3.Function('unfmt_d', z3.StringSort(), z3.IntSort())
fmt_0d = z3.Function('fmt_0d', z3.IntSort(), z3.IntSort(), z3.StringSort())   # '%0Kd' % n
unfmt_0d = z3.Function('unfmt_0d', z3.IntSort(), z3.StringSort(), z3.IntSort())
fmt_0x = z3.Function('fmt_0x', z3.IntSort(), z3.IntSort(), z3.StringSort())   # '%0Kx' % n
unfmt_0x = z3.Function('unfmt_0x', z3.IntSort(), z3.StringSort(), z3.IntSort())
fmt_r = z3.Function('fmt_r', z3.RealSort(), z3.StringSort())
str_of_obj = z3.Function('str_of_obj', z3.DeclareSort('Obj'), z3.StringSort())

UNSAFE = ['/', '\\', '.']


def _facts_d(st, n, s):
    st.assume(unfmt_d(s) == n)
    st.assume(z3.Implies(n >= 0, z3.StrToInt(s) == n))
    st.assume(z3.Length(s) >= 1)
    for ch in UNSAFE:
        st.assume(z3.Not(z3.Contains(s, z3.StringVal(ch))))


def int_to_str(ex, st, n):
    if z3.is_int_value(n):
        return VStr(str(n.as_long()))
    s = fmt_d(n)
    _facts_d(st, n, s)
    ex.used_stubs.add("A-fmt: '%d' % n / str(n) injective, image free of '/', '\\\\', '.'")
    return VStr(s)


def int_to_str_pad(ex, st, n, width, hexa=False):
    if z3.is_int_value(n):
        v = n.as_long()
        return VStr(('%0' + str(width) + ('x' if hexa else 'd')) % v)
    f, uf = (fmt_0x, unfmt_0x) if hexa else (fmt_0d, unfmt_0d)
    s = f(width, n)
    st.assume(uf(width, s) == n)
    base = 16 if hexa else 10
    st.assume(z3.Implies(z3.And(0 <= n, n < base ** width), z3.Length(s) == width))
    st.assume(z3.Implies(n >= base ** width, z3.Length(s) > width))
    st.assume(z3.Implies(n < 0, z3.And(z3.Length(s) >= width, z3.PrefixOf(z3.StringVal('-'), s))))
    st.assume(z3.Implies(n >= 0, z3.Not(z3.Contains(s, z3.StringVal('-')))))
    for ch in UNSAFE:
        st.assume(z3.Not(z3.Contains(s, z3.StringVal(ch))))
    ex.used_stubs.add("A-fmt: '%0Kd'/'%0Kx' injective per K, length K iff 0 <= n < base^K, no '/', '\\\\', '.'")
    return VStr(s)


def to_str(ex, st, v):
    if isinstance(v, VStr):
        return v
    if isinstance(v, (VInt,)):
        return int_to_str(ex, st, v.t)
    if isinstance(v, VBool):
        return VStr(z3.If(v.t, z3.StringVal('True'), z3.StringVal('False')))
    if isinstance(v, VNone):
        return VStr('None')
    if isinstance(v, VReal):
        return VStr(fmt_r(v.t))
    if isinstance(v, VOpaque):
        return VStr(str_of_obj(v.t))
    if isinstance(v, VOpt):
        from .values import ite
        return VStr(z3.If(v.isnone, z3.StringVal('None'), to_str(ex, st, v.val).t))
    from .values import VFunc
    if isinstance(v, VFunc):
        return VStr(z3.String(uid('str_of')))
    if isinstance(v, VSeq) and not st.spec:
        # the text of a tuple / list (only ever used for messages): an unknown string
        ex.used_stubs.add('str(sequence): an unknown string (message text)')
        return VStr(z3.String(uid('str_of_seq')))
    raise Unsupported('str(%r)' % (v,))


def percent_format(ex, st, fmt, arg, node=None):
    f = fmt.conc()
    if f is None:
        raise Unsupported('%-format with symbolic format string')
    args = arg.items if isinstance(arg, VSeq) and arg.concrete and arg.kind == 'tuple' else [arg]
    if any(isinstance(a, VOpt) for a in args):
        # refine optional arguments by case split (None branches that the path condition excludes are pruned)
        k = [i for i, a in enumerate(args) if isinstance(a, VOpt)][0]
        res = []
        for s2, fv in ex.force(st, args[k]):
            a2 = list(args)
            a2[k] = fv
            res.extend(percent_format(ex, s2, fmt, VSeq(a2, kind='tuple'), node))
        return res
    out = []
    i = 0
    ai = 0
    lit = ''
    import re
    pat = re.compile(r'%(0?)(\d*)([dsxrif%])')
    pos = 0
    parts = []
    for m in pat.finditer(f):
        if m.start() > pos:
            parts.append(VStr(f[pos:m.start()]))
        pos = m.end()
        zero, width, conv = m.groups()
        if conv == '%':
            parts.append(VStr('%'))
            continue
        if ai >= len(args):
            return [(st, Raised('TypeError', note='not enough arguments for format string'))]
        a = args[ai]
        ai += 1
        if conv in 'di':
            if isinstance(a, VOpt):
                raise Unsupported('%d of optional')
            if not isinstance(a, (VInt, VBool)):
                if isinstance(a, (VStr, VNone, VSeq)):
                    return [(st, Raised('TypeError', note='%d format: a number is required'))]
                if isinstance(a, VReal):
                    from .builtins import trunc_real
                    a = VInt(trunc_real(a.t))
                else:
                    raise Unsupported('%%d of %r' % (a,))
            if width and zero:
                parts.append(int_to_str_pad(ex, st, to_int(a), int(width)))
            elif width:
                raise Unsupported('space-padded %d')
            else:
                parts.append(int_to_str(ex, st, to_int(a)))
        elif conv == 'x':
            if not isinstance(a, (VInt, VBool)):
                return [(st, Raised('TypeError', note='%x format: an integer is required'))]
            if width and zero:
                parts.append(int_to_str_pad(ex, st, to_int(a), int(width), hexa=True))
            else:
                raise Unsupported('%x without zero padding')
        elif conv in 'sr':
            if width:
                raise Unsupported('padded %s')
            parts.append(to_str(ex, st, a))
        else:
            raise Unsupported('format directive %' + conv)
    if pos < len(f):
        parts.append(VStr(f[pos:]))
    if ai != len(args):
        return [(st, Raised('TypeError', note='not all arguments converted during string formatting'))]
    if not parts:
        return [(st, VStr(''))]
    t = parts[0].t
    for p in parts[1:]:
        t = z3.Concat(t, p.t)
    return [(st, VStr(t))]


def str_getitem(ex, st, base, idx, node=None):
    raise Unsupported('string indexing')


def str_slice(ex, st, base, lo, hi):
    c = base.conc()
    if c is not None and (lo is None or isinstance(lo, VInt) and lo.conc() is not None) and \
            (hi is None or isinstance(hi, VInt) and hi.conc() is not None):
        return [(st, VStr(c[(lo.conc() if lo is not None else None):(hi.conc() if hi is not None else None)],
                          isbytes=base.isbytes))]
    n = z3.Length(base.t)

    def idx(v, default):
        if v is None or isinstance(v, VNone):
            return default
        t = to_int(v)
        return z3.If(t < 0, z3.If(t + n < 0, 0, t + n), z3.If(t > n, n, t))
    a, b = idx(lo, z3.IntVal(0)), idx(hi, n)
    return [(st, VStr(z3.SubString(base.t, a, z3.If(b > a, b - a, 0)), isbytes=base.isbytes))]


def int_of_str(ex, st, v, rest, node=None):
    c = v.conc()
    if c is not None:
        try:
            return [(st, VInt(int(c)))]
        except ValueError:
            return [(st, Raised('ValueError', note='int(%r)' % c))]
    # int(s): s is a (possibly negated) string of decimal digits, or ValueError.  z3's str.to_int gives the value
    # of a digit string and -1 otherwise.  (Python also accepts surrounding whitespace, '+', '_' separators and
    # non-ASCII digits: those inputs are treated as ValueError here -- recorded in the trusted base.)
    digits = z3.StrToInt(v.t)
    neg_body = z3.SubString(v.t, 1, z3.Length(v.t) - 1)
    negdigits = z3.StrToInt(neg_body)
    is_pos = digits >= 0
    is_neg = z3.And(z3.PrefixOf(z3.StringVal('-'), v.t), negdigits >= 0)
    ex.used_stubs.add("int(str): decimal digit strings (optionally '-' prefixed) via str.to_int, everything else ValueError")
    outs = []
    for s2, b in ex.branch(st, is_pos):
        if b:
            s2.assume(z3.Implies(digits >= 0, unfmt_d(v.t) == digits))
            outs.append((s2, VInt(digits)))
        else:
            for s3, b2 in ex.branch(s2, is_neg):
                if b2:
                    outs.append((s3, VInt(-negdigits)))
                else:
                    outs.append((s3, Raised('ValueError', note='int() of non-numeric string')))
    return outs


def float_of_str(ex, st, v, node=None):
    raise Unsupported('float(str)')


# ---- case folding: uninterpreted, constant-folded where possible -------------------------------------------
str_lower = z3.Function('str_lower', z3.StringSort(), z3.StringSort())
str_upper = z3.Function('str_upper', z3.StringSort(), z3.StringSort())


def lower_of(v):
    c = v.conc()
    if c is not None:
        return VStr(c.lower())
    return VStr(str_lower(v.t))


def upper_of(v):
    c = v.conc()
    if c is not None:
        return VStr(c.upper())
    return VStr(str_upper(v.t))
