"""
C18 / defect 3: error documents disclose file-system paths of the server.

When a source of type `mapserver` answers with something that is not an image
(MapServer reports its own errors as XML/HTML), WMSClient._check_resp puts the
"URL" of the request into the SourceError.  For a mapserver source that URL is
mapserver://<absolute path of the mapserv binary>?map=<absolute path of the
mapfile>&...  and the text is forwarded verbatim into the WMS / TMS / WMTS
error documents (even with the default http.hide_error_details: true).

run:  cd /tmp/wt/hunt/C18 && /venv/bin/python demo.py
"""
import io
import logging
import os
import shutil
import stat
import sys
import tempfile

sys.path.insert(0, os.getcwd())
logging.disable(logging.CRITICAL)

from mapproxy.wsgiapp import make_wsgi_app  # noqa: E402

CONF = """
globals:
  cache:
    base_dir: %(tmp)s/cache_data
services:
  tms:
  wmts:
  wms:
    srs: ['EPSG:4326', 'EPSG:3857']
    md:
      title: demo
layers:
  - name: ms
    title: MapServer layer
    sources: [ms_source]
  - name: ms_cached
    title: cached MapServer layer
    sources: [ms_cache]
caches:
  ms_cache:
    sources: [ms_source]
    grids: [GLOBAL_MERCATOR]
sources:
  ms_source:
    type: mapserver
    req:
      map: %(tmp)s/maps/secret_project.map
      layers: roads
    mapserver:
      binary: %(tmp)s/cgi-bin/mapserv
      working_dir: %(tmp)s/maps
"""

# stand-in for the MapServer CGI: it answers like MapServer does when it cannot
# render a request (an OGC service exception, not an image)
FAKE_MAPSERV = """#!/bin/sh
printf 'Content-Type: application/vnd.ogc.se_xml\\r\\n\\r\\n'
printf '<ServiceExceptionReport><ServiceException>msWMSLoadGetMapParams(): WMS server error.</ServiceException></ServiceExceptionReport>'
"""


def call(app, path, qs=''):
    env = {
        'REQUEST_METHOD': 'GET', 'PATH_INFO': path, 'QUERY_STRING': qs,
        'SCRIPT_NAME': '', 'SERVER_NAME': 'localhost', 'SERVER_PORT': '80',
        'HTTP_HOST': 'localhost', 'wsgi.url_scheme': 'http',
        'wsgi.errors': io.StringIO(), 'wsgi.input': io.BytesIO(),
    }
    out = {}

    def start_response(status, headers, exc_info=None):
        out['status'] = status
        out['headers'] = dict((k.lower(), v) for k, v in headers)
    body = b''.join(app(env, start_response))
    return out['status'], out['headers'], body


GETMAP = ('service=WMS&version=%s&request=GetMap&layers=ms&styles=&%s=EPSG:3857'
          '&bbox=0,0,1000000,1000000&width=100&height=100&format=image/png')

CASES = [
    ('WMS 1.1.1 GetMap', '/service', GETMAP % ('1.1.1', 'srs')),
    ('WMS 1.3.0 GetMap', '/service', GETMAP % ('1.3.0', 'crs')),
    ('TMS tile', '/tms/1.0.0/ms_cached/0/0/0.png', ''),
    ('WMTS tile', '/wmts/ms_cached/GLOBAL_MERCATOR/0/0/0.png', ''),
]


def main():
    tmp = os.path.realpath(tempfile.mkdtemp(prefix='c18_demo3_'))
    failures = 0
    try:
        os.makedirs(os.path.join(tmp, 'cgi-bin'))
        os.makedirs(os.path.join(tmp, 'maps'))
        script = os.path.join(tmp, 'cgi-bin', 'mapserv')
        with open(script, 'w') as f:
            f.write(FAKE_MAPSERV)
        os.chmod(script, os.stat(script).st_mode | stat.S_IXUSR | stat.S_IXGRP | stat.S_IXOTH)
        with open(os.path.join(tmp, 'maps', 'secret_project.map'), 'w') as f:
            f.write('MAP\nEND\n')
        conf = os.path.join(tmp, 'mapproxy.yaml')
        with open(conf, 'w') as f:
            f.write(CONF % {'tmp': tmp})
        app = make_wsgi_app(conf, ignore_config_warnings=True)

        secrets = [tmp, 'cgi-bin/mapserv', 'secret_project.map', 'mapserver://']
        for desc, path, qs in CASES:
            status, headers, body = call(app, path, qs)
            text = body.decode('utf-8', 'replace')
            from urllib.parse import unquote
            haystack = text + '\n' + unquote(text)
            leaked = [s for s in secrets if s in haystack]
            if leaked:
                failures += 1
                print('FAILED  %-18s -> %s %s' % (desc, status, headers.get('content-type')))
                print('          error document discloses server paths %r:' % (leaked,))
                print('          ' + text.strip().replace('\n', '\n          '))
            else:
                print('ok      %-18s -> %s %s: %s' % (desc, status, headers.get('content-type'),
                                                    ' '.join(text.split())[-120:]))
    finally:
        shutil.rmtree(tmp, ignore_errors=True)

    if failures:
        print('\nPROPERTY C18 VIOLATED: %d error document(s) contain the absolute path of the mapserv binary and '
              'of the mapfile' % failures)
        return 1
    print('\nno file-system path in any error document')
    return 0


if __name__ == '__main__':
    sys.exit(main())
