#!/usr/bin/env python3-vt
"""Mutation audit of the contracts (a development tool, not a registered check).

For every function under contract, small syntactic mutants of the REAL source of that function are generated (comparison
and arithmetic operator swaps, off-by-one constants, negated conditions, dropped call statements, swapped call arguments).
Each mutant is written into a scratch copy of /repo and the function's own obligations are re-generated and discharged.
A mutant is `killed` if some obligation fails (sat / unknown / vacuous), `degraded` if the function left the verifier's
subset, `survived` otherwise.  Survivors are either equivalent mutants or point at a contract that is weaker than the
code - they are listed for reading; nothing here decides a property.

usage: tools/mutate.py [--only substr] [--per-fn N] [--jobs J] [--out FILE]
"""
import argparse
import ast
import copy
import importlib
import json
import os
import shutil
import subprocess
import sys
import tempfile
from concurrent.futures import ThreadPoolExecutor

VERIF = os.path.dirname(os.path.dirname(os.path.abspath(__file__)))
sys.path.insert(0, VERIF)
REPO = '/repo'

CMP = {ast.Lt: ast.LtE, ast.LtE: ast.Lt, ast.Gt: ast.GtE, ast.GtE: ast.Gt, ast.Eq: ast.NotEq, ast.NotEq: ast.Eq,
       ast.Is: ast.IsNot, ast.IsNot: ast.Is, ast.In: ast.NotIn, ast.NotIn: ast.In}
BIN = {ast.Add: ast.Sub, ast.Sub: ast.Add, ast.Mult: ast.FloorDiv, ast.FloorDiv: ast.Mult, ast.Mod: ast.FloorDiv}


def mutants_of(fn_node):
    """-> list of (description, mutated copy of fn_node)"""
    out = []
    nodes = list(ast.walk(fn_node))
    for idx, n in enumerate(nodes):
        def mk(desc, edit):
            m = copy.deepcopy(fn_node)
            target = list(ast.walk(m))[idx]
            if edit(target) is not False:
                out.append(('line %d: %s' % (getattr(n, 'lineno', 0), desc), m))
        if isinstance(n, ast.Compare) and len(n.ops) == 1 and type(n.ops[0]) in CMP:
            new = CMP[type(n.ops[0])]
            mk('%s -> %s' % (type(n.ops[0]).__name__, new.__name__), lambda t, new=new: t.ops.__setitem__(0, new()))
        elif isinstance(n, ast.BinOp) and type(n.op) in BIN:
            new = BIN[type(n.op)]
            mk('%s -> %s' % (type(n.op).__name__, new.__name__), lambda t, new=new: setattr(t, 'op', new()))
        elif isinstance(n, ast.Constant) and isinstance(n.value, int) and not isinstance(n.value, bool) and abs(n.value) < 10 ** 7:
            mk('const %r -> %r' % (n.value, n.value + 1), lambda t: setattr(t, 'value', t.value + 1))
        elif isinstance(n, ast.Constant) and isinstance(n.value, bool):
            mk('const %r -> %r' % (n.value, not n.value), lambda t: setattr(t, 'value', not t.value))
        elif isinstance(n, ast.If):
            mk('negate if-condition', lambda t: setattr(t, 'test', ast.UnaryOp(op=ast.Not(), operand=t.test)))
        elif isinstance(n, ast.BoolOp):
            new = ast.Or if isinstance(n.op, ast.And) else ast.And
            mk('%s -> %s' % (type(n.op).__name__, new.__name__), lambda t, new=new: setattr(t, 'op', new()))
        elif isinstance(n, ast.Expr) and isinstance(n.value, ast.Call) and not (isinstance(n.value.func, ast.Attribute) and
                                                                             n.value.func.attr in ('debug', 'info', 'warning', 'error', 'warn')):
            mk('drop call statement %s' % ast.unparse(n.value)[:40],
               lambda t: (setattr(t, 'value', ast.Constant(value=None))))
        elif isinstance(n, ast.Call) and len(n.args) >= 2 and not any(isinstance(a, ast.Starred) for a in n.args):
            mk('swap first two args of %s' % ast.unparse(n.func)[:30],
               lambda t: t.args.__setitem__(slice(0, 2), [t.args[1], t.args[0]]))
        elif isinstance(n, ast.Subscript) and isinstance(n.slice, ast.Constant) and isinstance(n.slice.value, int) and n.slice.value in (0, 1):
            mk('index [%d] -> [%d]' % (n.slice.value, 1 - n.slice.value), lambda t: setattr(t.slice, 'value', 1 - t.slice.value))
    return out


def run_mutant(job):
    key, modules, relfile, lines, new_src, desc = job
    d = tempfile.mkdtemp(prefix='pyvc-mut.')
    try:
        shutil.copytree(os.path.join(REPO, 'mapproxy'), os.path.join(d, 'mapproxy'))
        path = os.path.join(d, relfile)
        src = open(path).read().splitlines(keepends=True)
        src[lines[0] - 1:lines[1]] = [new_src + '\n']
        open(path, 'w').write(''.join(src))
        try:
            compile(''.join(src), path, 'exec')
        except SyntaxError as e:
            return {'key': key, 'mutant': desc, 'result': 'invalid', 'detail': str(e)}
        env = dict(os.environ, PYVC_REPO=d, PYTHONPATH=VERIF, PYVC_NO_RETRY='1')
        p = subprocess.run(['python3-vt', '-m', 'pyvc.cli', ','.join(modules), key], env=env, cwd=VERIF, capture_output=True,
                           text=True, timeout=900)
        lines_ = p.stdout.splitlines()
        bad = [ln.strip() for ln in lines_ if ln.strip().startswith(('FAIL', '??', 'VAC', 'MISS'))]
        unsup = [ln.strip() for ln in lines_ if 'UNSUPPORTED' in ln or 'ERROR' in ln]
        if bad:
            return {'key': key, 'mutant': desc, 'result': 'killed', 'detail': bad[0][:160]}
        if unsup:
            return {'key': key, 'mutant': desc, 'result': 'degraded', 'detail': unsup[0][:160]}
        if not any(ln.strip().startswith('ok') for ln in lines_):
            return {'key': key, 'mutant': desc, 'result': 'error', 'detail': (p.stdout + p.stderr)[-300:]}
        return {'key': key, 'mutant': desc, 'result': 'survived', 'detail': ''}
    except subprocess.TimeoutExpired:
        return {'key': key, 'mutant': desc, 'result': 'killed', 'detail': 'timeout (undecided)'}
    finally:
        shutil.rmtree(d, ignore_errors=True)


def main():
    ap = argparse.ArgumentParser()
    ap.add_argument('--only', default='')
    ap.add_argument('--per-fn', type=int, default=8)
    ap.add_argument('--jobs', type=int, default=12)
    ap.add_argument('--out', default=os.path.join(VERIF, 'selftest', 'mutation_audit.json'))
    a = ap.parse_args()
    import contracts
    from pyvc.api import REG
    from pyvc.progdb import ProgDB
    for mods in contracts.PROP_MODULES.values():
        for m in mods:
            importlib.import_module(m)
    db = ProgDB(REPO)
    jobs = []
    for key, c in sorted(REG.contracts.items()):
        if a.only not in key or not c.get('verify', True) or key.startswith('verif_harness'):
            continue
        fi = db.function(key)
        if fi is None:
            continue
        props = c.get('props') or []
        # the modules of EVERY property the contract serves (clauses merged in by later modules must be present)
        mods = []
        for p_ in props:
            for m_ in contracts.PROP_MODULES.get(p_, []):
                if m_ not in mods:
                    mods.append(m_)
        if not mods:
            continue
        src_lines = fi.module.source.splitlines()
        first = fi.node.lineno
        if fi.node.decorator_list:
            first = min(d.lineno for d in fi.node.decorator_list)
        indent = len(src_lines[fi.node.lineno - 1]) - len(src_lines[fi.node.lineno - 1].lstrip())
        ms = mutants_of(fi.node)
        # deterministic spread over the function
        step = max(1, len(ms) // a.per_fn)
        for desc, node in ms[::step][:a.per_fn]:
            try:
                text = ast.unparse(node)
            except Exception:       # noqa
                continue
            text = '\n'.join((' ' * indent + ln) if ln else ln for ln in text.splitlines())
            rel = os.path.relpath(fi.module.path, REPO)
            jobs.append((key, mods, rel, (first, fi.node.end_lineno), text, desc))
    print('%d mutants of %d functions' % (len(jobs), len({j[0] for j in jobs})), flush=True)
    res = []
    with ThreadPoolExecutor(max_workers=a.jobs) as pool:
        for r in pool.map(run_mutant, jobs):
            res.append(r)
            if r['result'] != 'killed':
                print('%-9s %s | %s | %s' % (r['result'], r['key'], r['mutant'], r['detail'][:100]), flush=True)
    summ = {}
    for r in res:
        summ[r['result']] = summ.get(r['result'], 0) + 1
    print('SUMMARY', summ)
    with open(a.out, 'w') as f:
        json.dump({'summary': summ, 'mutants': res}, f, indent=1)


if __name__ == '__main__':
    main()
