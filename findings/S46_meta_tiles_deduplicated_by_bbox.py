"""
C04 / defect 2: distinct meta tiles are thrown away as "duplicates" when their
truncated bboxes coincide.

TileCreator.create_tiles() collects the meta tiles of all requested tiles and
de-duplicates them BY BBOX (`if meta_tile.bbox not in meta_bboxes`).  The bbox
of a meta tile is truncated at the grid border (MetaGrid._buffered_bbox), so
two DIFFERENT meta tiles have the SAME bbox as soon as the buffer of each one
reaches the opposite grid border, i.e. meta_buffer >= pixel size of the
neighbouring meta tile(s) inside the grid (coarse levels / small meta_size /
large meta_buffer - e.g. meta_size [1, 1] with meta_buffer 256).

Only the first of these meta tiles is requested; the tiles of the others are
neither created nor stored, and the map that was asked for has holes
(background) where they belong.  Requested one at a time, every one of these
tiles is created without problems.

exit 0: property holds, exit 1: violated.
"""
import io
import os
import shutil
import sys
import tempfile
import threading
from http.server import BaseHTTPRequestHandler, HTTPServer
from urllib.parse import urlparse, parse_qs

from PIL import Image

sys.path.insert(0, os.getcwd())

from webtest import TestApp  # noqa: E402
from mapproxy.wsgiapp import make_wsgi_app  # noqa: E402

HALF = 20037508.342789244
UPSTREAM_LOG = []


def ground_picture(bbox, size):
    """picture that depends only on the ground position: four coloured
    quadrants of the world, never white (white = MapProxy's background)"""
    w, h = size
    minx, miny, maxx, maxy = bbox
    img = Image.new('RGB', size)
    px = img.load()
    for j in range(h):
        gy = maxy - (j + 0.5) * (maxy - miny) / h
        for i in range(w):
            gx = minx + (i + 0.5) * (maxx - minx) / w
            px[i, j] = (200 if gx < 0 else 60, 200 if gy < 0 else 60, 30)
    return img


class Handler(BaseHTTPRequestHandler):
    def do_GET(self):
        q = dict((k.upper(), v[0]) for k, v in parse_qs(urlparse(self.path).query).items())
        bbox = tuple(float(v) for v in q['BBOX'].split(','))
        size = int(q['WIDTH']), int(q['HEIGHT'])
        UPSTREAM_LOG.append((bbox, size))
        buf = io.BytesIO()
        ground_picture(bbox, size).save(buf, 'PNG')
        body = buf.getvalue()
        self.send_response(200)
        self.send_header('Content-type', 'image/png')
        self.send_header('Content-length', str(len(body)))
        self.end_headers()
        self.wfile.write(body)

    def log_message(self, *a):
        pass


CONF = """
services:
  wms:
    md: {title: t}
  tms:
layers:
  - name: big
    title: big buffer
    sources: [c_big]
  - name: one
    title: tiles requested one by one
    sources: [c_one]
caches:
  c_big:
    grids: [GLOBAL_MERCATOR]
    sources: [wms]
    meta_size: [1, 1]
    meta_buffer: 256
    cache: {type: file, directory: %(dir)s/big}
  c_one:
    grids: [GLOBAL_MERCATOR]
    sources: [wms]
    meta_size: [1, 1]
    meta_buffer: 256
    cache: {type: file, directory: %(dir)s/one}
sources:
  wms:
    type: wms
    req:
      url: http://127.0.0.1:%(port)d/service
      layers: ground
globals:
  cache:
    base_dir: %(dir)s
    lock_dir: %(dir)s/locks
    tile_lock_dir: %(dir)s/tlocks
    concurrent_tile_creators: 1
  image:
    paletted: false
"""


def stored_tiles(base):
    found = []
    for root, dirs, files in os.walk(base):
        for f in files:
            if f.endswith('.png'):
                found.append(os.path.relpath(os.path.join(root, f), base))
    return sorted(found)


def count_background(img):
    data = img.convert('RGB').tobytes()
    return sum(1 for i in range(0, len(data), 3) if data[i:i + 3] == b'\xff\xff\xff')


def main():
    tmp = tempfile.mkdtemp(prefix='c04_2_')
    httpd = HTTPServer(('127.0.0.1', 0), Handler)
    t = threading.Thread(target=httpd.serve_forever)
    t.daemon = True
    t.start()
    failures = []
    try:
        conf_file = os.path.join(tmp, 'mapproxy.yaml')
        with open(conf_file, 'w') as f:
            f.write(CONF % {'dir': tmp, 'port': httpd.server_address[1]})
        app = TestApp(make_wsgi_app(conf_file), use_unicode=False)

        # reference: the four tiles of level 1 (the 2x2 level; the global-mercator
        # TMS profile calls it level 0), one TMS request each
        ref = {}
        for x in (0, 1):
            for y in (0, 1):
                r = app.get('/tms/1.0.0/one/EPSG900913/0/%d/%d.png' % (x, y))
                ref[(x, y)] = Image.open(io.BytesIO(r.body)).convert('RGB')
        assert all(s.startswith('01/') for s in stored_tiles(os.path.join(tmp, 'one')))
        print('one by one (TMS): %d upstream requests, %d tiles stored, background pixels per tile: %s'
              % (len(UPSTREAM_LOG), len(stored_tiles(os.path.join(tmp, 'one'))),
                 [count_background(ref[k]) for k in sorted(ref)]))

        # the same four tiles needed by ONE request: a map of the whole world at the
        # resolution of level 1 (512x512)
        del UPSTREAM_LOG[:]
        r = app.get('/service?SERVICE=WMS&VERSION=1.1.1&REQUEST=GetMap&STYLES=&SRS=EPSG:900913'
                    '&FORMAT=image/png&WIDTH=512&HEIGHT=512&LAYERS=big&BBOX=%r,%r,%r,%r'
                    % (-HALF, -HALF, HALF, HALF))
        world = Image.open(io.BytesIO(r.body)).convert('RGB')
        stored = stored_tiles(os.path.join(tmp, 'big'))
        bg = count_background(world)
        print('one GetMap of the whole level: %d upstream request(s) %s, %d tile(s) stored %s, '
              '%d of %d pixels of the map are background'
              % (len(UPSTREAM_LOG), [s for b, s in UPSTREAM_LOG], len(stored), stored, bg, 512 * 512))

        if len(stored) != 4:
            failures.append('%d of the 4 needed tiles were created and stored by the request '
                            '(every one of them is created fine when requested alone)' % len(stored))
        if bg:
            failures.append('%d pixels inside the grid extent are left as background in the map' % bg)
        # tile by tile: the part of the map must be the tile as produced alone
        for (x, y), tile in sorted(ref.items()):
            part = world.crop((x * 256, (1 - y) * 256, x * 256 + 256, (1 - y) * 256 + 256))
            if part.tobytes() != tile.tobytes():
                failures.append('tile (%d, %d, 1) in the map differs from the tile fetched alone' % (x, y))
    finally:
        httpd.shutdown()
        httpd.server_close()
        shutil.rmtree(tmp, ignore_errors=True)

    if failures:
        print('\nPROPERTY C04 VIOLATED:')
        for f in failures:
            print(' - ' + f)
        return 1
    print('\nOK: all tiles of the request were created, stored and equal the tiles fetched alone')
    return 0


if __name__ == '__main__':
    sys.exit(main())
