"""Witness of defect S4 (C12): with directory_layout 'tms' a FileCache stores the tiles of level z below <cache>/<z>/ but
level_location(z) - the directory the level-wise cleanup (seed.cleanup.simple_cleanup) empties - is <cache>/0<z>/ for
z < 10, and it ignores the dimension sub-directory.  A cleanup of a complete level therefore removes nothing: old tiles
of the selected level survive.  exit 1 = reproduces, exit 0 = does not."""
import os
import shutil
import sys
import tempfile
import time

from mapproxy.cache.file import FileCache
from mapproxy.cache.tile import Tile
from mapproxy.image import ImageSource
from mapproxy.seed.cleanup import simple_cleanup
from io import BytesIO


class _Mgr(object):
    def __init__(self, cache):
        self.cache = cache


class _Task(object):
    def __init__(self, cache, levels):
        self.tile_manager = _Mgr(cache)
        self.levels = levels
        self.remove_timestamp = time.time() + 10     # everything stored so far is "old"
        self.remove_all = False
        self.id = 'w'


bad = []
for dims in (None, {'time': '2020'}):
    tmp = tempfile.mkdtemp()
    try:
        cache = FileCache(tmp, 'png', directory_layout='tms')
        for z in (2, 12):
            t = Tile((1, 1, z), ImageSource(BytesIO(b'not really a png'), size=(1, 1)))
            cache.store_tile(t, dimensions=dims)
            loc = cache.tile_location(Tile((1, 1, z)), dimensions=dims)
            assert os.path.exists(loc)
            lvl = cache.level_location(z, dimensions=dims)
            if not os.path.abspath(loc).startswith(os.path.abspath(lvl) + os.sep):
                bad.append('level %d dims=%r: tile at %s is not below level_location %s' % (z, dims, loc[len(tmp):], lvl[len(tmp):]))
        if dims is None:
            simple_cleanup(_Task(cache, [2, 12]), dry_run=False)
            for z in (2, 12):
                loc = cache.tile_location(Tile((1, 1, z)))
                if os.path.exists(loc):
                    bad.append('level %d: old tile %s survived the cleanup of its level' % (z, loc[len(tmp):]))
    finally:
        shutil.rmtree(tmp, ignore_errors=True)
for b in bad:
    print(b)
sys.exit(1 if bad else 0)
