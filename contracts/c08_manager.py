"""C04 / C08 / C13 - the layer above the per-(meta-)tile protocol: which tiles are created, how the requested tiles are
grouped into meta tiles, how a meta image is split.  Trace conditions on the real functions."""
from pyvc.api import contract, cls, ghost, lemma
from pyvc import tracelib as T
from . import shared_grid, c03_grid, c04_meta, c08_creator  # noqa
C = 'mapproxy.cache.tile:'


def _iter_events(st):
    return st.trace[getattr(st, 'iter_start_trace', 0):]


# ---- split_meta_tiles: entry (tile_coord, crop_coord) -> Tile(tile_coord) with the window cut at crop_coord ---------------------
def _split_entry(ex, st, k):
    import z3
    from pyvc.values import eq
    evs_ = _iter_events(st)
    gets = [e for e in evs_ if e.name == 'get_tile']
    mk = [e for e in evs_ if e.name == 'Tile']
    sets = [e for e in evs_ if e.name == 'setattr:source']
    tc, cc = st.env.get('tile_coord'), st.env.get('crop_coord')
    goal = z3.BoolVal(True)
    if mk or gets or sets:
        ok = len(gets) == 1 and len(mk) == 1 and len(sets) == 1 and sets[0].args[0] is mk[0].result and sets[0].args[1] is gets[0].result \
            and gets[0].args[1] is st.env['tile_size'] and 'cacheable' in mk[0].kwargs
        goal = z3.BoolVal(bool(ok))
        if ok:
            goal = z3.And(goal, eq(gets[0].args[0], cc), eq(mk[0].args[0], tc.val if hasattr(tc, 'val') else tc),
                          eq(mk[0].kwargs['cacheable'], ex.opaque_field_at(st, mk[0], st.env['meta_tile'], 'cacheable')))
    yield ('split_tile_gets_its_own_window', goal,
           'pattern entry (tile_coord, crop_coord): Tile(tile_coord, cacheable=meta image cacheable).source = '
           'splitter.get_tile(crop_coord, tile_size) - the window of THAT entry, never another one')


contract(C + 'split_meta_tiles', props=['C04', 'C08'],
         types=dict(meta_tile='opaque', tiles='list[tuple[opt[tuple[int,int,int]],tuple[int,int]]]', tile_size='tuple[int,int]',
                    image_opts='opaque'), returns='list[opaque]', default_callee='opaque',
         opaque_fields={'cacheable': 'bool'}, stable_fields=['cacheable'],
         opaque_spec={'TileSplitter': {'pure': True, 'raises': ['IOError']}, 'get_tile': {'pure': True}, 'Tile': {'pure': True},
                      'append': {'pure': True}},
         opaque=['TileSplitter', 'Tile', 'get_tile'],
         raises={'IOError': True},
         ensures=['len(result) <= len(tiles)'],
         loops={0: dict(inv=['len(split_tiles) <= _k'], types={'split_tiles': 'list[opaque]'}, body_trace=[_split_entry])})


# ---- TileManager._is_tile_missing / _load_tile_coords: every missing or stale tile goes to the creator ---------------------------
cls(C + 'TileManager', fields=dict(c08_creator.TILE_MANAGER_FIELDS))


def _missing_spec(ex, st, post, result):
    import z3
    tile = post.env['tile']
    self_ = post.env['self']
    # the manager's own is_cached (it applies the refresh rule), not the raw cache's
    cached = [e for i, e in T.evs(st, 'is_cached', 'TileManager.is_cached')
              if (e.recv is self_ or getattr(e.recv, 'ref', None) == self_.ref or (e.args and getattr(e.args[0], 'ref', None) == self_.ref))]
    coord = ex.opaque_field(st, tile, 'coord')
    res = ex.truth(st, result)
    cache_only = ex.truth(st, post.env['cache_only'])
    g = z3.Implies(coord.isnone, z3.Not(res))
    if cached:
        g = z3.And(g, z3.Implies(z3.And(z3.Not(coord.isnone), z3.Not(cache_only)), res == z3.Not(ex.truth(st, cached[0].result))))
    else:
        g = z3.And(g, z3.Or(coord.isnone, cache_only))
    yield ('missing_iff_not_cached_or_stale', g,
           'with real sources a tile is missing exactly when is_cached(tile, dimensions) - which includes the refresh rule - says no; '
           'a tile without address is never missing')


contract(C + 'TileManager._is_tile_missing', props=['C13', 'C08'],
         types=dict(tile='opaque', cache_only='bool', dimensions='opaque'), returns='bool', default_callee='opaque',
         opaque_fields={'coord': 'opt[tuple[int,int,int]]'}, stable_fields=['coord'],
         opaque_spec={'is_cached': {'returns': 'bool', 'pure': True}, 'is_missing': {'returns': 'bool', 'pure': True}},
         opaque=['is_cached'],
         trace=[_missing_spec])


def _collect_missing(ex, st, k):
    import z3
    evs_ = _iter_events(st)
    miss = [e for e in evs_ if e.name in ('_is_tile_missing', 'TileManager._is_tile_missing')]
    app = [e for e in evs_ if e.name == 'append']
    ok = len(miss) == 1 and miss[0].args[-3 if len(miss[0].args) >= 3 else 0] is not None
    goal = z3.BoolVal(len(miss) == 1 and len(app) <= 1)
    if len(miss) == 1:
        tile = st.env['tile']
        is_missing = ex.truth(st, miss[0].result)
        margs = [a for a in miss[0].args if a is not miss[0].recv and getattr(a, 'ref', None) != getattr(st.env['self'], 'ref', -1)]
        goal = z3.And(goal, z3.BoolVal(len(margs) == 2 and margs[0] is tile and margs[1] is st.env['cache_only']
                                       and miss[0].kwargs.get('dimensions') is st.env['dimensions']),
                      is_missing == z3.BoolVal(len(app) == 1))
        if app:
            goal = z3.And(goal, z3.BoolVal(app[0].args[-1] is tile))
    yield ('every_missing_tile_is_collected', goal,
           'each requested tile is tested once and put on the to-create list exactly when it is missing or stale')


def _created_delivered(ex, st, k):
    import z3
    from pyvc.values import eq
    evs_ = _iter_events(st)
    cont = [e for e in evs_ if e.name == 'contains']
    sets = [e for e in evs_ if e.name == 'setattr:source']
    ct = st.env['created_tile']
    ok = len(cont) == 1 and len(cont[0].args) == 2 and cont[0].args[0].t.eq(st.env['tiles'].t)
    g = z3.BoolVal(bool(ok))
    if ok:
        g = z3.And(g, eq(cont[0].args[1], ex.opaque_field_at(st, cont[0], ct, 'coord')),
                   ex.truth(st, cont[0].result) == z3.BoolVal(len(sets) == 1))
        if len(sets) == 1:
            g = z3.And(g, eq(sets[0].args[1], ex.opaque_field_at(st, sets[0], ct, 'source')))
        # ... together with what the services derive the validators and the no-store decision from (C20): the created tile's
        # cache info (cacheable flag, time stamp, size) - not the values the stale file left on the requested tile
        meta = [e for e in evs_ if e.name == 'setattr:cacheable']
        g = z3.And(g, ex.truth(st, cont[0].result) == z3.BoolVal(len(meta) == 1))
        if len(meta) == 1 and len(sets) == 1:
            g = z3.And(g, z3.BoolVal(meta[0].recv is not None and meta[0].recv.t.eq(sets[0].recv.t)),
                       eq(meta[0].args[1], ex.opaque_field_at(st, meta[0], ct, 'cacheable')))
        for attr in ('timestamp', 'size'):
            up = [e for e in evs_ if e.name == 'setattr:' + attr]
            g = z3.And(g, ex.truth(st, cont[0].result) == z3.BoolVal(len(up) == 1))
            if len(up) == 1 and len(sets) == 1:
                g = z3.And(g, z3.BoolVal(up[0].recv is not None and up[0].recv.t.eq(sets[0].recv.t)),
                           eq(up[0].args[1], ex.opaque_field_at(st, up[0], ct, attr)))
    yield ('created_tile_is_delivered', g,
           'every created tile whose address was requested hands its image AND its cache info (cacheable, timestamp, size) to the '
           'requested tile')


def _creator_gets_missing(ex, st, post, result):
    import z3
    from pyvc.values import VSeq
    cr = T.evs(st, 'create_tiles')
    goal = z3.BoolVal(len(cr) <= 1)
    un = st.env.get('uncached_tiles')
    if isinstance(un, VSeq):
        # the creator runs exactly when something is missing, and it gets the collected list
        goal = z3.And(goal, z3.BoolVal(len(cr) == 1) == (un.length() > 0))
        for i, e in cr:
            goal = z3.And(goal, z3.BoolVal(e.args[-1] is un))
    else:
        goal = z3.BoolVal(False)
    yield ('one_creation_call', goal,
           'the creator is called exactly when the to-create list is non-empty, once, with that list')
    # the only way out without looking for missing tiles: no real source (cache-only) AND no rescaling configured
    h = st.heap[post.env['self'].ref]
    srcs = h['sources']
    isin = [e for i, e in T.evs(st, 'isinstance')]
    from pyvc.values import to_int
    dummy = z3.BoolVal(False)
    if isinstance(srcs, VSeq):
        from pyvc.values import ObjSort
        is_dummy = z3.Function('opaque_isinstance_mapproxy_source_DummySource', ObjSort, z3.BoolSort())
        dummy = z3.And(srcs.length() == 1, is_dummy(srcs.elem(z3.IntVal(0)).t))
        cache_only = z3.Or(srcs.length() == 0, dummy)
        shortcut = z3.And(to_int(h['rescale_tiles']) == 0, cache_only)
        early = isinstance(un, VSeq) and un.concrete and not un.items and not T.evs(st, '_is_tile_missing', 'TileManager._is_tile_missing')
        # (on the early path nothing was examined; on every other path the loop over the tiles ran)
        yield ('creation_skipped_only_without_sources', shortcut if early else z3.Not(shortcut),
               'the tiles are returned as loaded, without testing them for missing/stale, exactly when there is no real source '
               '(sources == [] or a single DummySource) and rescale_tiles == 0')
    else:
        yield ('creation_skipped_only_without_sources', z3.BoolVal(False), 'TileManager.sources must be declared list[opaque]')
    # rescaled stand-ins only when the creator delivered nothing and rescaling is configured
    sc = [e for i, e in T.evs(st, '_scaled_tile', 'TileManager._scaled_tile')]
    g = z3.BoolVal(True)
    if cr:
        made = cr[0][1].result
        nothing = made.length() == 0 if hasattr(made, 'length') else z3.Not(ex.truth(st, made))
        want = z3.And(nothing, to_int(h['rescale_tiles']) != 0)
        g = want == z3.BoolVal(bool(sc))
        for e in sc:
            a = [x for x in e.args if x is not e.recv and getattr(x, 'ref', None) != getattr(post.env['self'], 'ref', -1)]
            g = z3.And(g, z3.BoolVal(len(a) == 3 and a[1] is post.env['rescale_till_zoom'] and a[2] is post.env['rescaled_tiles']))
    else:
        g = z3.BoolVal(not sc)
    yield ('rescaled_only_when_nothing_created', g,
           'tiles are replaced by rescaled stand-ins exactly when the creator returned nothing and rescale_tiles is configured; '
           'a created tile is never overwritten by a rescaled one')
    # the batch load from the cache comes first, with the caller's dimensions
    ld = T.evs(st, 'load_tiles')
    ok = len(ld) == 1 and (not cr or ld[0][0] < cr[0][0]) and ld[0][1].kwargs.get('dimensions') is post.env['dimensions'] \
        and ld[0][1].args[-2 if len(ld[0][1].args) >= 2 else 0] is post.env['tiles']
    yield ('cache_is_consulted_first', z3.BoolVal(bool(ok)),
           'self.cache.load_tiles(tiles, with_metadata, dimensions=dimensions) is called once, before any creation')


contract(C + 'TileManager._load_tile_coords', props=['C13', 'C08', 'C04'],
         types=dict(tiles='opaque', dimensions='opaque', with_metadata='bool', rescale_till_zoom='opaque', rescaled_tiles='opaque'),
         returns='opaque', default_callee='opaque',
         opaque_fields={'coord': 'opt[tuple[int,int,int]]', 'source': 'opt[opaque]', 'cacheable': 'opaque'}, stable_fields=['coord'],
         opaque_spec={'load_tiles': {}, '_is_tile_missing': {'returns': 'bool', 'pure': True}, 'creator': {'pure': True},
                      'create_tiles': {'returns': 'list[opaque]'}, '_scaled_tile': {'pure': True}, 'append': {'pure': True},
                      'isinstance': {'returns': 'bool', 'pure': True}},
         opaque=['_is_tile_missing', 'creator', '_scaled_tile'],
         loops={0: dict(inv=[], types={}), 1: dict(inv=[], types={'uncached_tiles': 'list[opaque]'}, body_trace=[_collect_missing]),
                2: dict(inv=[], types={}, body_trace=[_created_delivered])},
         trace=[_creator_gets_missing])


# ---- bulk meta tiles: same protocol as _create_meta_tile, the tiles of the meta tile fetched one by one ------------------------
from .c08_creator import OPAQUE_SPEC, OPAQUE_FIELDS, _lock_is_on_main_tile, recheck_decides  # noqa


def _bulk_per_tile_query(ex, st, post, result):
    """what the worker function asks upstream for ONE tile of the meta tile (executed on a generic element)"""
    import z3
    from pyvc.values import eq
    applied = [e for e in st.trace if e.ghost.get('applied_by') == 'imap']
    if not applied:
        return
    self_h = st.heap[post.env['self'].ref]
    grid = st.heap[self_h['grid'].ref]
    tb = [e for e in applied if e.name in ('tile_bbox', 'TileGrid.tile_bbox')]
    mq = [e for e in applied if e.name == 'MapQuery']
    qs = [e for e in applied if e.name == '_query_sources']
    tl = [e for e in applied if e.name == 'Tile']
    # (the applied events are the union over the worker's paths: several Tile / _query_sources events may be listed)
    ok = len(tb) == 1 and len(mq) == 1 and len(qs) >= 1 and mq[0].args[0] is tb[0].result and all(q_.args[-1] is mq[0].result for q_ in qs)
    goal = z3.BoolVal(bool(ok))
    if ok:
        goal = z3.And(goal, eq(mq[0].args[1], grid['tile_size']), eq(mq[0].args[2], grid['srs']))
        # the FULL rectangle of the tile (a rectangle cut to the grid extent would be stretched to the full tile size)
        lim = tb[0].kwargs.get('limit')
        pos = [a for a in tb[0].args if a is not tb[0].recv and getattr(a, 'ref', None) != getattr(self_h['grid'], 'ref', -1)]
        goal = z3.And(goal, z3.BoolVal(len(pos) == 1), z3.Not(ex.truth(st, lim)) if lim is not None else z3.BoolVal(True))
        for t in tl:
            goal = z3.And(goal, eq(t.args[0], tb[0].args[-1]), z3.BoolVal('cacheable' in t.kwargs))
    yield ('bulk_worker_queries_the_tile_rectangle', goal,
           'for every tile of the meta tile the worker asks the sources for MapQuery(grid.tile_bbox(coord), grid.tile_size, '
           'grid.srs, ..) and wraps the answer in Tile(coord, cacheable=answer.cacheable) - the same address')


def _bulk_cached_path_loads(ex, st, post, result):
    import z3
    from pyvc.values import VSeq
    if T.evs(st, 'imap'):
        return
    ld = [e for i, e in T.evs(st, 'load_tiles')]
    ok = len(ld) == 1 and isinstance(ld[0].args[-1], VSeq) and result is ld[0].args[-1]
    yield ('cached_meta_tile_is_loaded', z3.BoolVal(bool(ok)),
           'when every tile is cached, cache.load_tiles([Tile(c) for c in meta_tile.tiles]) is called and that list returned')


def _bulk_result_item(ex, st, k):
    """one result object of the per-tile fetches: a failed fetch stops the pool and is re-raised, a fetched tile is collected"""
    import z3
    evs_ = _iter_events(st)
    task = st.env['tile_task']
    app = [e for e in evs_ if e.name == 'append']
    sh = [e for e in evs_ if e.name == 'shutdown']
    from pyvc.values import opaque_is_none
    exc_none = opaque_is_none(ex.opaque_field(st, task, 'exception').t) if hasattr(ex.opaque_field(st, task, 'exception'), 't') else z3.BoolVal(False)
    res = ex.opaque_field(st, task, 'result')
    res_none = opaque_is_none(res.t) if hasattr(res, 't') else z3.BoolVal(False)
    # this clause is only evaluated for iterations that complete normally: the item had no exception
    goal = z3.And(exc_none, z3.BoolVal(not sh), z3.BoolVal(len(app) <= 1), res_none == z3.BoolVal(len(app) == 0))
    for a in app:
        goal = z3.And(goal, z3.BoolVal(hasattr(a.args[-1], 't') and hasattr(res, 't') and a.args[-1].t.eq(res.t)))
    yield ('fetched_tile_is_collected', goal,
           'an iteration continues normally only for an item without exception; its tile (if any) is appended to the result list')


def _bulk_failure(ex, st, k, st_start, exc):
    import z3
    evs_ = _iter_events(st)
    sh = [e for e in evs_ if e.name == 'shutdown']
    yield ('failed_fetch_stops_pool_and_reraises', z3.BoolVal(len(sh) == 1),
           'a failed per-tile fetch shuts the pool down (force) and its exception is re-raised: nothing is stored')


def _bulk_store_cacheable_under_lock(ex, st, post, result):
    import z3
    imaps = T.evs(st, 'imap')
    stores = T.evs(st, 'store_tiles')
    goal = z3.BoolVal(True)
    for i, e in imaps:
        # the work list: exactly the in-grid tiles of this meta tile, fetched through query_tile, as result objects
        ok = len(e.args) >= 2 and 'use_result_objects' in e.kwargs and T.held(e)
        goal = z3.And(goal, z3.BoolVal(bool(ok)))
        later = [(j, s) for j, s in stores if j > i and T.held(s) and T.held(s) == T.held(e)]
        normal_exit = not any(x.name in ('reraise', 'shutdown') for x in st.trace[i:])
        if normal_exit:
            goal = z3.And(goal, z3.BoolVal(len(later) == 1))
    yield ('bulk_fetch_and_store_under_lock', goal,
           'the per-tile fetches run while the meta tile lock is held and, unless one of them failed, the fetched tiles are '
           'stored by one store_tiles call before the lock is released')


contract(C + 'TileCreator._create_bulk_meta_tile', props=['C08', 'C04'],
         types=dict(meta_tile='obj:mapproxy.grid:MetaTile'), returns='opaque',
         default_callee='opaque', inline=['query_tile'], opaque=['tile_bbox'], opaque_fields=OPAQUE_FIELDS, stable_fields=['cacheable', 'coord'],
         opaque_spec=dict(OPAQUE_SPEC, Pool={'pure': True}, imap={'returns': 'list[opaque]', 'applies': (0, 1)}, shutdown={},
                          as_buffer={'pure': True},
                          reraise={'always_raises': 'Exception'}),
         raises={'SourceError': True, 'Exception': True},
         loops={0: dict(inv=[], types={'tiles': 'list[opaque]'}, body_trace=[_bulk_result_item], raise_trace=[_bulk_failure])},
         trace=[
             T.only_under_lock('imap', text='C08(iii): the upstream fetches are started only while the meta tile lock is held'),
             T.preceded_by('imap', 'is_cached', under_same_lock=True, quantified=True,
                           text='C08(iii): fetched only after a cache re-check of ALL tiles of the meta tile under the same lock'),
             T.at_most_once('imap', text='C08(iv): every tile of the meta tile is fetched at most once per invocation'),
             T.only_under_lock('store_tiles', text='C08: tiles are stored while the lock is held'),
             _lock_is_on_main_tile, _bulk_store_cacheable_under_lock, _bulk_per_tile_query, _bulk_cached_path_loads,
             recheck_decides('imap'),
             T.no_event_after('imap', ['load_tiles'], text='fetch path does not fall back to a cache load'),
         ])


# ---- create_tiles: every requested tile is covered by exactly one creation request ------------------------------------------------
def _group_iteration(ex, st, k):
    """per requested tile: its meta tile is computed from ITS coordinate and joins the work list iff the SAME META TILE is not on it
    already.  What identifies a meta tile is its main tile (the contract of MetaGrid.meta_tile / MetaTile.main_tile_coord) - not its
    bbox: where a large meta_buffer is truncated at the grid border different meta tiles have the same bbox, and de-duplicating
    by bbox left whole tiles of the request uncreated (S46; the first version of this clause had been read off that code)"""
    import z3
    from pyvc.values import eq
    evs_ = _iter_events(st)
    mt = [e for e in evs_ if e.name == 'meta_tile']
    app = [e for e in evs_ if e.name == 'append']
    add = [e for e in evs_ if e.name == 'add']
    cont = [e for e in evs_ if e.name == 'contains']
    tile = st.env['tile']
    ok = len(mt) == 1 and len(cont) == 1 and len(app) == len(add) and len(app) <= 1
    goal = z3.BoolVal(bool(ok))
    if ok:
        coord = ex.opaque_field_at(st, mt[0], tile, 'coord')
        ident = ex.opaque_field(st, mt[0].result, 'main_tile_coord')
        goal = z3.And(goal, eq(mt[0].args[-1], coord), ex.truth(st, cont[0].result) == z3.BoolVal(len(app) == 0),
                      eq(cont[0].args[1], ident))
        if app:
            goal = z3.And(goal, z3.BoolVal(app[0].args[-1] is mt[0].result), eq(add[0].args[-1], ident))
    yield ('tile_joins_one_meta_request', goal,
           'meta_grid.meta_tile(tile.coord) is appended to the work list exactly when its main tile is not yet in the seen set '
           '(then it is added to the set): one upstream request per distinct meta tile, none left out')


def _dispatch(ex, st, post, result):
    import z3
    singles = T.evs(st, '_create_single_tiles', 'TileCreator._create_single_tiles')
    metas = T.evs(st, '_create_meta_tiles', 'TileCreator._create_meta_tiles')
    mini = T.evs(st, 'minimal_meta_tile')
    one = T.evs(st, '_create_meta_tile', 'TileCreator._create_meta_tile')
    n = len(singles) + len(metas) + len(one)
    ok = n <= 1 and (not mini or (len(one) == 1 and one[0][1].args[-1] is mini[0][1].result))
    if singles:
        ok = ok and singles[0][1].args[-1] is post.env['tiles']
    goal = z3.BoolVal(bool(ok))
    if mini and ok:
        from pyvc.values import VSeq, eq
        arg = mini[0][1].args[-1]
        tiles = post.env['tiles']
        if isinstance(arg, VSeq):
            i = z3.Int('mm_i')
            ci = ex.opaque_field_at(st, mini[0][1], tiles.elem(i), 'coord')
            goal = z3.And(goal, arg.length() == tiles.length(),
                          z3.ForAll([i], z3.Implies(z3.And(0 <= i, i < tiles.length()), eq(arg.elem(i), ci))))
        else:
            goal = z3.BoolVal(False)
    # which strategy: tile by tile only without a meta grid; the request-minimising meta tile only if configured and for more
    # than one tile; nothing at all without sources
    h = st.heap[post.env['self'].ref]
    has_meta = ex.truth(st, h['meta_grid'])
    has_src = ex.truth(st, h['sources'])
    mini_cfg = ex.truth(st, ex.opaque_field(st, h['tile_mgr'], 'minimize_meta_requests'))
    many = post.env['tiles'].length() > 1
    if n == 0:
        goal = z3.And(goal, z3.Not(has_src))
    else:
        goal = z3.And(goal, has_src)
    if singles:
        goal = z3.And(goal, z3.Not(has_meta))
    # bulk mode exists for sources that deliver single tiles only (tile sources, tiled_only caches): a meta tile sized map request
    # - which the request-minimising meta tile is - cannot be answered by them, so bulk mode always goes through the work list
    # (S45: with both options set every multi-tile request failed; the strategy clause had been read off the code)
    bulk = ex.truth(st, h['bulk_meta_tiles'])
    if one:
        goal = z3.And(goal, has_meta, mini_cfg, many, z3.Not(bulk))
    if metas:
        goal = z3.And(goal, has_meta, z3.Not(z3.And(mini_cfg, many, z3.Not(bulk))))
    yield ('one_creation_strategy', goal,
           'exactly one strategy handles the whole request: single tiles (all of them), the work list of distinct meta tiles, '
           'or the one request-minimising meta tile computed from all requested coordinates')


contract(C + 'TileCreator.create_tiles', props=['C04', 'C08'],
         types=dict(tiles='list[opaque]'), returns='opaque', default_callee='opaque',
         opaque_fields={'coord': 'opt[tuple[int,int,int]]', 'bbox': 'opaque', 'main_tile_coord': 'opaque', 'minimize_meta_requests': 'opaque'},
         stable_fields=['coord', 'bbox', 'main_tile_coord', 'minimize_meta_requests'],
         opaque_spec={'meta_tile': {'pure': True}, 'minimal_meta_tile': {'pure': True}, '_create_single_tiles': {}, '_create_meta_tiles': {},
                      '_create_meta_tile': {}, 'append': {'pure': True}, 'add': {'pure': True}, 'set': {'pure': True}},
         opaque=['_create_single_tiles', '_create_meta_tiles', '_create_meta_tile'],
         raises={'SourceError': True, 'Exception': True},
         loops={0: dict(inv=[], types={'meta_tiles': 'opaque', 'meta_bboxes': 'opaque', 'seen_meta_tiles': 'opaque'},
                        body_trace=[_group_iteration])},
         trace=[_dispatch])
