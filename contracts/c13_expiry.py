"""C13 - expiry rules: the staleness predicate, threshold precedence, metadata source."""
from pyvc.api import contract, cls, ghost, lemma, finding_class
from pyvc import tracelib as T
from . import c08_creator  # noqa
C = 'mapproxy.cache.tile:'

cls(C + 'TileManager', fields=dict(c08_creator.TILE_MANAGER_FIELDS))

OF = {'coord': 'opt[tuple[int,int,int]]', 'timestamp': 'real', 'size': 'int'}


def _last(st, name):
    hits = T.evs(st, name)
    return hits[-1][1] if hits else None


def _compared_timestamp(ex, st, obj):
    """the time stamp the decision is taken on: the value right after the metadata was loaded (a stale tile's metadata is
    forgotten afterwards)"""
    resets = [e for e in st.trace if e.name in ('setattr:timestamp',)]
    v = ex.opaque_field_at(st, resets[0], obj, 'timestamp') if resets else ex.opaque_field(st, obj, 'timestamp')
    return v.val.t if hasattr(v, 'isnone') else v.t


def _is_cached_spec(ex, st, post, result):
    import z3
    tile = post.env['tile']
    coord = ex.opaque_field(st, tile, 'coord')
    backend = _last(st, 'is_cached')
    thr = _last(st, 'expire_timestamp')
    res = ex.truth(st, result)
    if backend is None:
        # only the coord-is-None shortcut may answer without asking the backend
        yield ('none_coord_shortcut', z3.And(coord.isnone, res), 'without a backend lookup the answer is True and the tile has no coord')
        return
    cached = ex.truth(st, backend.result)
    yield ('cached_implies_backend_has_it', z3.Implies(res, cached), 'is_cached => the backend has the tile')
    if thr is None:
        yield ('threshold_consulted', z3.BoolVal(False), 'the expiry threshold is consulted')
        return
    T_ = thr.result           # opt[real]
    none_T = T_.isnone
    yield ('no_threshold', z3.Implies(none_T, res == cached), 'no threshold: is_cached == backend has it')
    meta = T.evs(st, 'load_tile_metadata')
    ts = _compared_timestamp(ex, st, tile)
    yield ('stale_at_or_before_threshold',
           z3.Implies(z3.And(cached, z3.Not(none_T), ts >= 0, ts <= T_.val.t), z3.Not(res)),
           'a tile last written at or before the threshold is not "cached" (it is fetched again)')
    yield ('fresh_after_threshold',
           z3.Implies(z3.And(cached, z3.Not(none_T), ts >= 0, ts > T_.val.t), res),
           'a tile written after the threshold is served from the cache')
    yield ('timestamp_from_backend_metadata',
           z3.Implies(z3.And(cached, z3.Not(none_T)), z3.BoolVal(len(meta) == 1)),
           'with a threshold, the timestamp compared is the one loaded from the backend metadata')
    # frame: the decision leaves the tile object as the backend loaded it.  (An earlier repair - S21 - cleared the metadata of a stale
    # tile here; backends that do not re-read a tile which already carries bytes then had no time stamp to compare at the next
    # is_cached / is_stale of the same object: S41.  The validators of a replaced version are dropped where the new source is
    # attached instead: TileCreator._create_single_tile, TileManager._load_tile_coords.)
    rts = [e for e in st.trace if e.name in ('setattr:timestamp', 'setattr:size', 'setattr:source')]
    yield ('decision_does_not_modify_the_tile', z3.BoolVal(not rts),
           'is_cached assigns nothing on the tile object: what load_tile_metadata loaded stays available for the next check of '
           'the same object')


def _s10_class(ex, st):
    """S10: the sub-second window  floor(ts) <= T < ts"""
    import z3
    tile = st.env.get('tile')
    thr = _last(st, 'expire_timestamp')
    if thr is None:
        return z3.BoolVal(False)
    # the tile object may have been rebound (tuple -> Tile); use the object whose metadata was loaded
    meta = T.evs(st, 'load_tile_metadata')
    obj = meta[-1][1].args[0] if meta else tile
    ts = _compared_timestamp(ex, st, obj)
    Tv = thr.result.val.t
    return z3.And(z3.ToReal(z3.ToInt(ts)) <= Tv, Tv < ts)


finding_class('S10', _s10_class)

contract(C + 'TileManager.is_cached', props=['C13', 'C08'],
         types=dict(tile='opaque', dimensions='opaque'), returns='bool',
         requires=['not isinstance(tile, tuple)'],      # the Tile-object form (a bare coordinate is wrapped in a Tile first)
         default_callee='opaque', opaque_fields=OF, stable_fields=['coord'],
         opaque_spec={'is_cached': {'returns': 'bool', 'pure': True},
                      'expire_timestamp': {'returns': 'opt[real]', 'pure': True},
                      'load_tile_metadata': {}, 'Tile': {'fields': {'coord': 'arg0'}, 'pure': True}},
         opaque=['expire_timestamp'],
         trace=[_is_cached_spec])


def _expire_spec(ex, st, post, result):
    import z3
    from pyvc.values import eq
    self_ = post.env['self']
    # (the values the manager had when the call was made: the function must not change them - see the frame obligation)
    h = (post.old.heap if getattr(post, 'old', None) is not None else st.heap)[self_.ref]
    rb, fixed = h['_refresh_before'], h['_expire_timestamp']
    calls = T.evs(st, 'before_timestamp_from_options')
    truthy = ex.truth(st, rb)
    explicit = z3.Not(fixed.isnone) if hasattr(fixed, 'isnone') else z3.BoolVal(type(fixed).__name__ != 'VNone')
    if calls:
        ev = calls[-1][1]
        yield ('refresh_rule_of_the_cache_is_evaluated_on_every_call',
               z3.And(z3.Not(explicit), truthy, eq(result, ev.result), z3.BoolVal(len(calls) == 1), eq(ev.args[0], rb)),
               'without an explicitly set threshold, a refresh rule of the cache is in force: the threshold is computed from it on every call')
    else:
        yield ('explicit_threshold_wins_then_no_rule_means_none',
               z3.And(z3.Or(explicit, z3.Not(truthy)), eq(result, fixed)),
               'a threshold that was set explicitly (the refresh_before of a seed task) is returned as it is - it is not overridden '
               'by the refresh rule the cache has for serving; without either, tiles do not expire')


contract(C + 'TileManager.expire_timestamp', props=['C13', 'C12'],
         types=dict(tile='opaque'), returns='opt[real]', modifies=[],
         default_callee='opaque', opaque_spec={'before_timestamp_from_options': {'returns': 'real', 'pure': True}},
         # (the rule was parsed once when the configuration was loaded; a rule that cannot be evaluated - unreadable mtime file -
         # raises SeedConfigurationError from before_timestamp_from_options' own contract and is not modelled at serving time)
         opaque=['before_timestamp_from_options'],
         trace=[_expire_spec])


def _is_stale_spec(ex, st, post, result):
    import z3
    backend = [e for i, e in T.evs(st, 'is_cached') if e.full.endswith('cache.is_cached')]
    own = [e for i, e in T.evs(st, 'is_cached') if not e.full.endswith('cache.is_cached')]
    res = ex.truth(st, result)
    if not backend:
        yield ('backend_consulted', z3.BoolVal(False), 'is_stale asks the backend whether the tile exists')
        return
    exists = ex.truth(st, backend[0].result)
    if own:
        yield ('stale_iff_exists_and_not_cached', res == z3.And(exists, z3.Not(ex.truth(st, own[-1].result))),
               'is_stale <=> the tile exists and is_cached (freshness) is False')
    else:
        yield ('stale_iff_exists_and_not_cached', z3.And(z3.Not(exists), z3.Not(res)), 'a tile that does not exist is not stale')


contract(C + 'TileManager.is_stale', props=['C13', 'C12'],
         types=dict(tile='opaque', dimensions='opaque'), returns='bool',
         default_callee='opaque', opaque_fields=OF, stable_fields=['coord'],
         opaque_spec={'is_cached': {'returns': 'bool', 'pure': True}, 'Tile': {'fields': {'coord': 'arg0'}, 'pure': True}},
         opaque=['is_cached'],
         trace=[_is_stale_spec])


# ---- where the timestamp comes from: lstat of the tile's own location (links are not followed) ------------------
def _metadata_from_lstat(ex, st, post, result):
    import z3
    from pyvc.values import eq
    ls = T.evs(st, 'lstat')
    other = T.evs(st, 'stat')
    loc = T.evs(st, 'tile_location')
    ok = len(ls) == 1 and not other and len(loc) == 1
    goal = z3.BoolVal(ok)
    if ok:
        goal = z3.And(goal, eq(ls[0][1].args[0], loc[0][1].result))
    yield ('metadata_from_lstat_of_tile_location', goal,
           "timestamp/size come from os.lstat of the tile's own location (a single-colour link reports its own time)")
    # what is recorded: the stat values when the file exists; (0, 0) - "infinitely old, empty" - when it does not
    from pyvc.values import to_real, to_int
    tile = post.env['tile']
    ts = [e for i, e in T.evs(st, 'setattr:timestamp')]
    sz = [e for i, e in T.evs(st, 'setattr:size')]
    g2 = z3.BoolVal(len(ts) == 1 and len(sz) == 1 and ts[0].args[0] is tile and sz[0].args[0] is tile)
    if ok and len(ts) == 1 and len(sz) == 1:
        if ls[0][1].raised:
            g2 = z3.And(g2, to_real(ts[0].args[1]) == 0, to_int(sz[0].args[1]) == 0)
        else:
            stats = ls[0][1].result
            g2 = z3.And(g2, eq(ts[0].args[1], ex.opaque_field(st, stats, 'st_mtime')), eq(sz[0].args[1], ex.opaque_field(st, stats, 'st_size')))
    yield ('metadata_values', g2,
           'tile.timestamp/size = st_mtime/st_size of that lstat; a missing file (the only OSError that is swallowed) gives (0, 0)')


contract('mapproxy.cache.file:FileCache.load_tile_metadata', props=['C13', 'C20'],
         types=dict(tile='opaque', dimensions='opaque'), returns='none',
         default_callee='opaque', opaque_fields={'timestamp': 'real', 'size': 'int', 'st_mtime': 'real', 'st_size': 'int'},
         stable_fields=['st_mtime', 'st_size'],
         opaque_spec={'lstat': {'raises': ['OSError']}, 'stat': {'raises': ['OSError']}, 'tile_location': {'returns': 'str', 'pure': True}},
         opaque=['tile_location'],
         raises={'OSError': True},
         trace=[_metadata_from_lstat])


# ---- seed/cleanup configuration: which threshold a `refresh_before` / `remove_before` option means -------------------------------------
def _threshold_source(ex, st, post, result):
    import z3
    from pyvc.values import VStr, eq
    conf = post.env['conf']
    iso = [e for i, e in T.evs(st, 'timestamp_from_isodate')]
    mt = [e for i, e in T.evs(st, 'getmtime')]
    tb = [e for i, e in T.evs(st, 'timestamp_before')]
    ins = {e.args[1].conc(): e for i, e in T.evs(st, 'contains') if len(e.args) == 2 and isinstance(e.args[1], VStr)}
    has_time = ex.truth(st, ins['time'].result) if 'time' in ins else z3.BoolVal(False)
    has_mtime = ex.truth(st, ins['mtime'].result) if 'mtime' in ins else z3.BoolVal(False)
    g = z3.BoolVal(len(iso) + len(mt) + len(tb) == 1 and 'time' in ins)
    if iso:
        g = z3.And(g, has_time, z3.BoolVal(result is iso[0].result))
    elif mt:
        ap = [e for i, e in T.evs(st, 'abspath')]
        g = z3.And(g, z3.Not(has_time), has_mtime, z3.BoolVal(result is mt[0].result and len(ap) == 1 and mt[0].args[0] is ap[0].result))
    elif tb:
        g = z3.And(g, z3.Not(has_time), z3.Not(has_mtime), z3.BoolVal(result is tb[0].result))
        gets = {e.args[0].conc(): e for i, e in T.evs(st, 'get') if e.args and isinstance(e.args[0], VStr) and e.recv is not None and e.recv.t.eq(conf.t)}
        for unit in ('weeks', 'days', 'hours', 'minutes', 'seconds'):
            okk = unit in tb[0].kwargs and unit in gets and tb[0].kwargs[unit] is gets[unit].result and len(gets[unit].args) == 2
            g = z3.And(g, z3.BoolVal(bool(okk)))
            if okk:
                g = z3.And(g, gets[unit].args[1].t == 0)
        g = z3.And(g, z3.BoolVal(set(tb[0].kwargs) == {'weeks', 'days', 'hours', 'minutes', 'seconds'} and not tb[0].args))
    yield ('threshold_is_what_the_option_says', g,
           "an explicit 'time' wins (parsed as ISO date), else the modification time of the 'mtime' file, else now minus the given "
           'weeks/days/hours/minutes/seconds - each unit taken from its own key, 0 when absent')


contract('mapproxy.seed.config:before_timestamp_from_options', props=['C13'],
         types=dict(conf='opaque'), returns='opaque', default_callee='opaque',
         opaque_spec={'timestamp_from_isodate': {'raises': ['ValueError'], 'pure': True}, 'getmtime': {'raises': ['OSError'], 'pure': True},
                      'abspath': {'pure': True}, 'timestamp_before': {'pure': True}, 'get': {'pure': True},
                      'contains': {'returns': 'bool', 'pure': True}},
         opaque=['timestamp_from_isodate', 'timestamp_before', 'abspath'],
         raises={'SeedConfigurationError': True},
         trace=[_threshold_source])


# ---- "now minus weeks/days/hours/minutes/seconds" --------------------------------------------------------------------------------------
def _relative_threshold(ex, st, post, result):
    import z3
    from pyvc.values import VReal, VInt
    from pyvc.values import to_real
    now = [e for i, e in T.evs(st, 'time')]
    g = z3.BoolVal(len(now) == 1 and isinstance(result, (VReal, VInt)))
    if len(now) == 1 and isinstance(result, (VReal, VInt)) and isinstance(now[0].result, (VReal, VInt)):
        a = post.old.env if hasattr(post, 'old') and post.old is not None else post.env
        age = (to_real(a['weeks']) * 604800 + to_real(a['days']) * 86400 + to_real(a['hours']) * 3600
               + to_real(a['minutes']) * 60 + to_real(a['seconds']))
        g = z3.And(g, to_real(result) == to_real(now[0].result) - age)
    else:
        g = z3.BoolVal(False)
    yield ('threshold_is_the_epoch_clock_minus_the_age', g,
           'the threshold is the epoch clock (time.time(), read once) minus exactly 604800*weeks + 86400*days + 3600*hours + '
           '60*minutes + seconds - not a local wall-clock difference (which is an hour off across a DST switch)')


contract('mapproxy.util.times:timestamp_before', props=['C13'],
         types=dict(weeks='real', days='real', hours='real', minutes='real', seconds='real'), returns='real',
         default_callee='opaque',
         opaque_spec={'time': {'returns': 'real', 'pure': False}},
         trace=[_relative_threshold])
