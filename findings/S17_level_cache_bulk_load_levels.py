"""
C05 / defect 1: bulk load on the per-level sqlite backends only asks the level
database of the FIRST missing tile.

MBTilesLevelCache.load_tiles and GeopackageLevelCache.load_tiles take the level
of the first tile that still needs loading and forward the complete tile list to
that single level database.  Tiles of every other level in the same call are
looked up in the wrong database, are never found and come back without bytes,
although they were stored and a single load_tile() returns them.
(store_tiles of the same classes groups the tiles by level.)

Run:  cd /tmp/wt/hunt/C05 && /venv/bin/python demo.py
"""
import os
import shutil
import sys
import tempfile
from io import BytesIO

from mapproxy.cache.tile import Tile
from mapproxy.cache.mbtiles import MBTilesLevelCache
from mapproxy.cache.geopackage import GeopackageLevelCache
from mapproxy.grid import tile_grid
from mapproxy.image import ImageSource


def new_tile(coord, data):
    return Tile(coord, ImageSource(BytesIO(data)))


def content(tile):
    if tile.source is None:
        return None
    return tile.source.as_buffer().read()


def check(name, cache):
    failures = []
    stored = {
        (0, 0, 0): b'bytes-of-0-0-0',
        (0, 0, 1): b'bytes-of-0-0-1',
        (1, 1, 1): b'bytes-of-1-1-1',
        (1, 1, 2): b'bytes-of-1-1-2',
        (3, 2, 2): b'bytes-of-3-2-2',
    }
    for coord, data in stored.items():
        cache.store_tile(new_tile(coord, data))

    # sanity: every tile is there when asked for one by one
    for coord, data in stored.items():
        t = Tile(coord)
        cache.load_tile(t)
        assert content(t) == data, (name, 'single load broken', coord)

    for order in (sorted(stored), sorted(stored, reverse=True)):
        tiles = [Tile(c) for c in order]
        result = cache.load_tiles(tiles)
        for t in tiles:
            got = content(t)
            if got != stored[t.coord]:
                failures.append(
                    '%s: load_tiles(%r): tile %r -> %r, expected %r'
                    % (name, order, t.coord, got, stored[t.coord]))
        if not result:
            failures.append(
                '%s: load_tiles(%r) returned %r although every tile is stored'
                % (name, order, result))
    if hasattr(cache, 'cleanup'):
        cache.cleanup()
    return failures


def main():
    tmp = tempfile.mkdtemp(prefix='c05_demo1_')
    try:
        failures = []
        failures += check('MBTilesLevelCache',
                          MBTilesLevelCache(os.path.join(tmp, 'sqlite')))
        failures += check('GeopackageLevelCache',
                          GeopackageLevelCache(os.path.join(tmp, 'gpkg'), tile_grid(3857), 'tiles'))
    finally:
        shutil.rmtree(tmp, ignore_errors=True)

    if failures:
        print('PROPERTY C05 VIOLATED: bulk load across levels loses stored tiles')
        for f in failures:
            print('  ' + f)
        return 1
    print('ok: bulk load returns the stored bytes for tiles of every level')
    return 0


if __name__ == '__main__':
    sys.exit(main())
