"""pyvc symbolic executor: real `ast` of a /repo function  ->  verification conditions.

Path-enumerating symbolic execution with
  * contracts at call sites (modular), inlining of helpers, opaque calls with a ghost event trace,
  * loops cut by invariants from the sidecar (no unrolling of symbolic loops, no bound),
  * exceptions as path outcomes,
  * a spec mode in which the same evaluator turns contract clauses (Python-expression dialect) into z3.
"""
import ast
import z3

from .values import (Value, VInt, VReal, VBool, VStr, VNone, NONE, VOpt, VSeq, VObj, VOpaque, VBlob, VFunc,
                     VDict, Unsupported, Raised, uid, ite, eq, is_num, to_real, to_int, parse_type,
                     expand_unions, Ty, ObjSort, BlobSort)

EXC_PARENTS = {
    'BaseException': None, 'Exception': 'BaseException',
    'ArithmeticError': 'Exception', 'ZeroDivisionError': 'ArithmeticError', 'OverflowError': 'ArithmeticError',
    'LookupError': 'Exception', 'IndexError': 'LookupError', 'KeyError': 'LookupError',
    'ValueError': 'Exception', 'TypeError': 'Exception', 'AttributeError': 'Exception',
    'AssertionError': 'Exception', 'NameError': 'Exception', 'UnboundLocalError': 'NameError',
    'OSError': 'Exception', 'IOError': 'OSError', 'EnvironmentError': 'OSError', 'FileNotFoundError': 'OSError',
    'FileExistsError': 'OSError', 'PermissionError': 'OSError',
    'StopIteration': 'Exception', 'RuntimeError': 'Exception', 'NotImplementedError': 'RuntimeError',
    'UnicodeError': 'ValueError', 'UnicodeDecodeError': 'UnicodeError', 'UnicodeEncodeError': 'UnicodeError',
    'struct.error': 'Exception', 'sqlite3.OperationalError': 'Exception', 'queue.Empty': 'Exception',
    'Empty': 'Exception', 'KeyboardInterrupt': 'BaseException', 'SystemExit': 'BaseException',
    'GeneratorExit': 'BaseException',
}


class Event(object):
    def __init__(self, name, args=(), kwargs=None, result=None, ghost=None, lineno=0, recv=None):
        self.name = name
        self.args = list(args)
        self.kwargs = kwargs or {}
        self.result = result
        self.ghost = dict(ghost or {})
        self.lineno = lineno
        self.recv = recv
        self.key = None
        self.full = name
        self.raised = None
        self.quant = None

    def __repr__(self):
        return 'Event(%s@%s)' % (self.name, self.lineno)


class State(object):
    def __init__(self):
        self.env = {}
        self.heap = {}
        self.objcls = {}
        self.pc = []
        self.trace = []
        self.yielded = None
        self.ghost = {}
        self.fn = None
        self.module = None
        self.old = None
        self.spec = False
        self.depth = 0
        self.handlers = 0
        self.notes = []
        self.qidx = None
        self.qinfo = None
        self.entry = None      # function-entry snapshot: what old(...) refers to in loop invariants
        self.ofields = {}      # opaque-object fields: attr -> closure(z3 Obj term) -> Value
        self.epoch = 0

    def fork(self):
        s = State.__new__(State)
        s.env = dict(self.env)
        s.heap = {r: dict(f) for r, f in self.heap.items()}
        s.objcls = dict(self.objcls)
        s.pc = list(self.pc)
        s.trace = list(self.trace)
        s.yielded = self.yielded
        s.ghost = dict(self.ghost)
        s.fn = self.fn
        s.module = self.module
        s.old = self.old
        s.spec = self.spec
        s.depth = self.depth
        s.handlers = self.handlers
        s.notes = list(self.notes)
        s.qidx = self.qidx
        s.qinfo = self.qinfo
        s.entry = self.entry
        s.cond_ctx = getattr(self, 'cond_ctx', False)
        s.bound = getattr(self, 'bound', ())
        s.ofields = dict(self.ofields)
        s.epoch = self.epoch
        return s

    def assume(self, c):
        if isinstance(c, bool):
            c = z3.BoolVal(c)
        if not z3.is_true(c):
            self.pc.append(c)
        return self


class VC(object):
    def __init__(self, oid, kind, pc, goal, where='', info=None, st=None):
        self.oid = oid
        self.kind = kind
        self.pc = list(pc)
        self.goal = goal
        self.where = where
        self.info = info or {}
        self.st = st


NEXT, RETURN, RAISE, BREAK, CONTINUE = 'next', 'return', 'raise', 'break', 'continue'


class Executor(object):
    def __init__(self, progdb, registry, feas_timeout_ms=1500):
        self.db = progdb
        self.reg = registry
        self.vcs = []
        self.feas_timeout = feas_timeout_ms
        self.refctr = 0
        self.used_inline = set()
        self.used_contracts = set()
        self.used_stubs = set()
        self.used_opaque = set()
        self.dropped = set()
        self.cur_target = None
        self.max_depth = 6
        self.path_limit = 4000
        self.npaths = 0
        self.feas_calls = 0
        from . import builtins as B
        self.B = B

    # ---------------------------------------------------------------------------------------------
    # solver helpers
    def feasible(self, st, cond=None):
        s = z3.Solver()
        s.set('timeout', self.feas_timeout)
        s.add(*st.pc)
        if cond is not None:
            s.add(cond)
        self.feas_calls += 1
        try:
            return s.check() != z3.unsat
        except z3.Z3Exception:      # resource limit: treat as feasible (conservative)
            return True

    def branch(self, st, cond):
        """-> list of (state, bool) for feasible branches of z3 Bool `cond`."""
        if isinstance(cond, bool):
            return [(st, cond)]
        cond = z3.simplify(cond)
        if z3.is_true(cond):
            return [(st, True)]
        if z3.is_false(cond):
            return [(st, False)]
        out = []
        t_ok = self.feasible(st, cond)
        f_ok = self.feasible(st, z3.Not(cond))
        if t_ok and f_ok:
            s2 = st.fork()
            out.append((st.assume(cond), True))
            out.append((s2.assume(z3.Not(cond)), False))
        elif t_ok:
            out.append((st.assume(cond), True))
        elif f_ok:
            out.append((st.assume(z3.Not(cond)), False))
        return out

    def oblige(self, st, goal, oid, kind, where='', info=None):
        if isinstance(goal, bool):
            goal = z3.BoolVal(goal)
        self.vcs.append(VC(oid, kind, st.pc, goal, where, info, st))

    # ---------------------------------------------------------------------------------------------
    # allocation / fresh values
    def new_ref(self, st, cls):
        self.refctr += 1
        st.heap[self.refctr] = {}
        st.objcls[self.refctr] = cls
        return VObj(self.refctr, cls)

    def materialize(self, st, obj, depth=0):
        """eagerly create all declared fields of an object, recursively (pre-state snapshots and spec forks must
        see the same symbolic fields)"""
        if obj.cls.startswith('$') or depth > 4:
            return
        decl = self.reg.class_decl(obj.cls, self.db)
        if decl is None:
            return
        for f, ty in decl['fields'].items():
            if f in st.heap[obj.ref]:
                continue
            alts = expand_unions(parse_type(ty))
            if len(alts) != 1:
                raise Unsupported('union-typed field %s.%s (use opt[...] or a contract variant)' % (obj.cls, f))
            prev = getattr(st, '_mat_depth', 0)
            st._mat_depth = depth + 1
            try:
                st.heap[obj.ref][f] = self.fresh(st, alts[0], '%s.%s' % (obj.cls.split(':')[-1], f))
            finally:
                st._mat_depth = prev

    def fresh(self, st, ty, name, idx=()):
        """fresh symbolic value of union-free type `ty`; side facts go to st.pc."""
        ty = parse_type(ty)
        k = ty.kind
        if not idx and getattr(st, 'qidx', None) is not None and k not in ('obj',):
            # inside the generic iteration of a comprehension: results are functions of the iteration index
            return self._fresh_fn(st, ty, name, (st.qidx,), {})
        if k in ('int', 'real', 'bool', 'str'):
            sort = {'int': z3.IntSort(), 'real': z3.RealSort(), 'bool': z3.BoolSort(), 'str': z3.StringSort()}[k]
            if idx:
                f = z3.Function(uid(name), *([z3.IntSort()] * len(idx) + [sort]))
                t = f(*idx)
            else:
                t = z3.Const(uid(name), sort)
            return {'int': VInt, 'real': VReal, 'bool': VBool, 'str': VStr}[k](t)
        if k == 'bytes':
            v = self.fresh(st, 'str', name, idx)
            v.isbytes = True
            return v
        if k == 'nat':
            v = self.fresh(st, 'int', name, idx)
            if not idx:
                st.assume(v.t >= 0)
            return v
        if k == 'none':
            return NONE
        if k == 'opaque' or k == 'any':
            if idx:
                f = z3.Function(uid(name), *([z3.IntSort()] * len(idx) + [ObjSort]))
                return VOpaque(f(*idx))
            return VOpaque(name=name)
        if k == 'blob':
            if idx:
                f = z3.Function(uid(name), *([z3.IntSort()] * len(idx) + [BlobSort]))
                t = f(*idx)
            else:
                t = z3.Const(uid(name), BlobSort)
                st.assume(self.B.blob_len(t) >= 0)
            return VBlob(t, self.B.blob_len(t))
        if k == 'tuple':
            return VSeq([self.fresh(st, a, '%s.%d' % (name, i), idx) for i, a in enumerate(ty.args)], kind='tuple')
        if k == 'opt':
            b = self.fresh(st, 'bool', name + '.isnone', idx)
            return VOpt(b.t, self.fresh(st, ty.args[0], name, idx))
        if k == 'seq':
            n = self.fresh(st, 'int', name + '.len', idx)
            if not idx:
                st.assume(n.t >= 0)
            cache = {}
            inner = ty.args[0]
            # element leaves are applications of per-sequence uninterpreted functions
            proto_state = st

            def elem(i, _name=name, _inner=inner, _idx=idx, _cache=cache):
                return self._fresh_fn(proto_state, _inner, _name + '[]', tuple(_idx) + (i,), _cache)
            return VSeq(length=n.t, elem=elem, kind='list' if ty.name == 'list' else 'tuple')
        if k == 'obj':
            if idx:
                raise Unsupported('sequences of objects are not supported (%s)' % name)
            obj = self.new_ref(st, ty.name)
            self.materialize(st, obj, getattr(st, '_mat_depth', 0))
            return obj
        if k in self.B.STUB_TYPES:
            return self.B.STUB_TYPES[k](self, st, ty, name, idx)
        if k == 'union':
            raise Unsupported('union type must be expanded before fresh(): %r' % ty)
        raise Unsupported('unknown type %r' % ty)

    def _fresh_fn(self, st, ty, name, idx, cache):
        """value of type ty whose leaves are fixed functions (cached by leaf path) applied to idx."""
        ty = parse_type(ty)
        k = ty.kind
        if k in ('int', 'real', 'bool', 'str', 'nat', 'opaque', 'blob', 'any', 'bytes'):
            sort = {'int': z3.IntSort(), 'nat': z3.IntSort(), 'real': z3.RealSort(), 'bool': z3.BoolSort(),
                    'str': z3.StringSort(), 'bytes': z3.StringSort(), 'opaque': ObjSort, 'any': ObjSort,
                    'blob': BlobSort}[k]
            key = (name, k)
            if key not in cache:
                cache[key] = z3.Function(uid(name), *([x.sort() for x in idx] + [sort]))
            t = cache[key](*idx)
            if k in ('int', 'nat'):
                return VInt(t)
            if k == 'real':
                return VReal(t)
            if k == 'bool':
                return VBool(t)
            if k in ('str', 'bytes'):
                return VStr(t, isbytes=(k == 'bytes'))
            if k in ('opaque', 'any'):
                return VOpaque(t)
            return VBlob(t, self.B.blob_len(t))
        if k == 'none':
            return NONE
        if k == 'tuple':
            return VSeq([self._fresh_fn(st, a, '%s.%d' % (name, i), idx, cache) for i, a in enumerate(ty.args)],
                        kind='tuple')
        if k == 'opt':
            b = self._fresh_fn(st, 'bool', name + '.isnone', idx, cache)
            return VOpt(b.t, self._fresh_fn(st, ty.args[0], name, idx, cache))
        if k == 'seq':
            n = self._fresh_fn(st, 'int', name + '.len', idx, cache)

            def elem(i, _name=name, _inner=ty.args[0], _idx=idx):
                return self._fresh_fn(st, _inner, _name + '[]', tuple(_idx) + (i,), cache)
            # note: len >= 0 for inner sequences is asserted lazily by users through seq_len_nonneg
            return VSeq(length=z3.If(n.t >= 0, n.t, 0), elem=elem, kind='list' if ty.name == 'list' else 'tuple')
        if k == 'dict':
            ksort = z3.StringSort() if ty.args[0].kind == 'str' else z3.IntSort()
            return self.B.new_symdict(self, st, name, ty.args[1], ksort, idx, fcache=cache)
        raise Unsupported('element type %r not supported inside a symbolic sequence' % ty)

    def shape_type(self, st, v):
        """type descriptor that `fresh` would turn into a value of the same shape (for loop havoc)."""
        if isinstance(v, VInt):
            return Ty('int')
        if isinstance(v, VReal):
            return Ty('real')
        if isinstance(v, VBool):
            return Ty('bool')
        if isinstance(v, VStr):
            return Ty('bytes' if v.isbytes else 'str')
        if isinstance(v, VNone):
            return Ty('none')
        if isinstance(v, VOpt):
            return Ty('opt', [self.shape_type(st, v.val)])
        if isinstance(v, VOpaque):
            return Ty('opaque')
        if isinstance(v, VBlob):
            return Ty('blob')
        if isinstance(v, VSeq):
            if v.concrete and v.kind == 'tuple':
                return Ty('tuple', [self.shape_type(st, x) for x in v.items])
            if v.concrete:
                if not v.items:
                    raise Unsupported('cannot infer element type of an empty list (declare it in the loop types)')
                return Ty('seq', [self.shape_type(st, v.items[0])], name='list')
            return Ty('seq', [self.shape_type(st, v.elem(z3.IntVal(0)))], name='list' if v.kind == 'list' else None)
        raise Unsupported('cannot infer havoc type of %r (declare it in the loop types)' % (v,))

    # ---------------------------------------------------------------------------------------------
    # truthiness
    def truth(self, st, v):
        """z3 Bool: Python truthiness of v"""
        if isinstance(v, VBool):
            return v.t
        if isinstance(v, VInt):
            return v.t != 0
        if isinstance(v, VReal):
            return v.t != 0
        if isinstance(v, VNone):
            return z3.BoolVal(False)
        if isinstance(v, VStr):
            return z3.Length(v.t) > 0
        if isinstance(v, VOpt):
            return z3.And(z3.Not(v.isnone), self.truth(st, v.val))
        if isinstance(v, VSeq):
            return v.length() > 0
        if isinstance(v, VBlob):
            return v.len > 0
        if isinstance(v, VDict):
            if v.items is not None:
                return z3.BoolVal(bool(v.items))
            return self.B.symdict_len(v) > 0
        if isinstance(v, VObj):
            if v.cls.startswith('$'):
                return self.B.stub_truth(self, st, v)
            ci = self.class_info(v.cls)
            if ci is not None and (self.db.find_method(ci, '__len__') or self.db.find_method(ci, '__bool__')):
                raise Unsupported('truthiness of object with __len__/__bool__: %s' % v.cls)
            return z3.BoolVal(True)
        if isinstance(v, (VFunc, VOpaque)):
            if isinstance(v, VOpaque):
                return self.B.opaque_truth(v)
            return z3.BoolVal(True)
        raise Unsupported('truthiness of %r' % (v,))

    def class_info(self, clskey):
        if ':' not in clskey:
            return None
        return self.db.cls(clskey)

    # ---------------------------------------------------------------------------------------------
    # expression evaluation:  ev(st, node) -> [(state, Value | Raised)]
    def bind(self, outs, f):
        res = []
        for st, v in outs:
            if isinstance(v, Raised):
                res.append((st, v))
            else:
                res.extend(f(st, v))
        return res

    def ev_list(self, st, nodes, k, acc=None):
        """evaluate nodes left to right, then k(st, [values])"""
        acc = acc or []
        if not nodes:
            return k(st, acc)
        return self.bind(self.ev(st, nodes[0]), lambda s, v: self.ev_list(s, nodes[1:], k, acc + [v]))

    def ev1(self, st, node):
        """spec mode: single-valued evaluation"""
        outs = self.ev(st, node)
        if len(outs) != 1 or isinstance(outs[0][1], Raised):
            raise Unsupported('spec expression is not single-valued/total: %s -> %r' % (ast.dump(node)[:80], outs))
        return outs[0][1]

    def ev(self, st, node):
        m = getattr(self, 'ev_' + type(node).__name__, None)
        if m is None:
            raise Unsupported('expression %s at line %s' % (type(node).__name__, getattr(node, 'lineno', '?')))
        return m(st, node)

    def ev_Constant(self, st, node):
        return [(st, self.const(node.value))]

    def const(self, c):
        if c is None:
            return NONE
        if isinstance(c, bool):
            return VBool(c)
        if isinstance(c, int):
            return VInt(c)
        if isinstance(c, float):
            return VReal(c)
        if isinstance(c, str):
            return VStr(c)
        if isinstance(c, bytes):
            return VStr(c.decode('latin-1'), isbytes=True)
        if isinstance(c, tuple):
            return VSeq([self.const(x) for x in c], kind='tuple')
        if c is Ellipsis:
            return NONE
        raise Unsupported('constant %r' % (c,))

    def ev_Name(self, st, node):
        name = node.id
        if name in st.env:
            v = st.env[name]
            if v is None:
                return [(st, Raised('UnboundLocalError', note=name))]
            return [(st, v)]
        if st.spec and name in self.reg.ghosts:
            return [(st, VFunc('ghost', self.reg.ghosts[name], name=name))]
        v = self.global_name(st, st.module, name)
        if v is None and name in ('__package__', '__name__', '__file__'):
            # module attributes set by the import system: constants of the module that is being read
            mod = getattr(st.module, 'name', None) or str(st.module)
            v = VStr({'__package__': mod.rsplit('.', 1)[0], '__name__': mod, '__file__': mod.replace('.', '/') + '.py'}[name])
        if v is None:
            raise Unsupported('unknown name %r (line %s)' % (name, getattr(node, 'lineno', '?')))
        return [(st, v)]

    def global_name(self, st, module, name):
        if module is not None:
            r = self.db.resolve_name(module, name)
            if r is not None:
                return self.resolved_value(st, r, name)
        if name in self.B.BUILTINS:
            return VFunc('builtin', self.B.BUILTINS[name], name=name)
        if name in EXC_PARENTS or name in self.reg.exceptions:
            return VFunc('exc', name, name=name)
        if name in ('True', 'False', 'None'):
            return {'True': VBool(True), 'False': VBool(False), 'None': NONE}[name]
        if name in ('str', 'int', 'float', 'tuple', 'list', 'dict', 'bytes', 'bool', 'object', 'set'):
            return VFunc('builtin', self.B.BUILTINS[name], name=name)
        return None

    def resolved_value(self, st, r, name):
        kind, tgt = r
        if kind == 'func':
            return VFunc('py', tgt, name=tgt.key)
        if kind == 'class':
            if self.is_exception_class(tgt):
                return VFunc('exc', tgt.name, name=tgt.name)
            return VFunc('class', tgt, name=tgt.key)
        if kind == 'module':
            return VFunc('module', tgt, name=tgt)
        if kind == 'const':
            mod, expr = tgt
            sub = State()
            sub.module = mod
            sub.spec = True
            sub.pc = st.pc
            return self.ev1(sub, expr)
        if kind == 'extern':
            mod, attr = tgt
            full = '%s.%s' % (mod, attr)
            if full in self.B.EXTERNS:
                return VFunc('builtin', self.B.EXTERNS[full], name=full)
            if attr in EXC_PARENTS or full in EXC_PARENTS:
                return VFunc('exc', attr, name=attr)
            return VFunc('extern', full, name=full)
        raise Unsupported('resolve %r' % (r,))

    def is_exception_class(self, ci):
        for c in self.db.mro(ci):
            for b in c.bases:
                n = b.id if isinstance(b, ast.Name) else (b.attr if isinstance(b, ast.Attribute) else None)
                if n in EXC_PARENTS:
                    self.reg.exceptions.setdefault(ci.name, n)
                    for cc in self.db.mro(ci):
                        if cc is not ci:
                            self.reg.exceptions.setdefault(ci.name, cc.name)
                            break
                    # record direct parent chain
                    chain = self.db.mro(ci)
                    for a, bb in zip(chain, chain[1:]):
                        self.reg.exceptions[a.name] = bb.name
                    self.reg.exceptions[chain[-1].name] = n if chain[-1] is c else self.reg.exceptions.get(chain[-1].name, n)
                    return True
        return False

    def exc_isinstance(self, cls, handler):
        seen = 0
        c = cls
        # classes of other modules are known by their qualified name ('sqlite3.OperationalError') in `except` clauses and by
        # their bare name in `raises` declarations of opaque callees: compare the bare names
        bare = lambda n: n.split('.')[-1] if isinstance(n, str) else n      # noqa
        qual = {bare(k): k for k in EXC_PARENTS if '.' in k}
        while c is not None and seen < 30:
            if c == handler or bare(c) == bare(handler):
                return True
            c = self.reg.exceptions.get(c, EXC_PARENTS.get(c, EXC_PARENTS.get(qual.get(c))))
            seen += 1
        return False

    def ev_Tuple(self, st, node):
        if any(isinstance(e, ast.Starred) for e in node.elts):
            raise Unsupported('starred in tuple')
        return self.ev_list(st, node.elts, lambda s, vs: [(s, VSeq(vs, kind='tuple'))])

    def ev_List(self, st, node):
        if any(isinstance(e, ast.Starred) for e in node.elts):
            raise Unsupported('starred in list')
        return self.ev_list(st, node.elts, lambda s, vs: [(s, VSeq(vs, kind='list'))])

    def ev_Dict(self, st, node):
        if any(k is None for k in node.keys):
            raise Unsupported('dict unpacking')

        def fin(s, vs):
            n = len(node.keys)
            keys, vals = vs[:n], vs[n:]
            d = {}
            for kv, vv in zip(keys, vals):
                ck = self.B.concrete_key(kv)
                if ck is None:
                    raise Unsupported('dict literal with symbolic key')
                d[ck] = vv
            return [(s, VDict(d))]
        return self.ev_list(st, list(node.keys) + list(node.values), fin)

    def ev_Set(self, st, node):
        return self.ev_list(st, node.elts, lambda s, vs: [(s, VSeq(vs, kind='set'))])

    def ev_JoinedStr(self, st, node):
        parts = []
        for v in node.values:
            if isinstance(v, ast.Constant):
                parts.append(v)
            elif isinstance(v, ast.FormattedValue):
                if v.format_spec is not None or v.conversion not in (-1, 115):
                    raise Unsupported('f-string format spec')
                parts.append(v.value)

        def fin(s, vs):
            out = None
            for x in vs:
                sx = self.B.to_str(self, s, x)
                out = sx if out is None else VStr(z3.Concat(out.t, sx.t))
            return [(s, out if out is not None else VStr(''))]
        return self.ev_list(st, parts, fin)

    def ev_IfExp(self, st, node):
        def k(s, c):
            t = self.truth(s, c)
            if s.spec:
                ts = z3.simplify(t)
                if z3.is_true(ts):
                    return [(s, self.ev1(s, node.body))]
                if z3.is_false(ts):
                    return [(s, self.ev1(s, node.orelse))]
                a = self.ev1(s, node.body)
                b = self.ev1(s, node.orelse)
                return [(s, ite(t, a, b))]
            res = []
            for s2, b in self.branch(s, t):
                res.extend(self.ev(s2, node.body if b else node.orelse))
            return res
        return self.bind(self.ev(st, node.test), k)

    def ev_BoolOp(self, st, node):
        is_and = isinstance(node.op, ast.And)
        if st.spec:
            vals = []
            for vn in node.values:
                v = self.ev1(st, vn)
                vals.append(v)
                # concretely decided operand: Python would not evaluate the rest (which may be ill-typed, e.g.
                # `x is not None and x[0] > 0` with x == None)
                t = z3.simplify(self.truth(st, v))
                if (is_and and z3.is_false(t)) or (not is_and and z3.is_true(t)):
                    break
            if all(isinstance(v, VBool) for v in vals):
                ts = [v.t for v in vals]
                return [(st, VBool(z3.And(ts) if is_and else z3.Or(ts)))]
            try:
                r = vals[-1]
                for v in reversed(vals[:-1]):
                    t = self.truth(st, v)
                    r = ite(t, r, v) if is_and else ite(t, v, r)
                return [(st, r)]
            except Unsupported:
                # operands of different shapes: in a specification only the truth value matters
                ts = [self.truth(st, v) for v in vals]
                return [(st, VBool(z3.And(ts) if is_and else z3.Or(ts)))]

        merged = self.boolop_pure(st, node, is_and)
        if merged is not None:
            return [(st, merged)]

        def go(s, i):
            def k(s2, v):
                if i == len(node.values) - 1:
                    return [(s2, v)]
                t = self.truth(s2, v)
                res = []
                for s3, b in self.branch(s2, t):
                    if b == is_and:
                        res.extend(go(s3, i + 1))
                    else:
                        res.append((s3, v if not isinstance(v, VBool) else VBool(b)))
                return res
            return self.bind(self.ev(s, node.values[i]), k)
        return go(st, 0)

    def boolop_pure(self, st, node, is_and):
        """`a and b and c` / `a or b` whose operands are side-effect free and cannot raise under the short-circuit
        assumptions: one merged truth value instead of one path per operand (Python's result object is replaced by
        its truth value, which is all an `if`/`not`/`and`/`or` context observes; when every operand is a bool the
        value itself is that bool).  Returns None when the operands are not pure -> forking evaluation."""
        probe = st.fork()
        ts = []
        allbool = True
        for vn in node.values:
            n_tr, ep, heap_ids = len(probe.trace), probe.epoch, {r: id(f) for r, f in probe.heap.items()}
            n_pc = len(probe.pc)
            try:
                outs = self.ev(probe, vn)
            except Unsupported:
                return None
            if len(outs) != 1 or isinstance(outs[0][1], Raised) or outs[0][0] is not probe:
                return None
            if len(probe.trace) != n_tr or probe.epoch != ep or len(probe.heap) != len(heap_ids):
                return None
            v = outs[0][1]
            if not isinstance(v, VBool):
                allbool = False
            t = self.truth(probe, v)
            ts.append((t, probe.pc[n_pc:]))
            probe.assume(t if is_and else z3.Not(t))
            if not self.feasible(probe):
                break
        if not allbool and not getattr(st, 'cond_ctx', False):
            return None
        # definitional facts added while evaluating an operand (e.g. fdiv facts) hold unconditionally
        for t, facts in ts:
            for f in facts:
                if not any(f.eq(x) for x in st.pc):
                    st.pc.append(f)
        terms = [t for t, _ in ts]
        return VBool(z3.And(terms) if is_and else z3.Or(terms))

    def ev_UnaryOp(self, st, node):
        def k(s, v):
            if isinstance(node.op, ast.Not):
                return [(s, VBool(z3.Not(self.truth(s, v))))]
            if isinstance(node.op, ast.USub):
                if isinstance(v, VInt):
                    return [(s, VInt(z3.IntVal(-v.t.as_long()) if z3.is_int_value(v.t) else -v.t))]
                if isinstance(v, VBool):
                    return [(s, VInt(-to_int(v)))]
                if isinstance(v, VReal):
                    return [(s, VReal(-v.t))]
            if isinstance(node.op, ast.UAdd) and is_num(v):
                return [(s, v)]
            raise Unsupported('unary %s on %r' % (type(node.op).__name__, v))
        return self.bind(self.ev(st, node.operand), k)

    def ev_BinOp(self, st, node):
        return self.ev_list(st, [node.left, node.right],
                            lambda s, vs: self.binop(s, node.op, vs[0], vs[1], node))

    def binop(self, st, op, a, b, node=None):
        return self.B.binop(self, st, op, a, b, node)

    def ev_Compare(self, st, node):
        def k(s, vs):
            conj = []
            for i, op in enumerate(node.ops):
                conj.append(self.compare(s, op, vs[i], vs[i + 1]))
            outs = [(s, [])]
            for c in conj:
                new = []
                for s2, acc in outs:
                    for s3, r in (c(s2) if callable(c) else [(s2, c)]):
                        if isinstance(r, Raised):
                            new.append((s3, r))
                        else:
                            new.append((s3, acc + [r]))
                outs = new
            res = []
            for s2, acc in outs:
                if isinstance(acc, Raised):
                    res.append((s2, acc))
                else:
                    res.append((s2, VBool(z3.And(acc) if len(acc) > 1 else acc[0])))
            return res
        return self.ev_list(st, [node.left] + list(node.comparators), k)

    def compare(self, st, op, a, b):
        """-> z3 Bool, or callable(state)->[(state, z3Bool|Raised)] when forking is needed"""
        B = self.B
        if isinstance(op, (ast.Is, ast.IsNot)):
            r = B.identical(self, st, a, b)
            return z3.Not(r) if isinstance(op, ast.IsNot) else r
        if isinstance(op, (ast.Eq, ast.NotEq)) and isinstance(a, VObj) and isinstance(b, VObj) and a.ref != b.ref \
                and not a.cls.startswith('$'):
            ci = self.class_info(a.cls)
            eqm = self.db.find_method(ci, '__eq__') if ci else None
            nem = self.db.find_method(ci, '__ne__') if ci else None
            if eqm is not None and not (isinstance(op, ast.NotEq) and nem is not None):
                neg = isinstance(op, ast.NotEq)

                def f(s, a=a, b=b, eqm=eqm, neg=neg):
                    outs = self.call_function(s, eqm, [a, b], {}, None, force_inline=True)
                    res = []
                    for s2, r in outs:
                        if isinstance(r, Raised):
                            res.append((s2, r))
                        else:
                            t = self.truth(s2, r)
                            res.append((s2, z3.Not(t) if neg else t))
                    return res
                return f
        if isinstance(op, ast.Eq):
            return B.py_eq(self, st, a, b)
        if isinstance(op, ast.NotEq):
            return z3.Not(B.py_eq(self, st, a, b))
        if isinstance(op, (ast.In, ast.NotIn)):
            neg = isinstance(op, ast.NotIn)

            def f(s):
                outs = B.contains(self, s, b, a)
                return [(s2, r if isinstance(r, Raised) else (z3.Not(r) if neg else r)) for s2, r in outs]
            return f
        # ordering
        if isinstance(a, VOpt) or isinstance(b, VOpt):
            if st.spec:
                a = a.val if isinstance(a, VOpt) else a
                b = b.val if isinstance(b, VOpt) else b
            else:
                def f(s, a=a, b=b):
                    res = []
                    for s2, av in self.force(s, a):
                        if isinstance(av, Raised):
                            res.append((s2, av))
                            continue
                        for s3, bv in self.force(s2, b):
                            if isinstance(bv, Raised):
                                res.append((s3, bv))
                            else:
                                c = self.compare(s3, op, av, bv)
                                res.extend(c(s3) if callable(c) else [(s3, c)])
                    return res
                return f
        if isinstance(a, VNone) or isinstance(b, VNone):
            if st.spec:
                return z3.BoolVal(False)
            return lambda s: [(s, Raised('TypeError', note='ordering comparison with None'))]
        return B.order(self, st, op, a, b)

    def force(self, st, v):
        """strip VOpt: fork into the None case (value NONE) and the present case"""
        if not isinstance(v, VOpt):
            return [(st, v)]
        if st.spec:
            return [(st, v.val)]
        res = []
        for s2, b in self.branch(st, v.isnone):
            res.append((s2, NONE if b else v.val))
        return res

    def ev_Attribute(self, st, node):
        return self.bind(self.ev(st, node.value), lambda s, v: self.getattr(s, v, node.attr, node))

    def getattr(self, st, v, attr, node=None):
        if isinstance(v, VOpt):
            res = []
            for s2, fv in self.force(st, v):
                if isinstance(fv, VNone):
                    res.append((s2, Raised('AttributeError', note="None.%s" % attr)))
                else:
                    res.extend(self.getattr(s2, fv, attr, node))
            return res
        if isinstance(v, VNone):
            return [(st, Raised('AttributeError', note='None.%s' % attr))]
        if isinstance(v, VObj):
            return self.obj_getattr(st, v, attr, node)
        if isinstance(v, VFunc):
            if v.kind == 'module':
                return [(st, self.module_attr(st, v.target, attr))]
            if v.kind == 'class':
                fi = self.db.find_method(v.target, attr)
                if fi is not None:
                    return [(st, VFunc('py', fi, name=fi.key))]
                ca = self.db.find_class_attr(v.target, attr)
                if ca is not None:
                    sub = State()
                    sub.module = ca[0].module
                    sub.spec = True
                    return [(st, self.ev1(sub, ca[1]))]
            if v.kind == 'excinst':
                # attributes of a caught exception: errno is an unknown int (fixed per instance), the rest opaque
                store = v.__dict__.setdefault('_attrs', {})
                if attr not in store:
                    store[attr] = VInt(z3.Int(uid('errno'))) if attr in ('errno', 'code', 'winerror') else \
                        VOpaque(name='exc_' + attr)
                return [(st, store[attr])]
            if v.kind == 'extern':
                full = '%s.%s' % (v.target, attr)
                if full in self.B.EXTERNS:
                    return [(st, VFunc('builtin', self.B.EXTERNS[full], name=full))]
                return [(st, VFunc('extern', full, name=full))]
        if isinstance(v, VOpaque):
            return [(st, self.opaque_field(st, v, attr, node))]
        # methods on builtin values
        if isinstance(v, (VSeq, VStr, VDict, VBlob, VInt, VReal)):
            return [(st, VFunc('method', attr, selfv=v, name=attr))]
        raise Unsupported('attribute .%s on %r (line %s)' % (attr, v, getattr(node, 'lineno', '?')))

    def opaque_field(self, st, v, attr, node=None):
        """attribute of an opaque object.  Declared in the target's `opaque_fields` -> typed value given by an
        uninterpreted function of (object, epoch) plus the writes made on this path; otherwise a bound opaque
        method/attribute (VFunc 'omethod') that becomes an opaque call when called."""
        tgt = self.cur_target or {}
        decl = tgt.get('opaque_fields', {})
        if attr not in decl:
            # undeclared attribute: an unknown value (it may be falsy, it may be callable).  It is a function of the
            # object and the epoch, so two reads without an intervening opaque call agree.
            cache = self.__dict__.setdefault('_ofield_cache', {})
            ep = 0 if attr in tgt.get('stable_fields', ()) else st.epoch
            c = cache.setdefault(('$attr', attr, ep), {})
            val = self._fresh_fn(st, 'opaque', 'attr_%s@%d' % (attr, ep), (v.t,), c)
            val.bound_self = v
            val.attr = attr
            return val
        f = st.ofields.get(attr)
        if f is None:
            f = self._ofield_base(st, attr, decl[attr])
            st.ofields[attr] = f
        return f(v.t)

    def opaque_field_at(self, st, ev, v, attr):
        """value of a tracked opaque field as it was when event `ev` happened (before the callee could change it)"""
        tmp = st.fork()
        tmp.ofields = dict(getattr(ev, 'pre_ofields', st.ofields))
        tmp.epoch = getattr(ev, 'pre_epoch', st.epoch)
        return self.opaque_field(tmp, v, attr)

    def _ofield_base(self, st, attr, ty):
        cache = self.__dict__.setdefault('_ofield_cache', {})
        key = (attr, st.epoch if attr not in (self.cur_target or {}).get('stable_fields', ()) else 0)
        ex = self

        def base(o, _key=key, _ty=ty):
            c = cache.setdefault(_key, {})
            return ex._fresh_fn(st, _ty, 'fld_%s@%d' % _key, (o,), c)
        return base

    def opaque_setattr(self, st, v, attr, val):
        tgt = self.cur_target or {}
        decl = tgt.get('opaque_fields', {})
        if attr not in decl:
            # untracked attribute: remember nothing (reads give an opaque method/attr)
            st.trace.append(Event('setattr:' + attr, [v, val], {}, None, dict(st.ghost), 0, recv=v))
            return
        old = st.ofields.get(attr) or self._ofield_base(st, attr, decl[attr])
        tgt_t = v.t
        pre_ofields, pre_epoch = dict(st.ofields), st.epoch

        def upd(o, _old=old, _t=tgt_t, _val=val):
            return ite(o == _t, _val, _old(o))
        st.ofields[attr] = upd
        ev = Event('setattr:' + attr, [v, val], {}, None, dict(st.ghost), 0, recv=v)
        ev.pre_ofields, ev.pre_epoch = pre_ofields, pre_epoch
        st.trace.append(ev)

    def havoc_opaque_fields(self, st):
        """an opaque callee may have mutated any opaque object: forget the tracked fields (except `stable_fields`)"""
        st.epoch += 1
        stable = (self.cur_target or {}).get('stable_fields', ())
        for a in list(st.ofields):
            if a not in stable:
                del st.ofields[a]

    def module_attr(self, st, modname, attr):
        full = '%s.%s' % (modname, attr)
        if full in self.B.EXTERNS:
            x = self.B.EXTERNS[full]
            if isinstance(x, Value):
                return x
            return VFunc('builtin', x, name=full)
        m = self.db.module(modname)
        if m is not None:
            v = self.global_name(st, m, attr)
            if v is not None:
                return v
        sub = self.db.module(full)
        if sub is not None:
            return VFunc('module', full, name=full)
        if full in EXC_PARENTS:
            return VFunc('exc', full, name=full)
        return VFunc('extern', full, name=full)

    def obj_getattr(self, st, v, attr, node=None):
        fields = st.heap.get(v.ref, {})
        if attr in fields:
            return [(st, fields[attr])]
        if v.cls.startswith('$'):
            return [(st, VFunc('method', attr, selfv=v, name=attr))]
        cdecl = self.reg.class_decl(v.cls, self.db)
        if cdecl is not None and attr in cdecl['fields']:
            ty = parse_type(cdecl['fields'][attr])
            alts = expand_unions(ty)
            if len(alts) > 1 and not st.spec:
                res = []
                for t in alts:
                    s2 = st.fork()
                    val = self.fresh(s2, t, '%s.%s' % (v.cls.split(':')[-1], attr))
                    s2.heap[v.ref][attr] = val
                    res.append((s2, val))
                return res
            val = self.fresh(st, alts[0], '%s.%s' % (v.cls.split(':')[-1], attr))
            fields[attr] = val
            if st.old is not None and v.ref in st.old.heap and attr not in st.old.heap[v.ref]:
                # lazily materialised field: it had this value in the pre-state too
                st.old.heap[v.ref][attr] = val
            return [(st, val)]
        ci = self.class_info(v.cls)
        if ci is not None:
            fi = self.db.find_method(ci, attr)
            if fi is not None:
                if 'property' in fi.decorators or 'cached_property' in fi.decorators or 'memoize' in fi.decorators \
                        and False:
                    return self.call_function(st, fi, [v], {}, node)
                if 'staticmethod' in fi.decorators:
                    return [(st, VFunc('py', fi, name=fi.key))]
                return [(st, VFunc('py', fi, selfv=v, name=fi.key))]
            ca = self.db.find_class_attr(ci, attr)
            if ca is not None:
                prop = self.property_attr(ca)
                if prop is not None:
                    getter = self.db.find_method(ci, prop[0])
                    return self.call_function(st, getter, [v], {}, node, force_inline=True)
                sub = State()
                sub.module = ca[0].module
                sub.spec = True
                return [(st, self.ev1(sub, ca[1]))]
        if ci is not None:
            ga = self.db.find_method(ci, '__getattr__')
            if ga is not None:
                return self.call_function(st, ga, [v, VStr(attr)], {}, node, force_inline=True)
        if st.spec:
            raise Unsupported('spec reads undeclared field %s.%s' % (v.cls, attr))
        raise Unsupported('attribute %s.%s is neither a declared field, method nor class attribute (line %s)'
                          % (v.cls, attr, getattr(node, 'lineno', '?')))

    def property_attr(self, ca):
        """class attribute `name = property(getter[, setter])` -> (getter name, setter name|None)"""
        expr = ca[1]
        if isinstance(expr, ast.Call) and isinstance(expr.func, ast.Name) and expr.func.id == 'property' and expr.args \
                and all(isinstance(a, ast.Name) for a in expr.args):
            return expr.args[0].id, (expr.args[1].id if len(expr.args) > 1 else None)
        return None

    def ev_Subscript(self, st, node):
        if isinstance(node.slice, ast.Slice):
            sl = node.slice
            parts = [sl.lower, sl.upper, sl.step]

            def k(s, base):
                present = [p for p in parts if p is not None]

                def k2(s2, vs):
                    it = iter(vs)
                    lo, hi, stp = [next(it) if p is not None else None for p in parts]
                    return self.B.slice(self, s2, base, lo, hi, stp)
                return self.ev_list(s, present, k2)
            return self.bind(self.ev(st, node.value), k)
        return self.ev_list(st, [node.value, node.slice], lambda s, vs: self.B.getitem(self, s, vs[0], vs[1], node))

    def ev_Lambda(self, st, node):
        return [(st, VFunc('lambda', (node, dict(st.env), st.module), name='<lambda>'))]

    def ev_ListComp(self, st, node):
        return self.comprehension(st, node, 'list')

    def ev_GeneratorExp(self, st, node):
        return self.comprehension(st, node, 'list')

    def comprehension(self, st, node, kind):
        if len(node.generators) != 1:
            raise Unsupported('nested comprehension')
        g = node.generators[0]

        def k(s, it):
            from .values import VDictItems
            if isinstance(it, VDictItems):
                return self.comprehension_dictitems(s, node, g, it)
            seqs = self.B.as_seq(self, s, it)
            res = []
            for s2, sq in seqs:
                if isinstance(sq, Raised):
                    res.append((s2, sq))
                    continue
                if sq.concrete:
                    # exact unrolling
                    outs = [(s2, [])]
                    for item in sq.items:
                        new = []
                        for s3, acc in outs:
                            saved = dict(s3.env)
                            self.assign_target(s3, g.target, item)
                            conds = [(s3, True)]
                            for cnd in g.ifs:
                                nc = []
                                for s4, keep in conds:
                                    if not keep:
                                        nc.append((s4, False))
                                        continue
                                    for s5, cv in self.ev(s4, cnd):
                                        if isinstance(cv, Raised):
                                            raise Unsupported('exception in comprehension filter')
                                        for s6, b in self.branch(s5, self.truth(s5, cv)):
                                            nc.append((s6, b))
                                conds = nc
                            for s4, keep in conds:
                                if not keep:
                                    self._restore_comp_env(s4, saved, g.target)
                                    new.append((s4, acc))
                                    continue
                                for s5, ev in self.ev(s4, node.elt):
                                    if isinstance(ev, Raised):
                                        res.append((s5, ev))
                                    else:
                                        self._restore_comp_env(s5, saved, g.target)
                                        new.append((s5, acc + [ev]))
                        outs = new
                    for s3, acc in outs:
                        res.append((s3, VSeq(acc, kind='list')))
                else:
                    res.extend(self.comprehension_symbolic(s2, node, g, sq))
            return res
        return self.bind(self.ev(st, g.iter), k)

    def comprehension_symbolic(self, s2, node, g, sq):
        """comprehension over a sequence of symbolic length: ONE generic iteration (index gi) is executed; the
        result is the lambda-sequence i -> elt[gi := i]; opaque calls made by the element expression become
        quantified events ("for every i in range with the filter true"); facts learnt about the generic iteration
        are universally quantified.  A filter (`if`) makes the result a filtered view (usable by all()/any() and as
        an opaque argument)."""
        from .values import subst_value
        env0 = dict(s2.env)
        gi = z3.Int(uid('ci'))
        chk = s2.fork()
        rng = z3.And(gi >= 0, gi < sq.length())
        chk.assume(rng)
        npc = len(chk.pc)
        chk.qidx = gi
        n0 = len(chk.trace)
        e0 = chk.epoch
        self.assign_target(chk, g.target, sq.elem(gi))
        keep = z3.BoolVal(True)
        for cnd in g.ifs:
            base_pc = len(chk.pc)
            base_tr = len(chk.trace)
            probe = chk.fork()
            couts = self.ev(probe, cnd)
            if any(isinstance(v_, Raised) for _s, v_ in couts):
                raise Unsupported('comprehension filter may raise')
            if len(couts) == 1 and couts[0][0] is probe and len(probe.trace) == base_tr:
                chk.pc = probe.pc
                keep = z3.And(keep, self.truth(chk, couts[0][1]))
            else:
                # the filter forks (short-circuit around an opaque call): keep <=> some outcome is taken and true;
                # the opaque calls it makes are recorded (once) as events of the generic iteration
                alts = []
                seen_ev = set()
                for s_i, v_i in couts:
                    delta = s_i.pc[base_pc:]
                    alts.append(z3.And(delta + [self.truth(s_i, v_i)]))
                    for ev_ in s_i.trace[base_tr:]:
                        if id(ev_) not in seen_ev:
                            seen_ev.add(id(ev_))
                            chk.trace.append(ev_)
                    if s_i.epoch != chk.epoch:
                        chk.epoch = max(chk.epoch, s_i.epoch)
                keep = z3.And(keep, z3.Or(alts))
        chk.assume(keep)
        chk.qinfo = (gi, sq.length(), keep)
        outs = self.ev(chk, node.elt)
        normal = [(s3, v) for s3, v in outs if not isinstance(v, Raised)]
        raised = [(s3, v) for s3, v in outs if isinstance(v, Raised)]
        res = []
        for s3, v in raised:
            sr = s2.fork()
            for ev_ in s3.trace[n0:]:
                ev_.quant = (gi, sq.length(), keep)
                sr.trace.append(ev_)
            sr.pc = list(s3.pc)       # some iteration gi raised
            sr.env = dict(env0)
            res.append((sr, v))
        if len(normal) != 1:
            if not normal:
                return res
            raise Unsupported('comprehension element expression forks (%d outcomes)' % len(normal))
        s3, v = normal[0]
        facts = s3.pc[npc:]
        if facts:
            body = z3.And(facts) if len(facts) > 1 else facts[0]
            s2.assume(z3.ForAll([gi], z3.Implies(rng, body)))
        for ev_ in s3.trace[n0:]:
            ev_.quant = (gi, sq.length(), keep)
            s2.trace.append(ev_)
        if s3.epoch != e0:
            self.havoc_opaque_fields(s2)
        s2.env = dict(env0)

        def elem(i, v=v, gi=gi):
            return subst_value(v, gi, i)
        out = VSeq(length=sq.length(), elem=elem, kind='list')
        if g.ifs:
            out.keep = lambda i, keep=keep, gi=gi: z3.substitute(keep, (gi, i))
        res.append((s2, out))
        return res

    def comprehension_dictitems(self, s, node, g, it):
        """((k, v) for k, v in d.items() if cond(k, v)) over a symbolic dict d: the items of the dict d' with
        has'(j) = has(j) and cond(j, val(j)), same values, 0 <= len' <= len.  ONE generic key is examined."""
        from .values import VDictItems
        d = it.d
        tgt, elt = g.target, node.elt
        if not (isinstance(tgt, ast.Tuple) and len(tgt.elts) == 2 and all(isinstance(e, ast.Name) for e in tgt.elts)
                and isinstance(elt, ast.Tuple) and len(elt.elts) == 2 and all(isinstance(e, ast.Name) for e in elt.elts)
                and [e.id for e in tgt.elts] == [e.id for e in elt.elts]):
            raise Unsupported('comprehension over the items of a symbolic dict that is not a pure filter')
        ksort = d.sym['ksort']
        kq = z3.Const(uid('dk'), ksort)
        env0 = dict(s.env)
        chk = s.fork()
        has, val = d.sym['has'], d.sym['val']
        kv = VStr(kq) if ksort == z3.StringSort() else VInt(kq)
        chk.assume(has(self.B.keyterm(kv)))
        npc = len(chk.pc)
        chk.env[tgt.elts[0].id] = kv
        chk.env[tgt.elts[1].id] = val(self.B.keyterm(kv))
        keep = z3.BoolVal(True)
        ntr = len(chk.trace)
        for cnd in g.ifs:
            couts = self.ev(chk, cnd)
            if len(couts) != 1 or couts[0][0] is not chk or isinstance(couts[0][1], Raised) or len(chk.trace) != ntr:
                raise Unsupported('filter over the items of a symbolic dict forks, raises or calls opaque code')
            keep = z3.And(keep, self.truth(chk, couts[0][1]))
        facts = chk.pc[npc:]
        if facts:
            s.assume(z3.ForAll([kq], z3.Implies(has(self.B.keyterm(kv)), z3.And(facts) if len(facts) > 1 else facts[0])))
        n2 = z3.Int(uid('flen'))
        s.assume(z3.And(n2 >= 0, n2 <= d.sym['len']))
        s.env = env0

        def has2(j, keep=keep, kq=kq, has=has):
            kt = self.B.keyterm(j)
            if len(kt) != 1 or kt[0].sort() != ksort:
                return z3.BoolVal(False)
            return z3.And(has(kt), z3.substitute(keep, (kq, kt[0])))
        self.used_stubs.add('filtering comprehension over dict.items(): key-wise filter (insertion order not modelled)')
        return [(s, VDictItems(VDict(sym={'has': has2, 'val': val, 'len': n2, 'ksort': ksort})))]

    def _restore_comp_env(self, s, saved, target):
        for n in ast.walk(target):
            if isinstance(n, ast.Name):
                if n.id in saved:
                    s.env[n.id] = saved[n.id]
                else:
                    s.env.pop(n.id, None)

    def ev_Starred(self, st, node):
        raise Unsupported('starred expression')

    def ev_Call(self, st, node):
        # spec built-ins that need the unevaluated AST
        if st.spec and isinstance(node.func, ast.Name):
            f = node.func.id
            if f in ('forall', 'exists', 'forall_str'):
                return [(st, self.spec_quant(st, node, f))]
            if f == 'old':
                if st.old is None:
                    raise Unsupported('old() outside a postcondition')
                o = st.old.fork()
                o.spec = True
                o.pc = st.pc
                for k_, v_ in st.env.items():
                    if (k_.startswith('_') and k_ not in o.env) or k_ in getattr(st, 'bound', ()):
                        o.env[k_] = v_
                o.bound = getattr(st, 'bound', ())
                return [(st, self.ev1(o, node.args[0]))]
            if f == 'implies':
                a = self.ev1(st, node.args[0])
                if z3.is_false(z3.simplify(self.truth(st, a))):
                    return [(st, VBool(True))]
                b = self.ev1(st, node.args[1])
                return [(st, VBool(z3.Implies(self.truth(st, a), self.truth(st, b))))]
            if f == 'iff':
                a = self.ev1(st, node.args[0])
                b = self.ev1(st, node.args[1])
                return [(st, VBool(self.truth(st, a) == self.truth(st, b)))]
        if any(isinstance(a, ast.Starred) for a in node.args) or any(k.arg is None for k in node.keywords):
            return self.call_starred(st, node)

        def k(s, vs):
            fv = vs[0]
            n = len(node.args)
            args = vs[1:1 + n]
            kwargs = {kw.arg: v for kw, v in zip(node.keywords, vs[1 + n:])}
            return self.call_value(s, fv, args, kwargs, node)
        return self.ev_list(st, [node.func] + list(node.args) + [kw.value for kw in node.keywords], k)

    def call_starred(self, st, node):
        def k(s, vs):
            fv = vs[0]
            args = []
            it = iter(vs[1:])
            for a in node.args:
                v = next(it)
                if isinstance(a, ast.Starred):
                    if isinstance(v, VSeq) and v.concrete:
                        args.extend(v.items)
                    elif isinstance(fv, (VOpaque,)) or (isinstance(fv, VFunc) and fv.kind in ('omethod', 'extern')):
                        v.starred = True        # unknown argument tuple handed to an opaque callee
                        args.append(v)
                    else:
                        raise Unsupported('*args with symbolic-length sequence')
                else:
                    args.append(v)
            kwargs = {}
            for kw in node.keywords:
                v = next(it)
                if kw.arg is None:
                    if isinstance(v, VDict) and v.items is not None:
                        for kk, vv in v.items.items():
                            # concrete dict keys are stored as (kind, value): keyword names are the plain strings
                            if isinstance(kk, tuple) and len(kk) == 2 and kk[0] == 's':
                                kk = kk[1]
                            elif not isinstance(kk, str):
                                raise Unsupported('**kwargs with a non-string key')
                            kwargs[kk] = vv
                    else:
                        raise Unsupported('**kwargs with symbolic dict')
                else:
                    kwargs[kw.arg] = v
            return self.call_value(s, fv, args, kwargs, node)
        nodes = [node.func] + [a.value if isinstance(a, ast.Starred) else a for a in node.args] + \
                [kw.value for kw in node.keywords]
        return self.ev_list(st, nodes, k)

    def spec_quant(self, st, node, which):
        lam = node.args[0]
        if not isinstance(lam, ast.Lambda):
            raise Unsupported('forall/exists needs a lambda')
        names = [a.arg for a in lam.args.args]
        if which == 'forall_str':
            bvs = [z3.String(uid('q_' + n)) for n in names]
        else:
            bvs = [z3.Int(uid('q_' + n)) for n in names]
        sub = st.fork()
        sub.bound = tuple(getattr(st, 'bound', ())) + tuple(names)
        for n, b in zip(names, bvs):
            sub.env[n] = VStr(b) if which == 'forall_str' else VInt(b)
        if which == 'forall_str':
            which = 'forall'
        guards = []
        if len(node.args) >= 3 and len(names) == 1:
            lo = self.ev1(st, node.args[1])
            hi = self.ev1(st, node.args[2])
            guards = [to_int(lo) <= bvs[0], bvs[0] < to_int(hi)]
        elif len(node.args) == 1 + len(names) and len(node.args) > 1:
            for b, rng in zip(bvs, node.args[1:]):
                r = self.ev1(st, rng)
                guards += [to_int(r.items[0]) <= b, b < to_int(r.items[1])]
        body = self.truth(sub, self.ev1(sub, lam.body))
        pats = []
        if which == 'forall':
            f = z3.Implies(z3.And(guards), body) if guards else body
            return VBool(z3.ForAll(bvs, f))
        f = z3.And(guards + [body]) if guards else body
        return VBool(z3.Exists(bvs, f))

    # ---------------------------------------------------------------------------------------------
    # calls
    def call_value(self, st, fv, args, kwargs, node=None):
        if isinstance(fv, VOpt):
            res = []
            for s2, f2 in self.force(st, fv):
                if isinstance(f2, VNone):
                    res.append((s2, Raised('TypeError', note='None is not callable')))
                else:
                    res.extend(self.call_value(s2, f2, args, kwargs, node))
            return res
        if isinstance(fv, VFunc):
            if fv.kind == 'builtin':
                if st.spec:
                    args = [a.val if isinstance(a, VOpt) else a for a in args]
                return fv.target(self, st, args, kwargs, node)
            if fv.kind == 'method':
                return self.B.call_method(self, st, fv.selfv, fv.target, args, kwargs, node)
            if fv.kind == 'py':
                a = ([fv.selfv] if fv.selfv is not None else []) + list(args)
                return self.call_function(st, fv.target, a, kwargs, node)
            if fv.kind == 'ghost':
                return [(st, self.call_ghost(st, fv.target, args, name=getattr(fv, 'name', None)))]
            if fv.kind == 'lambda':
                lam, env, mod = fv.target
                sub_env = dict(env)
                for p, a in zip(lam.args.args, args):
                    sub_env[p.arg] = a
                saved, smod = st.env, st.module
                st.env, st.module = sub_env, mod
                outs = self.ev(st, lam.body)
                for s2, _ in outs:
                    s2.env, s2.module = dict(saved), smod
                return outs
            if fv.kind == 'omethod':
                return self.opaque_call(st, self.describe_callee(node) if node is not None else fv.target, fv.selfv,
                                        args, kwargs, node)
            if fv.kind == 'exc':
                return [(st, VFunc('excinst', (fv.target, args), name=fv.target))]
            if fv.kind == 'class':
                return self.instantiate(st, fv.target, args, kwargs, node)
            if fv.kind == 'extern':
                return self.opaque_call(st, fv.name, None, args, kwargs, node)
            if fv.kind == 'closure':
                fi, env = fv.target
                return self.call_function(st, fi, list(args), kwargs, node, closure_env=env)
        if isinstance(fv, VOpaque):
            recv = getattr(fv, 'bound_self', None)
            name = self.describe_callee(node) if node is not None else getattr(fv, 'attr', 'call')
            if getattr(fv, 'attr', None) and not name.endswith(fv.attr):
                name = fv.attr
            return self.opaque_call(st, name, recv if recv is not None else fv, args, kwargs, node)
        raise Unsupported('call of %r (line %s)' % (fv, getattr(node, 'lineno', '?')))

    def describe_callee(self, node):
        try:
            return ast.unparse(node.func)
        except Exception:
            return '<call>'

    def call_ghost(self, st, g, args, name=None):
        params, body = g
        if callable(body):
            return body(self, st, *args)
        sub = st.fork()
        sub.spec = True
        sub.env = dict(zip(params, args))
        sub.env.update({k: v for k, v in st.env.items() if k.startswith('_')})
        sub.bound = ()
        val = self.ev1(sub, body)
        if name is not None and name in getattr(self.reg, 'opaque_ghosts', ()):
            app = self._ghost_app(st, name, args, val)
            if name in ((self.cur_target or {}).get('reveal') or ()):
                st.assume(eq(app, val))          # the definition, visible where the contract asks for it
                return val
            return app
        return val

    def _ghost_app(self, st, name, args, val):
        """the opaque view of a ghost: an uninterpreted function applied to the flattened arguments"""
        terms = []

        def flat(v, depth=0):
            if isinstance(v, (VInt, VReal, VBool, VStr)):
                terms.append(v.t if not isinstance(v, VBool) else v.t)
            elif isinstance(v, VOpaque):
                terms.append(v.t)
            elif isinstance(v, VNone):
                pass
            elif isinstance(v, VOpt):
                flat(v.val, depth)      # the ghost is about the value (its body would not accept None anyway)
            elif isinstance(v, VSeq) and v.concrete:
                for x in v.items:
                    flat(x, depth)
            elif isinstance(v, VObj) and depth < 2 and not v.cls.startswith('$'):
                for f_ in sorted(st.heap.get(v.ref, {})):
                    if not f_.startswith('$'):
                        flat(st.heap[v.ref][f_], depth + 1)
            else:
                raise Unsupported('opaque ghost %s: argument %r cannot be flattened' % (name, v))
        for a in args:
            flat(a)
        if isinstance(val, VStr):
            rs, wrap = z3.StringSort(), VStr
        elif isinstance(val, VInt):
            rs, wrap = z3.IntSort(), VInt
        elif isinstance(val, VReal):
            rs, wrap = z3.RealSort(), VReal
        elif isinstance(val, VBool):
            rs, wrap = z3.BoolSort(), VBool
        else:
            raise Unsupported('opaque ghost %s: result %r' % (name, val))
        terms = [t if z3.is_expr(t) else z3.BoolVal(bool(t)) for t in terms]
        f = z3.Function('ghost_' + name + '_%d' % len(terms), *([t.sort() for t in terms] + [rs]))
        return wrap(f(*terms))

    def instantiate(self, st, ci, args, kwargs, node):
        if ci.key in self.B.CTOR_STUBS:
            return self.B.CTOR_STUBS[ci.key](self, st, args, kwargs, node)
        decl = self.reg.class_decl(ci.key, self.db)
        init = self.db.find_method(ci, '__init__')
        c = self.reg.contracts.get('%s.__init__' % ci.key)
        in_spec = ci.name in (self.cur_target or {}).get('opaque_spec', {}) and self.cur_policy(ci.key) != 'inline'
        if self.cur_policy(ci.key + '.__init__') == 'opaque' or self.cur_policy(ci.key) == 'opaque' or in_spec or \
                (decl is None and c is None and self.cur_policy(ci.key) != 'inline'):
            outs_ = self.opaque_call(st, ci.name, None, args, kwargs, node)
            from .values import opaque_is_none
            for s_, r_ in outs_:
                if isinstance(r_, VOpaque):
                    s_.assume(z3.Not(opaque_is_none(r_.t)))      # a constructor never returns None
                    # ... and returns a NEW object: different from every value that already has a name here
                    for v_ in list(st.env.values()) + list(args) + list(kwargs.values()):
                        v_ = v_.val if isinstance(v_, VOpt) else v_
                        if isinstance(v_, VOpaque) and v_.t.sort() == r_.t.sort() and not v_.t.eq(r_.t):
                            s_.assume(r_.t != v_.t)
            return outs_
        obj = self.new_ref(st, ci.key)
        if init is None:
            return [(st, obj)]
        outs = self.call_function(st, init, [obj] + list(args), kwargs, node)
        return [(s, v if isinstance(v, Raised) else obj) for s, v in outs]

    def cur_policy(self, key):
        """how the contract under verification wants callee `key` treated: 'inline' | 'opaque' | 'contract' | None"""
        c = self.cur_target
        if c is None:
            return None
        short = key.split(':')[-1]
        for k in (key, short, short.split('.')[-1]):
            if k in c.get('opaque', ()):
                return 'opaque'
            if k in c.get('inline', ()):
                return 'inline'
        return None

    def bind_params(self, st, fi, args, kwargs, closure_env=None):
        """-> new env dict (defaults evaluated in the callee's module)"""
        a = fi.node.args
        if a.vararg or a.kwarg:
            if not (a.kwarg and not kwargs and not a.vararg):
                raise Unsupported('*args/**kwargs in %s' % fi.key)
        params = [p.arg for p in a.posonlyargs + a.args]
        env = dict(closure_env or {})
        if len(args) > len(params):
            raise Unsupported('too many positional args for %s' % fi.key)
        for p, v in zip(params, args):
            env[p] = v
        defaults = a.defaults
        dstart = len(params) - len(defaults)
        for i, p in enumerate(params):
            if p in env and i < len(args):
                continue
            if p in kwargs:
                env[p] = kwargs[p]
            elif i >= dstart:
                sub = State()
                sub.module = fi.module
                sub.spec = True
                env[p] = self.ev1(sub, defaults[i - dstart])
            else:
                raise Unsupported('missing argument %s for %s' % (p, fi.key))
        for p, d in zip(a.kwonlyargs, a.kw_defaults):
            if p.arg in kwargs:
                env[p.arg] = kwargs[p.arg]
            elif d is not None:
                sub = State()
                sub.module = fi.module
                sub.spec = True
                env[p.arg] = self.ev1(sub, d)
            else:
                raise Unsupported('missing kw-only argument %s' % p.arg)
        for kname in kwargs:
            if kname not in params and kname not in [p.arg for p in a.kwonlyargs]:
                if a.kwarg:
                    continue
                raise Unsupported('unexpected keyword %s for %s' % (kname, fi.key))
        if a.kwarg:
            env[a.kwarg.arg] = VDict({})
        return env

    def call_function(self, st, fi, args, kwargs, node=None, closure_env=None, force_inline=False):
        key = fi.key
        pol = self.cur_policy(key)
        contract = self.reg.contracts.get(key)
        if not force_inline:
            if pol == 'opaque':
                return self.opaque_call(st, fi.qualname, args[0] if fi.cls and args else None,
                                        args[1:] if fi.cls else args, kwargs, node, key=key)
            if contract is not None and pol != 'inline' and not st.spec:
                return self.modular_call(st, fi, contract, args, kwargs, node)
            if contract is None and pol != 'inline' and self.cur_target is not None and \
                    self.cur_target.get('default_callee', 'inline') == 'opaque':
                return self.opaque_call(st, fi.qualname, args[0] if fi.cls and args else None,
                                        args[1:] if fi.cls else args, kwargs, node, key=key)
        if st.depth >= self.max_depth:
            raise Unsupported('inline depth exceeded at %s' % key)
        self.used_inline.add(key)
        env = self.bind_params(st, fi, args, kwargs, closure_env)
        saved = (st.env, st.fn, st.module, st.yielded, st.depth)
        st.env, st.fn, st.module, st.depth = env, fi, fi.module, st.depth + 1
        st.yielded = VSeq([], kind='list') if fi.is_generator else None
        outs = self.exec_block(st, fi.node.body)
        res = []
        for s, (kind, val) in outs:
            y = s.yielded
            s.env, s.fn, s.module, s.yielded, s.depth = dict(saved[0]), saved[1], saved[2], saved[3], saved[4]
            if kind == RAISE:
                res.append((s, val))
            elif fi.is_generator:
                res.append((s, y))
            elif kind == RETURN:
                res.append((s, val))
            elif kind == NEXT:
                res.append((s, NONE))
            else:
                raise Unsupported('break/continue escaped function %s' % key)
        return res

    def contract_env(self, st, fi, args, kwargs):
        return self.bind_params(st, fi, args, kwargs)

    def modular_call(self, st, fi, c, args, kwargs, node):
        """assert requires, havoc modifies, assume ensures (callee body not looked at)."""
        self.used_contracts.add(fi.key)
        env = self.contract_env(st, fi, args, kwargs)
        where = '%s:%s' % (st.fn.key if st.fn else '?', getattr(node, 'lineno', '?'))
        pre = st.fork()
        pre.pc = st.pc      # facts about uninterpreted images (A-fmt ...) met while evaluating a clause stay known
        pre.env = dict(env)
        pre.module = fi.module
        pre.spec = True
        for i, r in enumerate(c.get('requires', [])):
            g = self.spec_bool(pre, r)
            self.oblige(st, g, 'call:%s.requires#%d' % (fi.qualname, i), 'callsite-pre', where,
                        {'callee': fi.key, 'clause': r})
            st.assume(g)
        # result(s)
        rty = parse_type(c.get('returns', 'none'))
        outs = []
        raises = c.get('raises', {})
        alts = expand_unions(rty)
        for t in alts:
            s2 = st.fork() if (len(alts) > 1 or raises) else st
            oldst = s2.fork()
            pre_ofields, pre_epoch = dict(s2.ofields), s2.epoch
            self.havoc_modifies(s2, c, env)
            result = self.fresh(s2, t, 'r_' + fi.name)
            post = s2.fork()
            post.pc = s2.pc
            post.env = dict(env)
            post.env['result'] = result
            post.module = fi.module
            post.spec = True
            post.old = oldst
            post.old.env = dict(env)
            for e in c.get('ensures', []):
                if callable(e) and c.get('bounded'):
                    continue        # concrete (bounded-check) clause: not usable symbolically
                s2.assume(self.spec_bool(post, e))
                post.pc = s2.pc
            s2.heap = post.heap if False else s2.heap
            ev = Event(fi.qualname, args, kwargs, result, dict(s2.ghost), getattr(node, 'lineno', 0))
            ev.key = fi.key
            # (the values tracked opaque fields had when the callee was entered: `opaque_field_at(st, ev, ..)`)
            ev.pre_ofields, ev.pre_epoch = pre_ofields, pre_epoch
            s2.trace.append(ev)
            if self.feasible(s2):
                outs.append((s2, result))
        for exc, cond in raises.items():
            s2 = st.fork()
            if cond is not True:
                pre2 = s2.fork()
                pre2.env = dict(env)
                pre2.module = fi.module
                pre2.spec = True
                s2.assume(self.spec_bool(pre2, cond))
            if self.feasible(s2):
                outs.append((s2, Raised(exc, note='from %s' % fi.qualname)))
        return outs

    def havoc_modifies(self, st, c, env):
        for m in c.get('modifies', []):
            # 'self.field' or 'param.field'
            base, _, field = m.partition('.')
            obj = env.get(base)
            if isinstance(obj, VOpaque):
                # attribute of an opaque object: all non-stable opaque attributes are forgotten (over-approximation)
                self.havoc_opaque_fields(st)
                continue
            if not isinstance(obj, VObj):
                raise Unsupported('modifies %s: not an object' % m)
            if obj.cls.startswith('$'):
                self.B.stub_havoc(self, st, obj, field)
                continue
            decl = self.reg.class_decl(obj.cls, self.db)
            if field == '*':
                st.heap[obj.ref] = {}
                continue
            ty = decl['fields'][field]
            st.heap[obj.ref][field] = self.fresh(st, expand_unions(parse_type(ty))[0], '%s.%s' % (base, field))

    def opaque_call(self, st, name, recv, args, kwargs, node, key=None):
        """unknown callee: fresh result, may raise (if declared), appended to the ghost trace.
        opaque_spec entry keys: returns (type), raises ([exc]), always_raises (exc), pure (bool: does not mutate
        opaque objects), fields ({attr: 'argN' | spec}) (attributes of the result set from arguments), effect."""
        tgt = self.cur_target or {}
        self.used_opaque.add(key or name)
        spec = None
        base_ = name.rsplit(').', 1)[1] if ').' in name else name      # a.b().c -> c (chained call: the last method)
        short = base_.split('(')[0].split('.')[-1]
        for k in (key, name, short):
            if k is not None and k in tgt.get('opaque_spec', {}):
                spec = tgt['opaque_spec'][k]
                break
        spec = spec or {}
        lineno = getattr(node, 'lineno', 0)
        if spec.get('always_raises'):
            ev = Event(short, args, kwargs, None, dict(st.ghost), lineno, recv=recv)
            ev.key, ev.full, ev.raised = key, name, spec['always_raises']
            st.trace.append(ev)
            cur = st.ghost.get('$handling')
            if spec['always_raises'] == 'reraise' and cur is not None:
                return [(st, cur)]
            return [(st, Raised(spec['always_raises'], note='from opaque %s' % name))]
        rty = spec.get('returns', 'opaque')
        outs = []
        fkey = None
        if spec.get('func'):
            # a deterministic function of its arguments (no effect): syntactically equal arguments give the same result,
            # in code and in specifications alike
            def vk(v):
                if hasattr(v, 't') and hasattr(v.t, 'get_id'):
                    return '%s#%d' % (type(v).__name__, v.t.get_id())
                if isinstance(v, VOpt):
                    return 'opt(%s,%s)' % (v.isnone.get_id() if hasattr(v.isnone, 'get_id') else v.isnone, vk(v.val))
                if isinstance(v, VSeq) and v.concrete:
                    return '[%s]' % ','.join(vk(i) for i in v.items)
                if isinstance(v, VNone):
                    return 'None'
                return None
            ks = [vk(a) for a in args] + ['%s=%s' % (k_, vk(v_)) for k_, v_ in sorted(kwargs.items())]
            if all(k_ is not None and not k_.endswith('=None') or k_ == 'None' for k_ in ks):
                fkey = '$func:%s(%s)' % (short, ';'.join(ks))
                if rty not in ('str', 'int', 'opaque', 'bool', 'real'):
                    raise Unsupported("opaque_spec func: result type %s carries per-state facts" % rty)
                fc = self.__dict__.setdefault('func_cache', {})
                if fkey in fc:
                    return [(st, fc[fkey])]
        for t in expand_unions(parse_type(rty)):
            s2 = st.fork()
            pre_ofields, pre_epoch = dict(s2.ofields), s2.epoch
            if not spec.get('pure'):
                self.havoc_opaque_fields(s2)
            if 'make' in spec:
                res = spec['make'](self, s2, args, kwargs)
            else:
                res = self.fresh(s2, t, 'r_' + short)
            if fkey is not None:
                self.func_cache[fkey] = res
                return [(st, res)]
            ev = Event(short, args, kwargs, res, dict(s2.ghost), lineno, recv=recv)
            ev.key, ev.full = key, name
            ev.pre_ofields, ev.pre_epoch = pre_ofields, pre_epoch
            ev.quant = getattr(s2, 'qinfo', None)
            s2.trace.append(ev)
            for m in spec.get('havoc', []):
                self.havoc_path(s2, m, recv, args)
            for attr, src in spec.get('fields', {}).items():
                base = res.val if isinstance(res, VOpt) else res
                if isinstance(base, VOpaque):
                    val = args[int(src[3:])] if src.startswith('arg') and len(args) > int(src[3:]) else \
                        kwargs.get(src, NONE)
                    if getattr(s2, 'qidx', None) is not None and attr in tgt.get('opaque_fields', {}):
                        # inside the generic iteration of a comprehension: the result is a function of the iteration
                        # index; its field is fixed by a FACT (universally quantified by the comprehension), not by a
                        # point update of the field store
                        from .values import eq as _veq
                        s2.assume(_veq(self.opaque_field(s2, base, attr), val))
                    else:
                        self.opaque_setattr(s2, base, attr, val)
                        s2.trace.pop()      # constructor field initialisation is not an observable event
            if 'effect' in spec:
                spec['effect'](self, s2, ev)
            if 'applies' in spec and not s2.spec:
                # a higher-order callee (pool.imap(f, items) ...): f is CALLED on the elements.  One generic element is
                # executed symbolically; the events of that call are recorded as quantified events ("for every element"),
                # its result and any exception are the callee's business (result objects) and are dropped here.
                fi_, it_ = spec['applies']
                fv_ = args[fi_] if fi_ < len(args) else None
                seqv = args[it_] if it_ < len(args) else None
                if isinstance(fv_, VFunc) and isinstance(seqv, VSeq):
                    gi = z3.Int(uid('ap'))
                    probe = s2.fork()
                    probe.assume(z3.And(gi >= 0, gi < seqv.length()))
                    n0_ = len(probe.trace)
                    seen_ = set()
                    for s3_, v3_ in self.call_value(probe, fv_, [seqv.elem(gi)], {}, node):
                        for e3_ in s3_.trace[n0_:]:
                            if id(e3_) in seen_:
                                continue
                            seen_.add(id(e3_))
                            e3_.quant = (gi, seqv.length(), z3.BoolVal(True))
                            e3_.ghost = dict(e3_.ghost, applied_by=short)
                            s2.trace.append(e3_)
                    self.used_stubs.add('%s(f, items): f is executed once on a generic element; its events are recorded as '
                                        '"for every element" events' % short)
            outs.append((s2, res))
        for exc in spec.get('raises', tgt.get('opaque_raises', [])):
            s2 = st.fork()
            ev = Event(short, args, kwargs, None, dict(s2.ghost), lineno, recv=recv)
            ev.key, ev.full = key, name
            ev.raised = exc
            ev.quant = getattr(s2, 'qinfo', None)
            s2.trace.append(ev)
            outs.append((s2, Raised(exc, note='from opaque %s' % name)))
        return outs

    def havoc_path(self, st, m, recv, args):
        base, _, field = m.partition('.')
        if base == 'self' and isinstance(recv, VObj):
            obj = recv
        elif base.startswith('arg'):
            obj = args[int(base[3:])]
        else:
            raise Unsupported('havoc path %s' % m)
        decl = self.reg.class_decl(obj.cls, self.db)
        ty = decl['fields'][field]
        st.heap[obj.ref][field] = self.fresh(st, expand_unions(parse_type(ty))[0], '%s.%s' % (base, field))

    # ---------------------------------------------------------------------------------------------
    # spec helpers
    def spec_bool(self, st, clause):
        """clause: str (spec dialect) | callable(executor, state)->z3 Bool"""
        if callable(clause):
            return clause(self, st)
        node = self.reg.parse_spec(clause)
        was = st.spec
        st.spec = True
        try:
            v = self.ev1(st, node)
        finally:
            st.spec = was
        return self.truth(st, v)

    # ---------------------------------------------------------------------------------------------
    # statements:  exec_block(st, stmts) -> [(state, (kind, value))]
    def exec_block(self, st, stmts):
        outs = [(st, (NEXT, None))]
        for stmt in stmts:
            new = []
            for s, (kind, val) in outs:
                if kind != NEXT:
                    new.append((s, (kind, val)))
                else:
                    new.extend(self.exec_stmt(s, stmt))
            outs = new
            if len(outs) > self.path_limit:
                raise Unsupported('path explosion (> %d paths) in %s' % (self.path_limit, st.fn.key if st.fn else '?'))
        return outs

    def exec_stmt(self, st, stmt):
        m = getattr(self, 'ex_' + type(stmt).__name__, None)
        if m is None:
            raise Unsupported('statement %s at line %s' % (type(stmt).__name__, stmt.lineno))
        return m(st, stmt)

    def _raise(self, outs):
        """expression outcomes -> statement outcomes, mapping Raised to RAISE"""
        res = []
        for s, v in outs:
            if isinstance(v, Raised):
                res.append((s, (RAISE, v)))
            else:
                res.append((s, (NEXT, v)))
        return res

    def ex_Expr(self, st, stmt):
        v = stmt.value
        if isinstance(v, ast.Constant):
            return [(st, (NEXT, None))]      # docstring
        if isinstance(v, (ast.Yield, ast.YieldFrom)):
            return self.do_yield(st, v)
        if isinstance(v, ast.Call) and self.is_dropped_call(v):
            self.dropped.add(ast.unparse(v.func))
            return [(st, (NEXT, None))]
        return [(s, (k, None) if k == NEXT else (k, x)) for s, (k, x) in self._raise(self.ev(st, v))]

    def is_dropped_call(self, call):
        f = call.func
        if isinstance(f, ast.Name) and f.id in ('print',):
            return True
        if isinstance(f, ast.Attribute) and f.attr in ('debug', 'info', 'warning', 'warn', 'error', 'exception',
                                                        'critical', 'log'):
            base = f.value
            if isinstance(base, ast.Name) and (base.id.startswith('log') or base.id.endswith('log') or
                                               base.id.endswith('logger')):
                return True
            if isinstance(base, ast.Attribute) and ('log' in base.attr):
                return True
        return False

    def do_yield(self, st, y):
        if isinstance(y, ast.YieldFrom):
            raise Unsupported('yield from')
        if y.value is None:
            outs = [(st, NONE)]
        else:
            outs = self.ev(st, y.value)
        res = []
        for s, v in outs:
            if isinstance(v, Raised):
                res.append((s, (RAISE, v)))
                continue
            s.yielded = self.B.seq_append(self, s, s.yielded, v)
            res.append((s, (NEXT, None)))
        return res

    def ex_Pass(self, st, stmt):
        return [(st, (NEXT, None))]

    def ex_Global(self, st, stmt):
        raise Unsupported('global statement')

    def ex_Import(self, st, stmt):
        for a in stmt.names:
            top = (a.asname or a.name).split('.')[0]
            st.env[top] = VFunc('module', a.name if a.asname else a.name.split('.')[0], name=a.name)
        return [(st, (NEXT, None))]

    def ex_ImportFrom(self, st, stmt):
        # function-local import: bind the names like the module-level table would
        mod = stmt.module or ''
        if stmt.level:
            base = st.module.name.split('.')
            base = base[:len(base) - stmt.level]
            mod = '.'.join(base + ([mod] if mod else []))
        for a in stmt.names:
            v = self.module_attr(st, mod, a.name)
            st.env[a.asname or a.name] = v
        return [(st, (NEXT, None))]

    def ex_Return(self, st, stmt):
        if stmt.value is None:
            return [(st, (RETURN, NONE))]
        return [(s, (RAISE, v) if isinstance(v, Raised) else (RETURN, v)) for s, v in self.ev(st, stmt.value)]

    def ex_Break(self, st, stmt):
        return [(st, (BREAK, None))]

    def ex_Continue(self, st, stmt):
        return [(st, (CONTINUE, None))]

    def ex_Assert(self, st, stmt):
        res = []
        for s, v in self.ev(st, stmt.test):
            if isinstance(v, Raised):
                res.append((s, (RAISE, v)))
                continue
            for s2, b in self.branch(s, self.truth(s, v)):
                if b:
                    res.append((s2, (NEXT, None)))
                else:
                    res.append((s2, (RAISE, Raised('AssertionError', note='line %d' % stmt.lineno))))
        return res

    def ex_Raise(self, st, stmt):
        if stmt.exc is None:
            cur = st.ghost.get('$handling')
            if cur is None:
                raise Unsupported('bare raise outside handler')
            return [(st, (RAISE, cur))]
        res = []
        for s, v in self.ev(st, stmt.exc):
            if isinstance(v, Raised):
                res.append((s, (RAISE, v)))
            elif isinstance(v, VFunc) and v.kind == 'exc':
                res.append((s, (RAISE, Raised(v.target, (), note='line %d' % stmt.lineno))))
            elif isinstance(v, VFunc) and v.kind == 'excinst':
                res.append((s, (RAISE, Raised(v.target[0], tuple(v.target[1]), note='line %d' % stmt.lineno))))
            elif isinstance(v, VOpaque):
                res.append((s, (RAISE, Raised('Exception', (v,), note='opaque exception line %d' % stmt.lineno))))
            else:
                raise Unsupported('raise of %r' % (v,))
        return res

    def ev_cond(self, st, test):
        prev = getattr(st, 'cond_ctx', False)
        st.cond_ctx = True
        try:
            outs = self.ev(st, test)
        finally:
            st.cond_ctx = prev
        for s, _ in outs:
            s.cond_ctx = prev
        return outs

    def ex_If(self, st, stmt):
        res = []
        for s, v in self.ev_cond(st, stmt.test):
            if isinstance(v, Raised):
                res.append((s, (RAISE, v)))
                continue
            for s2, b in self.branch(s, self.truth(s, v)):
                res.extend(self.exec_block(s2, stmt.body if b else stmt.orelse))
        return res

    def ex_Assign(self, st, stmt):
        res = []
        for s, v in self.ev(st, stmt.value):
            if isinstance(v, Raised):
                res.append((s, (RAISE, v)))
                continue
            outs = [(s, None)]
            for tgt in stmt.targets:
                new = []
                for s2, r in outs:
                    if isinstance(r, Raised):
                        new.append((s2, r))
                    else:
                        new.extend(self.assign_target_f(s2, tgt, v))
                outs = new
            for s2, r in outs:
                res.append((s2, (RAISE, r) if isinstance(r, Raised) else (NEXT, None)))
        return res

    def ex_AnnAssign(self, st, stmt):
        if stmt.value is None:
            return [(st, (NEXT, None))]
        fake = ast.Assign(targets=[stmt.target], value=stmt.value, lineno=stmt.lineno)
        return self.ex_Assign(st, fake)

    def ex_AugAssign(self, st, stmt):
        load = self._as_load(stmt.target)

        def k(s, vs):
            outs = self.binop(s, stmt.op, vs[0], vs[1], stmt)
            res = []
            for s2, v in outs:
                if isinstance(v, Raised):
                    res.append((s2, v))
                else:
                    res.extend(self.assign_target_f(s2, stmt.target, v))
            return res
        return [(s, (RAISE, r) if isinstance(r, Raised) else (NEXT, None))
                for s, r in self.ev_list(st, [load, stmt.value], k)]

    def _as_load(self, t):
        import copy
        t2 = copy.deepcopy(t)
        for n in ast.walk(t2):
            if hasattr(n, 'ctx'):
                n.ctx = ast.Load()
        return t2

    def assign_target(self, st, tgt, v):
        outs = self.assign_target_f(st, tgt, v)
        if len(outs) != 1 or isinstance(outs[0][1], Raised) or outs[0][0] is not st:
            raise Unsupported('forking assignment in non-forking context')

    def assign_target_f(self, st, tgt, v):
        """-> [(state, None | Raised)]"""
        if isinstance(tgt, ast.Name):
            st.env[tgt.id] = v
            return [(st, None)]
        if isinstance(tgt, (ast.Tuple, ast.List)):
            if any(isinstance(e, ast.Starred) for e in tgt.elts):
                raise Unsupported('starred assignment')
            res = []
            for s, sv in self.force(st, v):
                if isinstance(sv, VNone):
                    res.append((s, Raised('TypeError', note='cannot unpack None')))
                    continue
                for s2, sq in self.B.as_seq(self, s, sv):
                    if isinstance(sq, Raised):
                        res.append((s2, sq))
                        continue
                    n = len(tgt.elts)
                    if sq.concrete:
                        if len(sq.items) != n:
                            res.append((s2, Raised('ValueError', note='unpack %d into %d' % (len(sq.items), n))))
                            continue
                        items = sq.items
                        outs = [(s2, None)]
                    else:
                        outs = []
                        for s3, b in self.branch(s2, sq.length() == n):
                            outs.append((s3, None if b else Raised('ValueError', note='unpack symbolic length')))
                        items = [sq.elem(z3.IntVal(i)) for i in range(n)]
                    for s3, r in outs:
                        if isinstance(r, Raised):
                            res.append((s3, r))
                            continue
                        cur = [(s3, None)]
                        for e, item in zip(tgt.elts, items):
                            nxt = []
                            for s4, r4 in cur:
                                if isinstance(r4, Raised):
                                    nxt.append((s4, r4))
                                else:
                                    nxt.extend(self.assign_target_f(s4, e, item))
                            cur = nxt
                        res.extend(cur)
            return res
        if isinstance(tgt, ast.Attribute):
            def k(s, base):
                if isinstance(base, VOpaque):
                    self.opaque_setattr(s, base, tgt.attr, v)
                    return [(s, None)]
                if isinstance(base, VOpt) and isinstance(base.val, VOpaque):
                    res_ = []
                    for s2_, b_ in self.branch(s, base.isnone):
                        if b_:
                            res_.append((s2_, Raised('AttributeError', note='None.%s = ...' % tgt.attr)))
                        else:
                            self.opaque_setattr(s2_, base.val, tgt.attr, v)
                            res_.append((s2_, None))
                    return res_
                if not isinstance(base, VObj):
                    raise Unsupported('attribute assignment on %r' % (base,))
                if base.cls.startswith('$'):
                    return self.B.stub_setattr(self, s, base, tgt.attr, v)
                ci_ = self.class_info(base.cls)
                if ci_ is not None and tgt.attr not in s.heap[base.ref]:
                    ca_ = self.db.find_class_attr(ci_, tgt.attr)
                    prop_ = self.property_attr(ca_) if ca_ is not None else None
                    if prop_ is not None and prop_[1]:
                        setter = self.db.find_method(ci_, prop_[1])
                        outs_ = self.call_function(s, setter, [base, v], {}, None, force_inline=True)
                        return [(s2_, r_ if isinstance(r_, Raised) else None) for s2_, r_ in outs_]
                decl_ = self.reg.class_decl(base.cls, self.db)
                if isinstance(v, VSeq) and v.concrete and not v.items and decl_ and tgt.attr in decl_['fields']:
                    # an empty list literal stored into a typed field: keep the element type (symbolic indexing of
                    # the empty list must still be well-shaped)
                    fty = parse_type(decl_['fields'][tgt.attr])
                    if fty.kind == 'opt':
                        fty = fty.args[0]
                    if fty.kind == 'seq':
                        proto = self.fresh(s, fty, tgt.attr + '_empty')
                        s.heap[base.ref][tgt.attr] = VSeq(length=z3.IntVal(0), elem=proto.elem, kind=v.kind)
                        return [(s, None)]
                s.heap[base.ref][tgt.attr] = v
                return [(s, None)]
            return self.bind(self.ev(st, tgt.value), k)
        if isinstance(tgt, ast.Subscript):
            if isinstance(tgt.slice, ast.Slice):
                raise Unsupported('slice assignment')

            def k(s, vs):
                base, idx = vs
                outs = self.B.setitem(self, s, base, idx, v)
                res = []
                for s2, nb in outs:
                    if isinstance(nb, Raised):
                        res.append((s2, nb))
                    elif nb is None:
                        res.append((s2, None))
                    else:
                        res.extend(self.assign_target_f(s2, tgt.value, nb))   # value semantics: write back
                return res
            return self.ev_list(st, [self._as_load(tgt.value), tgt.slice], k)
        raise Unsupported('assignment target %s' % type(tgt).__name__)

    def ex_Delete(self, st, stmt):
        res = [(st, None)]
        for tgt in stmt.targets:
            new = []
            for s, r in res:
                if isinstance(r, Raised):
                    new.append((s, r))
                    continue
                if isinstance(tgt, ast.Name):
                    s.env[tgt.id] = None
                    new.append((s, None))
                elif isinstance(tgt, ast.Subscript):
                    def k(s2, vs, tgt=tgt):
                        outs = self.B.delitem(self, s2, vs[0], vs[1])
                        rr = []
                        for s3, nb in outs:
                            if isinstance(nb, Raised) or nb is None:
                                rr.append((s3, nb))
                            else:
                                rr.extend(self.assign_target_f(s3, tgt.value, nb))
                        return rr
                    new.extend(self.ev_list(s, [self._as_load(tgt.value), tgt.slice], k))
                else:
                    raise Unsupported('del target')
            res = new
        return [(s, (RAISE, r) if isinstance(r, Raised) else (NEXT, None)) for s, r in res]

    def ex_FunctionDef(self, st, stmt):
        from .progdb import FunctionInfo
        fi = FunctionInfo(st.module, None, stmt, st.module.source)
        fi.key = '%s.<locals>.%s' % (st.fn.key if st.fn else '?', stmt.name)
        fi.qualname = stmt.name
        st.env[stmt.name] = VFunc('closure', (fi, st.env), name=fi.key)
        return [(st, (NEXT, None))]

    # --- try / with ---------------------------------------------------------------------------
    def ex_Try(self, st, stmt):
        outs = self.exec_block(st, stmt.body)
        res = []
        for s, (kind, val) in outs:
            if kind == RAISE:
                handled = False
                for h in stmt.handlers:
                    names = self.handler_names(s, h)
                    if names is None or any(self.exc_isinstance(val.cls, n) for n in names):
                        handled = True
                        if h.name:
                            s.env[h.name] = VFunc('excinst', (val.cls, list(val.args)), name=val.cls)
                        prev = s.ghost.get('$handling')
                        s.ghost['$handling'] = val
                        for s2, o2 in self.exec_block(s, h.body):
                            s2.ghost['$handling'] = prev
                            res.append((s2, o2))
                        break
                    # an opaque 'Exception' may be any subclass: both handled and unhandled are possible
                    if val.cls == 'Exception' and val.note.startswith('opaque') and False:
                        pass
                if not handled:
                    res.append((s, (kind, val)))
            elif kind == NEXT and stmt.orelse:
                res.extend(self.exec_block(s, stmt.orelse))
            else:
                res.append((s, (kind, val)))
        if stmt.finalbody:
            fin = []
            for s, (kind, val) in res:
                for s2, (k2, v2) in self.exec_block(s, stmt.finalbody):
                    if k2 == NEXT:
                        fin.append((s2, (kind, val)))
                    else:
                        fin.append((s2, (k2, v2)))
            res = fin
        return res

    def handler_names(self, st, h):
        if h.type is None:
            return None
        elts = h.type.elts if isinstance(h.type, ast.Tuple) else [h.type]
        names = []
        for e in elts:
            v = self.ev1_nospec(st, e)
            if isinstance(v, VFunc) and v.kind == 'exc':
                names.append(v.target)
            elif isinstance(v, VFunc) and v.kind in ('extern', 'module', 'class'):
                names.append(str(v.name).split('.')[-1])
            else:
                raise Unsupported('except clause type %r' % (v,))
        return names

    def ev1_nospec(self, st, node):
        outs = self.ev(st, node)
        if len(outs) != 1 or isinstance(outs[0][1], Raised):
            raise Unsupported('expected a simple expression: %s' % ast.dump(node)[:60])
        return outs[0][1]

    def ex_With(self, st, stmt):
        if len(stmt.items) != 1:
            # nest
            inner = ast.With(items=stmt.items[1:], body=stmt.body, lineno=stmt.lineno)
            outer = ast.With(items=stmt.items[:1], body=[inner], lineno=stmt.lineno)
            return self.ex_With(st, outer)
        item = stmt.items[0]
        res = []
        split = self.with_contextmanager(st, stmt, item)
        if split is not None:
            return split
        for s, cm in self.ev(st, item.context_expr):
            if isinstance(cm, Raised):
                res.append((s, (RAISE, cm)))
                continue
            for s2, entered in self.B.with_enter(self, s, cm, item.context_expr):
                if isinstance(entered, Raised):
                    res.append((s2, (RAISE, entered)))
                    continue
                if item.optional_vars is not None:
                    self.assign_target(s2, item.optional_vars, entered)
                for s3, (kind, val) in self.exec_block(s2, stmt.body):
                    for s4, r in self.B.with_exit(self, s3, cm, kind, val):
                        if isinstance(r, Raised):
                            res.append((s4, (RAISE, r)))
                        else:
                            res.append((s4, (kind, val)))
        return res

    def with_contextmanager(self, st, stmt, item):
        """`with f(...)` where f is a repository generator function decorated with @contextmanager: the function body is
        split at its single yield into an enter half and an exit half (exit is skipped when the with-body raises, unless
        the yield sits in a try/finally -- then the finally part runs).  Returns None if the pattern does not apply."""
        ce = item.context_expr
        if not isinstance(ce, ast.Call) or any(isinstance(a, ast.Starred) for a in ce.args) or \
                any(k.arg is None for k in ce.keywords):
            return None
        try:
            fouts = self.ev(st.fork(), ce.func)
        except Unsupported:
            return None
        if len(fouts) != 1 or not isinstance(fouts[0][1], VFunc) or fouts[0][1].kind != 'py':
            return None
        fv = fouts[0][1]
        fi = fv.target
        if 'contextmanager' not in fi.decorators or not fi.is_generator:
            return None
        if fi.key in self.reg.contracts or self.cur_policy(fi.key) == 'opaque' or \
                (self.cur_policy(fi.key) != 'inline' and (self.cur_target or {}).get('default_callee') == 'opaque'):
            return None
        body = fi.node.body
        pre = post = fin = None
        for i, stt in enumerate(body):
            if isinstance(stt, ast.Expr) and isinstance(stt.value, ast.Yield):
                pre, yv, post, fin = body[:i], stt.value.value, body[i + 1:], []
                break
            if isinstance(stt, ast.Try) and not stt.handlers and not stt.orelse:
                for j, s2 in enumerate(stt.body):
                    if isinstance(s2, ast.Expr) and isinstance(s2.value, ast.Yield):
                        pre, yv = body[:i] + stt.body[:j], s2.value.value
                        post, fin = stt.body[j + 1:] + stt.finalbody + body[i + 1:], stt.finalbody
                        break
                if pre is not None:
                    break
        if pre is None:
            return None
        self.used_inline.add(fi.key)

        def k(s, vs):
            n = len(ce.args)
            args = ([fv.selfv] if fv.selfv is not None else []) + vs[:n]
            kwargs = {kw.arg: v for kw, v in zip(ce.keywords, vs[n:])}
            env = self.bind_params(s, fi, args, kwargs)
            caller = (s.env, s.fn, s.module, s.yielded, s.depth)
            s.env, s.fn, s.module, s.depth = env, fi, fi.module, s.depth + 1
            out = []
            for s1, (k1, v1) in self.exec_block(s, pre):
                if k1 != NEXT:
                    s1.env, s1.fn, s1.module, s1.yielded, s1.depth = dict(caller[0]), caller[1], caller[2], caller[3], caller[4]
                    out.append((s1, (k1, v1)))
                    continue
                yvals = self.ev(s1, yv) if yv is not None else [(s1, NONE)]
                for s2, entered in yvals:
                    cenv = s2.env
                    s2.env, s2.fn, s2.module, s2.depth = dict(caller[0]), caller[1], caller[2], caller[4]
                    if item.optional_vars is not None:
                        self.assign_target(s2, item.optional_vars, entered)
                    for s3, (k3, v3) in self.exec_block(s2, stmt.body):
                        benv = s3.env
                        tail = post if k3 != RAISE else fin
                        s3.env, s3.fn, s3.module, s3.depth = dict(cenv), fi, fi.module, caller[4] + 1
                        for s4, (k4, v4) in self.exec_block(s3, tail):
                            s4.env, s4.fn, s4.module, s4.depth = benv, caller[1], caller[2], caller[4]
                            if k4 == NEXT or k4 == RETURN:
                                out.append((s4, (k3, v3)))
                            else:
                                out.append((s4, (k4, v4)))
            return out
        nodes = list(ce.args) + [kw.value for kw in ce.keywords]
        outs = self.ev_list(st, nodes, lambda s, vs: [(s, ('$cm', k(s, vs)))])
        res = []
        for s, v in outs:
            if isinstance(v, Raised):
                res.append((s, (RAISE, v)))
            else:
                res.extend(v[1])
        return res

    # --- loops ---------------------------------------------------------------------------------
    def loop_ordinal(self, fn, stmt):
        from .progdb import _walk_own
        loops = sorted([n for n in _walk_own(fn.node) if isinstance(n, (ast.For, ast.While))],
                       key=lambda n: (n.lineno, n.col_offset))
        for i, n in enumerate(loops):
            if n is stmt:
                return i
        # nested function bodies (closures) are separate FunctionInfo objects
        return -1

    def ex_For(self, st, stmt):
        res = []
        for s, it in self.ev(st, stmt.iter):
            if isinstance(it, Raised):
                res.append((s, (RAISE, it)))
                continue
            for s2, sq in self.B.as_seq(self, s, it, for_iter=True):
                if isinstance(sq, Raised):
                    res.append((s2, (RAISE, sq)))
                elif sq.concrete:
                    res.extend(self.for_unrolled(s2, stmt, sq.items))
                else:
                    res.extend(self.loop_with_invariant(s2, stmt, sq))
        return res

    def for_unrolled(self, st, stmt, items):
        outs = [(st, (NEXT, None))]
        done = []
        for item in items:
            new = []
            for s, (kind, val) in outs:
                ar = self.assign_target_f(s, stmt.target, item)
                for s2, r in ar:
                    if isinstance(r, Raised):
                        done.append((s2, (RAISE, r)))
                        continue
                    for s3, (k3, v3) in self.exec_block(s2, stmt.body):
                        if k3 in (NEXT, CONTINUE):
                            new.append((s3, (NEXT, None)))
                        elif k3 == BREAK:
                            done.append((s3, (NEXT, None)))      # break skips orelse
                        else:
                            done.append((s3, (k3, v3)))
            outs = new
        for s, o in outs:
            if stmt.orelse:
                done.extend(self.exec_block(s, stmt.orelse))
            else:
                done.append((s, o))
        return done

    def ex_While(self, st, stmt):
        # `while True:` / concrete conditions are handled by the invariant machinery as well
        return self.loop_with_invariant(st, stmt, None)

    def assigned_in(self, stmts):
        names, attrs = set(), set()
        yields = False
        for stmt in stmts:
            for n in ast.walk(stmt):
                if isinstance(n, ast.Name) and isinstance(n.ctx, (ast.Store, ast.Del)):
                    names.add(n.id)
                elif isinstance(n, ast.Attribute) and isinstance(n.ctx, ast.Store):
                    attrs.add(ast.unparse(n))
                elif isinstance(n, ast.Subscript) and isinstance(n.ctx, (ast.Store, ast.Del)):
                    b = n.value
                    if isinstance(b, ast.Name):
                        names.add(b.id)
                    elif isinstance(b, ast.Attribute):
                        attrs.add(ast.unparse(b))
                elif isinstance(n, ast.Call) and isinstance(n.func, ast.Attribute) and \
                        n.func.attr in ('append', 'pop', 'extend', 'insert', 'remove', 'clear', 'update', 'add',
                                        'setdefault', 'sort', 'reverse', 'popitem', 'discard'):
                    b = n.func.value
                    if isinstance(b, ast.Name):
                        names.add(b.id)
                    elif isinstance(b, ast.Attribute):
                        attrs.add(ast.unparse(b))
                elif isinstance(n, (ast.Yield, ast.YieldFrom)):
                    yields = True
        return names, attrs, yields

    def loop_with_invariant(self, st, stmt, sq):
        fn = st.fn
        ordn = self.loop_ordinal(fn, stmt)
        linv = self.reg.loop_inv(fn.key, ordn)
        where = '%s:%d' % (fn.key, stmt.lineno)
        if isinstance(stmt, ast.For) and isinstance(stmt.target, ast.Name) and self.reg.loop_inv(fn.key, 'var:' + stmt.target.id) is not None:
            # a loop contract keyed by the loop variable (`loops={'var:y': ...}`) instead of the position of the loop in the
            # function: an edit that adds or removes another loop in front of it does not detach the contract (the obligation
            # ids carry the variable name, so they stay comparable between versions of the function)
            linv = self.reg.loop_inv(fn.key, 'var:' + stmt.target.id)
            ordn = '_' + stmt.target.id
        if linv is None:
            raise Unsupported('loop %s of %s (line %d) needs an invariant in the sidecar' % (ordn, fn.key, stmt.lineno))
        tag = '%s.loop%s' % (fn.qualname, ordn)
        invs = linv.get('inv', [])
        is_for = isinstance(stmt, ast.For)
        body_stmts = list(stmt.body) + ([stmt.test] if not is_for else [])
        names, attrs, yields = self.assigned_in(stmt.body)
        if is_for:
            for n in ast.walk(stmt.target):
                if isinstance(n, ast.Name):
                    names.discard(n.id)
        res = []
        y0 = st.yielded
        # ---- init
        init = st.fork()
        init.spec = True
        init.env = dict(st.env)
        init.env['_k'] = VInt(0)
        if sq is not None:
            init.env['_seq'] = sq
        init.env['_y0'] = y0 if y0 is not None else NONE
        init.env['yielded'] = y0 if y0 is not None else NONE
        snapshot = st.fork()
        for n_, ty_ in linv.get('types', {}).items():
            cur = init.env.get(n_)
            if isinstance(cur, VSeq) and cur.concrete and not cur.items:
                proto = self.fresh(init, expand_unions(parse_type(ty_))[0], n_ + '_empty')
                if isinstance(proto, VSeq):
                    init.env[n_] = VSeq(length=z3.IntVal(0), elem=proto.elem, kind=cur.kind)
        entry_snap = st.entry if (st.entry is not None and st.depth == 0) else snapshot
        for i, inv in enumerate(invs):
            init.old = entry_snap
            self.oblige(st, self.spec_bool(init, inv), '%s.init#%d' % (tag, i), 'loop-init', where, {'clause': inv})
        # ---- havoc
        hv = st.fork()
        types = linv.get('types', {})

        def havoc(s):
            for n in sorted(names):
                if n in types:
                    alts = expand_unions(parse_type(types[n]))
                    if len(alts) != 1:
                        raise Unsupported('loop type for %s must be union-free (use opt[...])' % n)
                    s.env[n] = self.fresh(s, alts[0], n)
                elif n in s.env and s.env[n] is not None:
                    if isinstance(s.env[n], VNone):
                        # None before the loop says nothing about what the loop assigns: without a declared type the
                        # variable would stay None in the generic iteration (found by seeded change C15c)
                        raise Unsupported('loop variable %r is None before loop %s of %s and assigned inside: declare its type '
                                          'in the loop contract (types={%r: ...})' % (n, ordn, fn.key, n))
                    s.env[n] = self.fresh(s, self.shape_type(s, s.env[n]), n)
                else:
                    # first assigned inside the loop: unknown before; leave unbound unless typed
                    s.env.pop(n, None)
            for a in sorted(attrs):
                base, _, field = a.rpartition('.')
                try:
                    bv = self.ev1_nospec(s.fork(), ast.parse(base, mode='eval').body)
                except Unsupported:
                    bv = None
                if isinstance(bv, (VOpaque, VOpt)) or bv is None:
                    # a mutating method call on an opaque object: its tracked fields are forgotten
                    self.havoc_opaque_fields(s)
                    continue
                if not isinstance(bv, VObj):
                    raise Unsupported('loop modifies attribute of non-object %s' % a)
                if bv.cls.startswith('$'):
                    self.B.stub_havoc(self, s, bv, field)
                    continue
                key = a
                if key in types:
                    ty = parse_type(types[key])
                else:
                    decl = self.reg.class_decl(bv.cls, self.db)
                    if decl is None or field not in decl['fields']:
                        cur = s.heap[bv.ref].get(field)
                        if cur is None:
                            raise Unsupported('loop modifies undeclared field %s' % a)
                        ty = self.shape_type(s, cur)
                    else:
                        ty = parse_type(decl['fields'][field])
                s.heap[bv.ref][field] = self.fresh(s, expand_unions(ty)[0], a)
            for hx in linv.get('havoc', []):
                hx(self, s)
            if yields:
                ety = linv.get('yield_type')
                if ety is None:
                    raise Unsupported('loop with yield needs yield_type in %s' % tag)
                s.yielded = self.fresh(s, Ty('seq', [parse_type(ety)], name='list'), 'yielded')
        havoc(hv)
        k = z3.Int(uid('k'))
        hv.assume(k >= 0)

        def assume_inv(s, kval):
            sp = s.fork()
            sp.spec = True
            sp.env['_k'] = VInt(kval)
            sp.env['_k%s' % ordn] = VInt(kval)
            if sq is not None:
                sp.env['_seq'] = sq
            sp.env['_y0'] = y0 if y0 is not None else NONE
            sp.env['yielded'] = s.yielded if s.yielded is not None else NONE
            sp.old = entry_snap
            for inv in invs:
                s.assume(self.spec_bool(sp, inv))
                sp.pc = s.pc

        def check_inv(s, kval, kind):
            sp = s.fork()
            sp.spec = True
            sp.env['_k'] = VInt(kval)
            sp.env['_k%s' % ordn] = VInt(kval)
            if sq is not None:
                sp.env['_seq'] = sq
            sp.env['_y0'] = y0 if y0 is not None else NONE
            sp.env['yielded'] = s.yielded if s.yielded is not None else NONE
            sp.old = entry_snap
            for i, inv in enumerate(invs):
                self.oblige(s, self.spec_bool(sp, inv), '%s.%s#%d' % (tag, kind, i), 'loop-' + kind, where,
                            {'clause': inv})

        # ---- an arbitrary iteration
        it = hv.fork()
        it.env['_k%s' % ordn] = VInt(k)
        assume_inv(it, k)
        starts = []
        if is_for:
            it.assume(k < sq.length())
            for s2, r in self.assign_target_f(it, stmt.target, sq.elem(k)):
                if isinstance(r, Raised):
                    res.append((s2, (RAISE, r)))
                else:
                    starts.append(s2)
            exit_states = []
        else:
            exit_states = []
            for s2, cv in self.ev(it, stmt.test):
                if isinstance(cv, Raised):
                    res.append((s2, (RAISE, cv)))
                    continue
                for s3, b in self.branch(s2, self.truth(s2, cv)):
                    if b:
                        starts.append(s3)
        dec = linv.get('decreases')
        n_trace0 = len(it.trace)
        for s0 in starts:
            if dec is not None:
                sp = s0.fork()
                sp.spec = True
                d0 = to_int(self.ev1(sp, self.reg.parse_spec(dec)))
            if self.feasible(s0):
                s0_snap = s0.fork()
                for s3, (k3, v3) in self.exec_block(s0, stmt.body):
                    if k3 in (NEXT, CONTINUE):
                        check_inv(s3, k + 1, 'preserve')
                        for bt in linv.get('body_trace', []):
                            s3.iter_start_trace = n_trace0
                            s3.iter_start_state = s0_snap
                            cnt_ = self.__dict__.setdefault('trace_yields', {})
                            nm_ = '%s.%s' % (tag.split('.')[-1], getattr(bt, '__name__', 'clause'))
                            cnt_.setdefault(nm_, 0)
                            for oid_, goal_, text_ in bt(self, s3, k):
                                cnt_[nm_] += 1
                                self.oblige(s3, goal_, '%s.body.%s' % (tag, oid_), 'trace', where, {'clause': text_})
                        if dec is not None:
                            sp = s3.fork()
                            sp.spec = True
                            d1 = to_int(self.ev1(sp, self.reg.parse_spec(dec)))
                            self.oblige(s3, z3.And(d0 >= 0, d1 < d0), '%s.decreases' % tag, 'loop-decreases', where)
                    elif k3 == BREAK:
                        if linv.get('no_early_exit'):
                            self.oblige(s3, z3.BoolVal(False), '%s.body.no_early_break' % tag, 'trace', where,
                                        {'clause': 'the loop visits every element: no break out of the loop (%s)' % linv['no_early_exit']})
                        res.append((s3, (NEXT, None)))
                    else:
                        if k3 == RETURN and linv.get('no_early_exit'):
                            self.oblige(s3, z3.BoolVal(False), '%s.body.no_early_return' % tag, 'trace', where,
                                        {'clause': 'the loop visits every element: no return from inside the loop (%s)'
                                         % linv['no_early_exit']})
                        if k3 == RAISE:
                            for rt in linv.get('raise_trace', []):
                                s3.iter_start_trace = n_trace0
                                for oid_, goal_, text_ in rt(self, s3, k, s0_snap, v3):
                                    self.oblige(s3, goal_, '%s.body.%s' % (tag, oid_), 'trace', where, {'clause': text_})
                        res.append((s3, (k3, v3)))
        # ---- after the loop
        after = hv.fork()
        if is_for:
            n = sq.length()
            assume_inv(after, n)
            # loop variable keeps the last element (if any)
            for s2, nonempty in self.branch(after, n > 0):
                if nonempty:
                    outs = self.assign_target_f(s2, stmt.target, sq.elem(n - 1))
                    for s3, r in outs:
                        if not isinstance(r, Raised):
                            res.extend(self.exec_block(s3, stmt.orelse) if stmt.orelse else [(s3, (NEXT, None))])
                else:
                    res.extend(self.exec_block(s2, stmt.orelse) if stmt.orelse else [(s2, (NEXT, None))])
        else:
            assume_inv(after, k)
            for s2, cv in self.ev(after, stmt.test):
                if isinstance(cv, Raised):
                    continue    # already reported from the generic iteration
                for s3, b in self.branch(s2, self.truth(s2, cv)):
                    if not b:
                        res.extend(self.exec_block(s3, stmt.orelse) if stmt.orelse else [(s3, (NEXT, None))])
        return res
