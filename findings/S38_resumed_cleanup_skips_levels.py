"""C12 defect 3: resuming an interrupted directory-walk cleanup (mapproxy-seed
--continue) on a file cache with 'directory_layout: tms'. The resume check
DirectoryCleanupProgress.can_skip compares level directory names as strings; tms
level directories are not zero padded ('2', '10'), so after an interruption in
level 2 the levels 10..19 compare as "before '2'" and are skipped although they
were never cleaned: their expired tiles stay in the cache."""
import io
import os
import shutil
import sys
import tempfile

sys.path.insert(0, os.getcwd())

from PIL import Image
from mapproxy.cache.tile import Tile
from mapproxy.image import ImageSource
from mapproxy.config.loader import load_configuration
from mapproxy.seed.config import load_seed_tasks_conf
from mapproxy.seed import cleanup as cleanup_mod
from mapproxy.seed.cleanup import cleanup
from mapproxy.seed.util import ProgressLog, ProgressStore

MAPPROXY_YAML = """
services:
  wms:
layers:
  - name: l
    title: l
    sources: [c]
caches:
  c:
    grids: [GLOBAL_MERCATOR]
    sources: []
    cache:
      type: file
      directory: %(dir)s/tms
      directory_layout: tms
"""
SEED_YAML = """
cleanups:
  full_extent:
    caches: [c]
    remove_before:
      time: '2020-01-01T00:00:00'
"""
OLD = 946684800  # 2000-01-01


def tile_data():
    buf = io.BytesIO()
    Image.new('RGB', (256, 256), (255, 0, 0)).save(buf, 'PNG')
    return buf.getvalue()


def run_cleanup(tmp, continue_seed):
    """what `mapproxy-seed --cleanup ALL --progress-file F [--continue]` does"""
    conf = load_configuration(os.path.join(tmp, 'mapproxy.yaml'), seed=True)
    tasks = load_seed_tasks_conf(os.path.join(tmp, 'seed.yaml'), conf).cleanups()
    progress = ProgressStore(os.path.join(tmp, 'progress'), continue_seed=continue_seed)
    logger = ProgressLog(out=io.StringIO(), verbose=False, silent=True, progress_store=progress)
    out, old_stdout = io.StringIO(), sys.stdout
    sys.stdout = out
    try:
        cleanup(tasks, concurrency=1, dry_run=False, verbose=False, progress_logger=logger)
    finally:
        sys.stdout = old_stdout
    progress.remove()  # only reached when the run completed, as in the script


def main():
    tmp = tempfile.mkdtemp()
    real_cleanup_directory = cleanup_mod.cleanup_directory
    try:
        with open(os.path.join(tmp, 'mapproxy.yaml'), 'w') as f:
            f.write(MAPPROXY_YAML % {'dir': tmp})
        with open(os.path.join(tmp, 'seed.yaml'), 'w') as f:
            f.write(SEED_YAML)
        conf = load_configuration(os.path.join(tmp, 'mapproxy.yaml'), seed=True)
        cache = load_seed_tasks_conf(os.path.join(tmp, 'seed.yaml'), conf).cleanups()[0].tile_manager.cache

        expired = [(0, 0, 1), (1, 1, 2), (3, 4, 5), (5, 5, 10), (7, 9, 12), (1, 1, 19)]
        fresh = [(0, 1, 1), (6, 5, 10)]
        for c in expired + fresh:
            cache.store_tile(Tile(c, ImageSource(io.BytesIO(tile_data()))))
            if c in expired:
                os.utime(cache.tile_location(Tile(c)), (OLD, OLD))

        # first run: the process is interrupted (Ctrl-C / kill) while level 2 is cleaned
        level2 = os.path.normpath(cache.level_location(2))

        def interrupted(directory, *args, **kw):
            if os.path.normpath(directory) == level2:
                raise KeyboardInterrupt()
            return real_cleanup_directory(directory, *args, **kw)
        cleanup_mod.cleanup_directory = interrupted
        try:
            run_cleanup(tmp, continue_seed=False)
        except KeyboardInterrupt:
            print('first run interrupted in level directory', level2)
        finally:
            cleanup_mod.cleanup_directory = real_cleanup_directory

        # second run: mapproxy-seed --continue, runs to completion
        run_cleanup(tmp, continue_seed=True)
        print('second run (--continue) completed')

        bad = []
        for c in expired:
            if cache.is_cached(Tile(c)):
                bad.append('expired tile %s (level %d, mtime 2000-01-01 < 2020-01-01) was NOT removed'
                           % (c, c[2]))
        for c in fresh:
            if not cache.is_cached(Tile(c)):
                bad.append('fresh tile %s was removed' % (c,))
        if bad:
            for b in bad:
                print('FAIL:', b)
            return 1
        print('OK: all expired tiles of all levels were removed, fresh tiles kept')
        return 0
    finally:
        cleanup_mod.cleanup_directory = real_cleanup_directory
        shutil.rmtree(tmp, ignore_errors=True)


if __name__ == '__main__':
    sys.exit(main())
