#!/bin/sh
# offline self-test of the tool chain; builds nothing (pyvc is pure Python)
cd "$(dirname "$0")/.." || exit 1
python3-vt -c "import z3; print('z3', z3.get_version_string())" || exit 1
/usr/bin/cvc5 --version | head -1 || exit 1
/usr/bin/z3 --version || exit 1
/venv/bin/python -c "import mapproxy; print('mapproxy importable under /venv')" || exit 1
PYTHONPATH="$(pwd)" python3-vt -c "import pyvc.engine, pyvc.run, contracts; print('pyvc ok')" || exit 1
mkdir -p evidence replays
