"""C20 - conditional requests: validators, 304 soundness, no-store for uncacheable tiles."""
from pyvc.api import contract, cls, ghost, lemma
from pyvc import tracelib as T
from . import shared_grid, c16_limits  # noqa


def _uncacheable_gets_no_store(ex, st, post, result):
    """every response built from a tile that is not cacheable is sent with cache_headers(no_cache=True); validators
    are only ever computed from (timestamp, size) of the rendered tile"""
    import z3
    from pyvc.values import eq, VBool
    renders = [e for i, e in T.evs(st, 'render') if not e.raised]
    chs = T.evs(st, 'cache_headers')
    if not renders:
        yield ('tile_rendered', z3.BoolVal(not chs), 'no cache headers without a rendered tile')
        return
    tile = renders[-1].result
    cacheable = ex.truth(st, ex.opaque_field(st, tile, 'cacheable'))
    goal = z3.BoolVal(len(chs) == 1)
    for i, e in chs:
        nc = e.kwargs.get('no_cache')
        if nc is not None and isinstance(nc, VBool) and nc.conc() is True:
            # the no-store branch: must be free of validators
            goal = z3.And(goal, z3.BoolVal(len(e.args) == 0 and 'etag_data' not in e.kwargs))
            continue
        # public validators: only allowed when the tile is cacheable on this path ...
        goal = z3.And(goal, cacheable)
        # ... and built from the tile's own timestamp and size
        ts = ex.opaque_field(st, tile, 'timestamp')
        size = ex.opaque_field(st, tile, 'size')
        ok = len(e.args) >= 1 and 'etag_data' in e.kwargs
        goal = z3.And(goal, z3.BoolVal(ok))
        if ok:
            goal = z3.And(goal, eq(e.args[0], ts), eq(e.kwargs['etag_data'].items[0], ts), eq(e.kwargs['etag_data'].items[1], size))
    yield ('uncacheable_tile_no_store', goal,
           'tile.cacheable false => cache_headers(no_cache=True); otherwise validators come from (timestamp, size) of the tile')
    mc = T.evs(st, 'make_conditional')
    yield ('conditional_after_headers', z3.BoolVal(len(mc) == 1 and chs and mc[0][0] > chs[-1][0]),
           'make_conditional is evaluated after the validators are set')


SVC_FIELDS = {'cacheable': 'bool', 'timestamp': 'opt[real]', 'size': 'opt[int]'}
SVC_SPEC = {'render': {'raises': ['RequestError'], 'returns': 'opaque'}, 'Response': {'pure': True},
            'layer': {'raises': ['RequestError']}, 'authorize_tile_layer': {'raises': ['RequestError']},
            'check_request': {'raises': ['RequestError']}, 'check_request_dimensions': {'raises': ['RequestError']},
            'as_buffer': {'pure': True}, 'cache_headers': {'pure': True}, 'make_conditional': {'pure': True}}

for key, arg in (('mapproxy.service.tile:TileServer.map', 'tile_request'),
                 ('mapproxy.service.wmts:WMTSServer.tile', 'request'),
                 ('mapproxy.service.kml:KMLServer.map', 'map_request')):
    cls(key.rsplit('.', 1)[0], fields=dict(layers='opaque', md='opaque', max_tile_age='opaque', use_dimension_layers='bool',
                                           origin='opaque', matrix_sets='opaque', info_formats='opaque',
                                           request_parser='opaque', capabilities_class='opaque', fi_transformers='opaque'))
    contract(key, props=['C20'], types={arg: 'opaque'}, returns='opaque', default_callee='opaque',
             opaque_fields=SVC_FIELDS, stable_fields=['cacheable', 'timestamp', 'size'],
             opaque_spec=dict(SVC_SPEC, layer={'raises': ['RequestError'], 'returns': 'tuple[opaque,opt[opaque]]'}) if key.endswith('TileServer.map') else SVC_SPEC,
             raises={'RequestError': True}, trace=[_uncacheable_gets_no_store])
