"""C12 defect 2: file cache with 'directory_layout: quadkey' and a cleanup over the
full extent. cleanup() selects the directory-walk strategy because
FileCache.level_location is callable, but for quadkey it raises NotImplementedError
(the layout has no level directory). The cleanup aborts, no expired tile is removed
(and later tasks never run) instead of falling back to the tile walk."""
import io
import os
import shutil
import sys
import tempfile
import traceback

sys.path.insert(0, os.getcwd())

from PIL import Image
from mapproxy.cache.tile import Tile
from mapproxy.image import ImageSource
from mapproxy.config.loader import load_configuration
from mapproxy.seed.config import load_seed_tasks_conf
from mapproxy.seed.cleanup import cleanup

MAPPROXY_YAML = """
services:
  wms:
layers:
  - name: l
    title: l
    sources: [c]
caches:
  c:
    grids: [GLOBAL_MERCATOR]
    sources: []
    cache:
      type: file
      directory: %(dir)s/qk
      directory_layout: quadkey
"""
SEED_YAML = """
cleanups:
  full_extent:
    caches: [c]
    levels: [2]
    remove_before:
      time: '2020-01-01T00:00:00'
"""
OLD = 946684800  # 2000-01-01


def tile_data():
    buf = io.BytesIO()
    Image.new('RGB', (256, 256), (255, 0, 0)).save(buf, 'PNG')
    return buf.getvalue()


def main():
    tmp = tempfile.mkdtemp()
    try:
        with open(os.path.join(tmp, 'mapproxy.yaml'), 'w') as f:
            f.write(MAPPROXY_YAML % {'dir': tmp})
        with open(os.path.join(tmp, 'seed.yaml'), 'w') as f:
            f.write(SEED_YAML)
        conf = load_configuration(os.path.join(tmp, 'mapproxy.yaml'), seed=True)
        tasks = load_seed_tasks_conf(os.path.join(tmp, 'seed.yaml'), conf).cleanups()
        cache = tasks[0].tile_manager.cache

        old_l2 = [(0, 0, 2), (3, 3, 2)]      # expired, selected level -> must go
        new_l2 = [(1, 2, 2)]                 # fresh, selected level   -> must stay
        old_l3 = [(0, 0, 3)]                 # expired, other level    -> must stay
        for c in old_l2 + new_l2 + old_l3:
            t = Tile(c, ImageSource(io.BytesIO(tile_data())))
            cache.store_tile(t)
            if c not in new_l2:
                os.utime(cache.tile_location(Tile(c)), (OLD, OLD))

        error = None
        out, old_stdout = io.StringIO(), sys.stdout
        sys.stdout = out
        try:
            cleanup(tasks, concurrency=1, dry_run=False, verbose=False)
        except BaseException as ex:
            error = ex
            tb = traceback.format_exc()
        finally:
            sys.stdout = old_stdout

        bad = []
        if error is not None:
            print(tb)
            bad.append('cleanup() aborted with %r' % (error,))
        for c in old_l2:
            if cache.is_cached(Tile(c)):
                bad.append('expired level-2 tile %s (mtime 2000-01-01 < 2020-01-01) was NOT removed' % (c,))
        for c in new_l2 + old_l3:
            if not cache.is_cached(Tile(c)):
                bad.append('tile %s must be kept but was removed' % (c,))
        print('files now:', sorted(os.listdir(os.path.join(tmp, 'qk'))))
        if bad:
            for b in bad:
                print('FAIL:', b)
            return 1
        print('OK: exactly the expired level-2 tiles were removed')
        return 0
    finally:
        shutil.rmtree(tmp, ignore_errors=True)


if __name__ == '__main__':
    sys.exit(main())
