"""C06 - a crash while storing never leaves a corrupt or foreign tile visible: ordering of the file-system operations."""
from pyvc.api import contract, cls, ghost, lemma
from pyvc import tracelib as T
from . import shared_grid, c05_compact  # noqa


def _atomic_protocol(ex, st, post, result):
    """temp file created exclusively next to the target, payload written to the temp handle, handle closed, THEN renamed
    over the target; the target itself is never opened, written or unlinked"""
    import z3
    from pyvc.values import eq
    fname = post.env['filename']
    data = post.env['data']
    opens = T.evs(st, 'open')
    fdopens = T.evs(st, 'fdopen')
    writes = T.evs(st, 'write')
    renames = T.evs(st, 'rename')
    exits = T.evs(st, '__exit__')
    unlinks = T.evs(st, 'unlink', 'remove')
    ok = len(opens) == 1 and len(fdopens) == 1 and len(writes) == 1 and len(renames) == 1 and len(exits) >= 1
    goal = z3.BoolVal(ok)
    if ok:
        tmp = opens[0][1].args[0]
        flags = opens[0][1].args[1]
        fl = flags.conc() if hasattr(flags, 'conc') else None
        goal = z3.And(goal, z3.BoolVal(fl is not None and fl & 128 != 0 and fl & 64 != 0))      # O_EXCL | O_CREAT
        goal = z3.And(goal, z3.Not(eq(tmp, fname)), z3.PrefixOf(fname.t, tmp.t))                # a sibling name, not the target
        goal = z3.And(goal, z3.BoolVal(fdopens[0][1].args[0] is opens[0][1].result))             # the handle of the temp file
        w = writes[0][1]
        goal = z3.And(goal, z3.BoolVal(w.args[0] is data))                                       # the complete payload
        r_i, r = renames[0]
        goal = z3.And(goal, eq(r.args[0], tmp), eq(r.args[1], fname))
        # ordering: write < close (exit of the with block) < rename
        goal = z3.And(goal, z3.BoolVal(writes[0][0] < exits[0][0] < r_i))
    yield ('write_temp_close_then_rename', goal,
           'os.open(tmp, O_EXCL|O_CREAT) -> write(data) on that handle -> handle closed -> os.rename(tmp, filename); the rename '
           'comes after the close so the published file is complete')
    yield ('target_never_touched_directly', z3.And([z3.Not(eq(u.args[0], fname)) for i, u in unlinks] or [z3.BoolVal(True)]),
           'the target name is never unlinked by the writer')


def _atomic_failure(ex, st, post, exc):
    """on failure the temp file is removed and the target is left alone"""
    import z3
    from pyvc.values import eq
    fname = post.env['filename']
    renames = [e for i, e in T.evs(st, 'rename') if not e.raised]
    unl = T.evs(st, 'unlink')
    opens = T.evs(st, 'open')
    g = z3.BoolVal(not renames)
    for i, u in unl:
        g = z3.And(g, z3.Not(eq(u.args[0], fname)))
    yield ('failure_leaves_target', g, 'if anything fails before the rename completed, the target is neither replaced nor removed')


contract('mapproxy.util.fs:write_atomic', props=['C06'],
         types=dict(filename='str', data='blob'), returns='none', default_callee='opaque',
         opaque_spec={'randint': {'returns': 'int', 'pure': True}, 'open': {'raises': ['OSError']}, 'fdopen': {'raises': ['OSError']},
                      'write': {'raises': ['OSError']}, 'rename': {'raises': ['OSError']}, 'unlink': {'raises': ['OSError']}},
         raises={'OSError': True}, raises_ensures={'OSError': [_atomic_failure]},
         trace=[_atomic_protocol])


# ---- file cache stores ------------------------------------------------------------------------------------------------------
F = 'mapproxy.cache.file:'


def _store_protocol(ex, st, post, result):
    import z3
    from pyvc.values import eq
    loc = post.env['location']
    wa = T.evs(st, 'write_atomic')
    unl = T.evs(st, 'unlink', 'remove')
    isl = T.evs(st, 'islink')
    goal = z3.BoolVal(len(wa) == 1 and len(isl) == 1)
    if wa:
        goal = z3.And(goal, eq(wa[0][1].args[0], loc))
    for i, u in unl:
        # the only thing ever unlinked is a symlink AT the location (a stale single-colour link), before the write
        goal = z3.And(goal, eq(u.args[0], loc), ex.truth(st, isl[0][1].result) if isl else z3.BoolVal(False),
                      z3.BoolVal(bool(wa) and i < wa[0][0]))
    yield ('store_writes_location_atomically', goal,
           'the tile bytes reach `location` only through write_atomic(location, ...); nothing but a symlink at that very '
           'location is unlinked')


contract(F + 'FileCache._store', props=['C06', 'C05'],
         types=dict(tile='opaque', location='str'), returns='none', default_callee='opaque',
         opaque_spec={'islink': {'returns': 'bool', 'pure': True}, 'tile_buffer': {'pure': True}, 'read': {'pure': True},
                      'write_atomic': {'raises': ['OSError']}, 'unlink': {'raises': ['OSError']}, 'chmod': {}},
         opaque=['write_atomic'],
         raises={'OSError': True, 'ValueError': True}, trace=[_store_protocol])


def _link_replaces_existing(ex, st, post, result):
    """C05: a linked single-colour store replaces whatever is at the tile location (regular file, hard link or symlink)"""
    import z3
    from pyvc.values import eq
    loc = post.env['tile_loc']
    links = T.evs(st, 'link', 'symlink')
    ex_ = [e for i, e in T.evs(st, 'exists') if eq(e.args[0], loc) is not None and e.args[0] is loc]
    il_ = [e for i, e in T.evs(st, 'islink') if e.args[0] is loc]
    unl = [(i, e) for i, e in T.evs(st, 'unlink', 'remove') if e.args[0] is loc]
    goal = z3.BoolVal(len(links) == 1)
    for i, l in links:
        occupied = z3.Or([ex.truth(st, e.result) for e in ex_ + il_] or [z3.BoolVal(False)])
        removed_first = bool([j for j, u in unl if j < i])
        goal = z3.And(goal, z3.Or(z3.Not(occupied), z3.BoolVal(removed_first)),
                      # both tests are made (exists() is False for a dangling link); islink may be skipped only when
                      # exists() already said yes
                      z3.BoolVal(len(ex_) >= 1), z3.Or(z3.BoolVal(len(il_) >= 1), *[ex.truth(st, e.result) for e in ex_]),
                      eq(l.args[1], loc))
    yield ('existing_entry_removed_before_linking', goal,
           'if anything exists at the tile location (exists() or islink()) it is unlinked before the new link is created, so '
           'the address returns the latest store')


contract(F + 'FileCache._store_single_color_tile', props=['C05', 'C06'],
         types=dict(tile='opaque', tile_loc='str', color='opaque'), returns='none', default_callee='opaque',
         opaque_spec={'exists': {'returns': 'bool', 'pure': True}, 'islink': {'returns': 'bool', 'pure': True},
                      '_single_color_tile_location': {'returns': 'str', 'pure': True}, '_store': {'raises': ['OSError']},
                      'link': {'raises': ['OSError']}, 'symlink': {'raises': ['OSError']}, 'unlink': {'raises': ['OSError']},
                      'relpath': {'returns': 'str', 'pure': True}, 'dirname': {'returns': 'str', 'pure': True}},
         opaque=['_store', '_single_color_tile_location', 'dirname'],
         raises={'OSError': True}, trace=[_link_replaces_existing])


# ---- legend cache and seed progress file: the file is only ever replaced through write_atomic ------------------------------
def _only_write_atomic(target_of):
    def clause(ex, st, post, result):
        import z3
        from pyvc.values import eq
        wa = T.evs(st, 'write_atomic')
        direct = T.evs(st, 'open', 'write', 'unlink', 'remove', 'rename')
        goal = z3.BoolVal(len(wa) <= 1 and not direct)
        for i, e in wa:
            goal = z3.And(goal, eq(e.args[0], target_of(ex, st, post, e)))
        yield ('replaced_only_through_write_atomic', goal,
               'the file is written only by one write_atomic(<its own location>, <complete payload>) call: a reader sees the old '
               'or the new complete file (write_atomic contract), never a partial one; nothing is opened, unlinked or renamed directly')
    return clause


cls('mapproxy.cache.legend:LegendCache', fields=dict(cache_dir='str', file_ext='str', directory_permissions='opaque',
                                                     file_permissions='opaque'))
contract('mapproxy.cache.legend:LegendCache.store', props=['C06'],
         types=dict(legend='opaque'), returns='none', default_callee='opaque',
         opaque_fields={'location': 'opt[str]', 'stored': 'opaque'},
         opaque_spec={'legend_hash': {'returns': 'str', 'pure': True}, 'ensure_directory': {'pure': True}, 'as_buffer': {'pure': True},
                      'ImageOptions': {'pure': True}, 'seek': {'pure': True}, 'read': {'pure': True}, 'exists': {'returns': 'bool', 'pure': True},
                      'write_atomic': {'raises': ['OSError'], 'pure': True}, 'chmod': {'pure': True}},
         opaque=['write_atomic', 'legend_hash', 'ensure_directory'],
         raises={'OSError': True, 'ValueError': True},
         trace=[_only_write_atomic(lambda ex, st, post, e: ex.opaque_field_at(st, e, post.env['legend'], 'location').val)])

cls('mapproxy.seed.util:ProgressStore', fields=dict(filename='str', status='opaque'))
contract('mapproxy.seed.util:ProgressStore.write', props=['C06'],
         types={}, returns='none', default_callee='opaque',
         opaque_spec={'dumps': {'pure': True}, 'write_atomic': {'raises': ['OSError', 'IOError'], 'pure': True}},
         opaque=['write_atomic'],
         trace=[_only_write_atomic(lambda ex, st, post, e: st.heap[post.env['self'].ref]['filename'])])
