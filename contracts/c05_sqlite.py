"""C05 - sqlite backends (MBTiles, GeoPackage): which database / which row serves which address in the bulk operations.
(The SQL text itself and sqlite's execution of it are outside; the orchestration around it is under contract.)"""
from pyvc.api import contract, cls, ghost, lemma
from pyvc import tracelib as T
from . import shared_grid  # noqa

TF = {'coord': 'opt[tuple[int,int,int]]', 'source': 'opt[opaque]'}


def _level_bulk_load(ex, st, post, result):
    """the level-dispatching bulk load may answer without asking a level database ONLY if no tile needs loading"""
    import z3
    tiles = post.env['tiles']
    deleg = [e for i, e in T.evs(st, 'load_tiles')]
    lvl = [e for i, e in T.evs(st, '_get_level')]
    if deleg or lvl:
        # delegated: to the database of the level of a tile that needs loading, with the whole list
        ok = len(deleg) == 1 and len(lvl) == 1 and deleg[0].args and deleg[0].args[0] is tiles
        yield ('bulk_load_delegates_whole_list', z3.BoolVal(bool(ok)),
               'the whole list goes to ONE level database (the level of the first tile that needs loading)')
        return
    sp = st.fork()
    sp.spec = True
    sp.env = {'tiles': tiles}
    goal = ex.spec_bool(sp, 'forall(lambda j: implies(0 <= j < len(tiles), bool(tiles[j].source) or tiles[j].coord is None))')
    yield ('no_database_asked_only_if_nothing_to_load',
           goal,
           'returning without asking a level database means every tile already has its source (or no address) - '
           'for every level, level 0 included')


for _k, _c in (('mapproxy.cache.mbtiles:', 'MBTilesLevelCache'), ('mapproxy.cache.geopackage:', 'GeopackageLevelCache')):
    cls(_k + _c, fields={})
    contract(_k + _c + '.load_tiles', props=['C05'],
             types=dict(tiles='list[opaque]', with_metadata='bool', dimensions='opaque'), returns='opaque',
             default_callee='opaque', opaque_fields=TF, stable_fields=list(TF),
             opaque_spec={'_get_level': {'pure': True}, 'load_tiles': {'pure': True}},
             opaque=['_get_level'],
             loops={0: dict(types={'level': 'opt[int]'},
                            inv=['level is None',
                                 'forall(lambda j: implies(0 <= j < _k, bool(tiles[j].source) or tiles[j].coord is None))'])},
             trace=[_level_bulk_load])


# ---- single-file databases: result rows are matched to the requested tiles by the FULL address --------------------------------
def _key_is_full_address(ex, st, k):
    import z3
    from pyvc.values import VSeq, eq
    evs_ = st.trace[getattr(st, 'iter_start_trace', 0):]
    sets = [e for e in evs_ if e.name == 'setitem']
    goal = z3.BoolVal(True)
    for e in sets:
        key, val = e.args[1], e.args[2]
        ok = isinstance(key, VSeq) and key.concrete and len(key.items) == 3 and val is st.env['tile']
        goal = z3.And(goal, z3.BoolVal(bool(ok)))
        if ok:
            coord = ex.opaque_field(st, st.env['tile'], 'coord')
            goal = z3.And(goal, eq(key, coord.val if hasattr(coord, 'val') else coord))
    yield ('tiles_indexed_by_full_address', goal,
           'the lookup table that matches result rows to tile objects is keyed by (column, row, level): two requested '
           'addresses never share an entry')


def _row_item(row, n, epochs):
    """row[n] of an unknown row object, at any epoch seen so far"""
    import z3
    from pyvc.values import ObjSort
    return [z3.Function('opaque_item_%s_%d' % (abs(hash(('i', n))), ep), ObjSort, ObjSort)(row.t) for ep in range(0, epochs + 1)]


def _row_lookup(ex, st, k):
    import z3
    from pyvc.values import VSeq, VOpaque
    evs_ = st.trace[getattr(st, 'iter_start_trace', 0):]
    row = st.env['row']
    gets = [e for e in evs_ if e.name == 'getitem' and isinstance(e.args[1], VSeq)]
    ok = len(gets) == 1 and gets[0].args[1].concrete and len(gets[0].args[1].items) == 3
    goal = z3.BoolVal(bool(ok))
    if ok:
        # the key is (row[0], row[1], row[2]) = (tile_column, tile_row, zoom_level) in the order of the SELECT list
        for n, it in enumerate(gets[0].args[1].items):
            goal = z3.And(goal, z3.Or([it.t == r for r in _row_item(row, n, st.epoch)]) if isinstance(it, VOpaque) else z3.BoolVal(False))
        # the bytes attached to THAT tile are row[3]
        srcs = [e for e in evs_ if e.name == 'setattr:source']
        blobs = [e for e in evs_ if e.name == 'BytesIO']
        ok2 = len(srcs) == 1 and srcs[0].args[0] is gets[0].result and len(blobs) == 1 and isinstance(blobs[0].args[0], VOpaque)
        goal = z3.And(goal, z3.BoolVal(bool(ok2)))
        if ok2:
            goal = z3.And(goal, z3.Or([blobs[0].args[0].t == r for r in _row_item(row, 3, st.epoch)]))
    yield ('row_matched_by_column_row_level', goal,
           'each result row is handed to the tile object found under the key (row[0], row[1], row[2]) - column, row, level as '
           'selected - and that tile gets the bytes row[3]')


for _k, _c in (('mapproxy.cache.mbtiles:', 'MBTilesCache'), ('mapproxy.cache.geopackage:', 'GeopackageCache')):
    cls(_k + _c, fields=dict(supports_timestamp='bool', ttl='int', table_name='opaque', db='opaque'))
    contract(_k + _c + '.load_tiles', props=['C05'],
             types=dict(tiles='list[opaque]', with_metadata='bool', dimensions='opaque'), returns='opaque',
             default_callee='opaque', opaque_fields=TF, stable_fields=['coord'],
             opaque_spec={'cursor': {'pure': True}, 'execute': {'pure': True}, 'close': {'pure': True}, 'ImageSource': {'pure': True},
                          'BytesIO': {'pure': True}, 'join': {'pure': True}, 'format': {'pure': True},
                          'sqlite_datetime_to_timestamp': {'pure': True}, 'append': {'pure': True}},
             loops={0: dict(inv=[], types={'tile_dict': 'opaque', 'coords': 'opaque'}, body_trace=[_key_is_full_address]),
                    1: dict(inv=[], types={'coords': 'opaque', 'loaded_tiles': 'int'}),
                    2: dict(inv=[], types={'loaded_tiles': 'int'}, body_trace=[_row_lookup])})
