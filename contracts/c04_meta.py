"""C04 - a tile is the same image however produced: MetaGrid geometry, crop pattern, split bookkeeping."""
from pyvc.api import contract, loop, ghost, lemma, cls
from pyvc import tracelib as T
from . import shared_grid, c03_grid  # noqa
G = 'mapproxy.grid:'

cls(G + 'MetaTile', fields=dict(bbox='tuple[real,real,real,real]', size='tuple[int,int]',
                                tile_patterns='list[tuple[opt[tuple[int,int,int]],tuple[int,int]]]',
                                grid_size='tuple[int,int]'))

ghost('meta_wf', ['m'], """grid_wf(m.grid) and m.meta_size[0] >= 1 and m.meta_size[1] >= 1 and m.meta_buffer >= 0""")
ghost('msize', ['m', 'z', 'a'], "min(m.meta_size[a], m.grid.grid_sizes[z][a])")

contract(G + 'MetaGrid._meta_size', props=['C04', 'C08'],
         types=dict(level='int'), returns='tuple[int,int]',
         requires=['meta_wf(self)', 'valid_level(self.grid, level)'],
         ensures=['result[0] == msize(self, level, 0) and result[1] == msize(self, level, 1)',
                  # never larger than the level's grid, never empty
                  '1 <= result[0] <= self.grid.grid_sizes[level][0] and 1 <= result[1] <= self.grid.grid_sizes[level][1]'],
         must_fail='result[0] == self.meta_size[0]')

contract(G + 'MetaGrid.main_tile', props=['C04', 'C08'],
         types=dict(tile_coord='tuple[int,int,int]'), returns='tuple[int,int,int]',
         requires=['meta_wf(self)', 'valid_level(self.grid, tile_coord[2])'],
         ensures=['result[2] == tile_coord[2]',
                  'result[0] % msize(self, tile_coord[2], 0) == 0 and result[1] % msize(self, tile_coord[2], 1) == 0',
                  'result[0] <= tile_coord[0] < result[0] + msize(self, tile_coord[2], 0)',
                  'result[1] <= tile_coord[1] < result[1] + msize(self, tile_coord[2], 1)',
                  'result[0] == tile_coord[0] // msize(self, tile_coord[2], 0) * msize(self, tile_coord[2], 0)',
                  'result[1] == tile_coord[1] // msize(self, tile_coord[2], 1) * msize(self, tile_coord[2], 1)'],
         must_fail='result[0] == tile_coord[0]')

lemma('main_tile_idempotent', ['C04', 'C08'],
      doc='x0 = x // m * m  =>  x0 // m * m == x0, and every x1 in [x0, x0+m) has the same main tile (m >= 1)',
      fn=lambda z3: (lambda x, m, q, x1, q1: (
          [m >= 1, x == q * m + (x - q * m), 0 <= x - q * m, x - q * m < m,          # q = x // m
           q * m <= x1, x1 < q * m + m, x1 == q1 * m + (x1 - q1 * m), 0 <= x1 - q1 * m, x1 - q1 * m < m],
          q1 == q))(z3.Int('x'), z3.Int('m'), z3.Int('q'), z3.Int('x1'), z3.Int('q1')))

# element m of a meta tile's tile list: column m % w, row m // w from the top, None outside the grid
ghost('mt_elem', ['mg', 'x0', 'y0', 'w', 'h', 'z', 'm'], """
    None if (x0 + m % w < 0 or mt_y(mg, y0, h, m // w) < 0 or x0 + m % w >= mg.grid.grid_sizes[z][0]
             or mt_y(mg, y0, h, m // w) >= mg.grid.grid_sizes[z][1])
    else (x0 + m % w, mt_y(mg, y0, h, m // w), z)""")
ghost('mt_y', ['mg', 'y0', 'h', 'r'], "(y0 + r) if mg.grid.flipped_y_axis else (y0 + h - 1 - r)")

def _list_bounded_by_the_grid(ex, st, post, result):
    """the cells of the meta tile are filtered against the size of the GRID at that level (cells beyond it are None), not
    against any other rectangle"""
    import z3
    from pyvc.values import eq
    from pyvc import tracelib as T
    evs = [e for i, e in T.evs(st, '_create_tile_list')]
    ok = len(evs) == 1 and len(evs[0].args) == 4 and not evs[0].kwargs
    goal = z3.BoolVal(bool(ok))
    if ok:
        sp = st.fork()
        sp.spec = True
        sp.env = {'self': post.env['self'], 'main_tile': post.env['main_tile']}
        goal = z3.And(goal, eq(evs[0].args[3], ex.ev1(sp, ex.reg.parse_spec('self.grid.grid_sizes[main_tile[2]]'))),
                      eq(evs[0].args[2], ex.ev1(sp, ex.reg.parse_spec('main_tile[2]'))))
    yield ('cells_filtered_against_the_grid_size_of_the_level', goal,
           '_create_tile_list is called once, with the level of the main tile and self.grid.grid_sizes[level] as the bound')


contract(G + 'MetaGrid._meta_tile_list', props=['C04', 'C08', 'C16'],
         types=dict(main_tile='tuple[int,int,int]', tile_grid='tuple[int,int]'),
         returns='list[opt[tuple[int,int,int]]]',
         requires=['meta_wf(self)', 'valid_level(self.grid, main_tile[2])', 'tile_grid[0] >= 1 and tile_grid[1] >= 1'],
         ensures=[
             'len(result) == tile_grid[0] * tile_grid[1]',
             """forall(lambda m: implies(0 <= m < len(result), result[m] == mt_elem(self,
                    main_tile[0] // msize(self, main_tile[2], 0) * msize(self, main_tile[2], 0),
                    main_tile[1] // msize(self, main_tile[2], 1) * msize(self, main_tile[2], 1),
                    tile_grid[0], tile_grid[1], main_tile[2], m)))""",
             # never an address outside the grid
             """forall(lambda m: implies(0 <= m < len(result) and result[m] is not None,
                    0 <= result[m][0] < self.grid.grid_sizes[main_tile[2]][0]
                    and 0 <= result[m][1] < self.grid.grid_sizes[main_tile[2]][1] and result[m][2] == main_tile[2]))"""],
         trace=[_list_bounded_by_the_grid],
         must_fail='len(result) == 1')

contract(G + 'MetaGrid.tile_list', props=['C04', 'C08'],
         types=dict(main_tile='tuple[int,int,int]'), returns='list[opt[tuple[int,int,int]]]',
         requires=['meta_wf(self)', 'valid_level(self.grid, main_tile[2])'],
         ensures=[
             'len(result) == msize(self, main_tile[2], 0) * msize(self, main_tile[2], 1)',
             """forall(lambda m: implies(0 <= m < len(result), result[m] == mt_elem(self,
                    main_tile[0] // msize(self, main_tile[2], 0) * msize(self, main_tile[2], 0),
                    main_tile[1] // msize(self, main_tile[2], 1) * msize(self, main_tile[2], 1),
                    msize(self, main_tile[2], 0), msize(self, main_tile[2], 1), main_tile[2], m)))"""],
         must_fail='len(result) == 1')

# ---- crop pattern -------------------------------------------------------------------------------------------
ghost('main_x', ['mg', 't'], "t[0] // msize(mg, t[2], 0) * msize(mg, t[2], 0)")
ghost('main_y', ['mg', 't'], "t[1] // msize(mg, t[2], 1) * msize(mg, t[2], 1)")

contract(G + 'MetaGrid._tiles_pattern', props=['C04'],
         types=dict(grid_size='tuple[int,int]', buffers='tuple[int,int,int,int]', tile='opt[tuple[int,int,int]]',
                    tiles='opt[list[opt[tuple[int,int,int]]]]'),
         returns='list[tuple[opt[tuple[int,int,int]],tuple[int,int]]]',
         requires=['meta_wf(self)', 'grid_size[0] >= 1 and grid_size[1] >= 1',
                   'implies(tile is not None, valid_level(self.grid, tile[2]))',
                   'implies(tile is None, tiles is not None and len(tiles) == grid_size[0] * grid_size[1])'],
         ensures=[
             'len(result) == grid_size[0] * grid_size[1]',
             # pixel offset of entry m inside the meta image: column * tile width + left buffer, row * tile HEIGHT + top buffer
             """forall(lambda m: implies(0 <= m < len(result),
                    result[m][1][0] == (m % grid_size[0]) * self.grid.tile_size[0] + buffers[0]
                    and result[m][1][1] == (m // grid_size[0]) * self.grid.tile_size[1] + buffers[3]))""",
             """implies(tile is not None, forall(lambda m: implies(0 <= m < len(result), result[m][0] ==
                    mt_elem(self, main_x(self, tile), main_y(self, tile), grid_size[0], grid_size[1], tile[2], m))))""",
             'implies(tile is None, forall(lambda m: implies(0 <= m < len(result), result[m][0] == tiles[m])))',
         ],
         loops={
             0: dict(yield_type='tuple[opt[tuple[int,int,int]],tuple[int,int]]', inv=[
                 'len(yielded) == _k * grid_size[0]',
                 'len(tiles) == grid_size[0] * grid_size[1]',
                 """forall(lambda m: implies(0 <= m < len(yielded), yielded[m][0] == tiles[m]
                        and yielded[m][1][0] == (m % grid_size[0]) * self.grid.tile_size[0] + buffers[0]
                        and yielded[m][1][1] == (m // grid_size[0]) * self.grid.tile_size[1] + buffers[3]))"""]),
             1: dict(yield_type='tuple[opt[tuple[int,int,int]],tuple[int,int]]', inv=[
                 'len(yielded) == _k0 * grid_size[0] + _k',
                 'len(tiles) == grid_size[0] * grid_size[1]',
                 'implies(_k < grid_size[0], (_k0 * grid_size[0] + _k) % grid_size[0] == _k and (_k0 * grid_size[0] + _k) // grid_size[0] == _k0)',
                 """forall(lambda m: implies(0 <= m < len(yielded), yielded[m][0] == tiles[m]
                        and yielded[m][1][0] == (m % grid_size[0]) * self.grid.tile_size[0] + buffers[0]
                        and yielded[m][1][1] == (m // grid_size[0]) * self.grid.tile_size[1] + buffers[3]))"""]),
         },
         must_fail='len(result) == 1')

# ---- meta tile bbox, buffer truncation, size --------------------------------------------------------------------
contract(G + 'MetaGrid.unbuffered_meta_bbox', props=['C04'],
         types=dict(tile_coord='tuple[int,int,int]'), returns='tuple[real,real,real,real]',
         requires=['meta_wf(self)', 'valid_level(self.grid, tile_coord[2])'],
         ensures=[
             'abs(result[0] - tb_x0(self.grid, tile_coord[0], tile_coord[2])) <= 2e-12',
             'abs(result[2] - tb_x1(self.grid, tile_coord[0] + msize(self, tile_coord[2], 0) - 1, tile_coord[2])) <= 2e-12',
             """abs(result[1] - min(tb_y0(self.grid, tile_coord[1], tile_coord[2]),
                                    tb_y0(self.grid, tile_coord[1] + msize(self, tile_coord[2], 1) - 1, tile_coord[2]))) <= 2e-12""",
             """abs(result[3] - max(tb_y1(self.grid, tile_coord[1], tile_coord[2]),
                                    tb_y1(self.grid, tile_coord[1] + msize(self, tile_coord[2], 1) - 1, tile_coord[2]))) <= 2e-12""",
         ],
         must_fail='result[0] == result[2]')

# pixels of buffer kept on one side: the configured buffer, minus what the grid border cut off (in whole pixels,
# int(round(delta / res, 5)) -> within one pixel of the ground distance actually kept)
ghost('buf_ok', ['mb', 'res', 'kept_ground', 'buf', 'truncated'], """
    (buf == mb if not truncated else True)
    and buf * res - kept_ground <= res * 1.00001 and kept_ground - buf * res <= res * 0.00001 + 0""")

contract(G + 'MetaGrid._buffered_bbox', props=['C04'],
         types=dict(bbox='tuple[real,real,real,real]', level='int', limit_to_grid_bbox='bool'),
         returns='tuple[tuple[real,real,real,real],tuple[int,int,int,int]]',
         requires=['meta_wf(self)', 'valid_level(self.grid, level)'],
         ensures=[
             'implies(self.meta_buffer == 0, result[0] == bbox and result[1] == (0, 0, 0, 0))',
             # no truncation requested or needed: the full buffer on that side, exactly
             """implies(self.meta_buffer > 0 and (not limit_to_grid_bbox or self.grid.bbox[0] <= bbox[0] - self.meta_buffer * self.grid.resolutions[level]),
                        result[0][0] == bbox[0] - self.meta_buffer * self.grid.resolutions[level] and result[1][0] == self.meta_buffer)""",
             """implies(self.meta_buffer > 0 and (not limit_to_grid_bbox or self.grid.bbox[1] <= bbox[1] - self.meta_buffer * self.grid.resolutions[level]),
                        result[0][1] == bbox[1] - self.meta_buffer * self.grid.resolutions[level] and result[1][1] == self.meta_buffer)""",
             """implies(self.meta_buffer > 0 and (not limit_to_grid_bbox or self.grid.bbox[2] >= bbox[2] + self.meta_buffer * self.grid.resolutions[level]),
                        result[0][2] == bbox[2] + self.meta_buffer * self.grid.resolutions[level] and result[1][2] == self.meta_buffer)""",
             """implies(self.meta_buffer > 0 and (not limit_to_grid_bbox or self.grid.bbox[3] >= bbox[3] + self.meta_buffer * self.grid.resolutions[level]),
                        result[0][3] == bbox[3] + self.meta_buffer * self.grid.resolutions[level] and result[1][3] == self.meta_buffer)""",
             # truncated at the grid border: the bbox side is the grid side, the pixel buffer is within one pixel
             # of the ground buffer that is left
             """implies(self.meta_buffer > 0 and limit_to_grid_bbox and self.grid.bbox[0] > bbox[0] - self.meta_buffer * self.grid.resolutions[level],
                        result[0][0] == self.grid.bbox[0]
                        and result[1][0] * self.grid.resolutions[level] - (bbox[0] - self.grid.bbox[0]) <= self.grid.resolutions[level] * 1.00001
                        and (bbox[0] - self.grid.bbox[0]) - result[1][0] * self.grid.resolutions[level] <= self.grid.resolutions[level] * 0.00001)""",
             """implies(self.meta_buffer > 0 and limit_to_grid_bbox and self.grid.bbox[1] > bbox[1] - self.meta_buffer * self.grid.resolutions[level],
                        result[0][1] == self.grid.bbox[1]
                        and result[1][1] * self.grid.resolutions[level] - (bbox[1] - self.grid.bbox[1]) <= self.grid.resolutions[level] * 1.00001
                        and (bbox[1] - self.grid.bbox[1]) - result[1][1] * self.grid.resolutions[level] <= self.grid.resolutions[level] * 0.00001)""",
             """implies(self.meta_buffer > 0 and limit_to_grid_bbox and self.grid.bbox[2] < bbox[2] + self.meta_buffer * self.grid.resolutions[level],
                        result[0][2] == self.grid.bbox[2]
                        and result[1][2] * self.grid.resolutions[level] - (self.grid.bbox[2] - bbox[2]) <= self.grid.resolutions[level] * 1.00001
                        and (self.grid.bbox[2] - bbox[2]) - result[1][2] * self.grid.resolutions[level] <= self.grid.resolutions[level] * 0.00001)""",
             """implies(self.meta_buffer > 0 and limit_to_grid_bbox and self.grid.bbox[3] < bbox[3] + self.meta_buffer * self.grid.resolutions[level],
                        result[0][3] == self.grid.bbox[3]
                        and result[1][3] * self.grid.resolutions[level] - (self.grid.bbox[3] - bbox[3]) <= self.grid.resolutions[level] * 1.00001
                        and (self.grid.bbox[3] - bbox[3]) - result[1][3] * self.grid.resolutions[level] <= self.grid.resolutions[level] * 0.00001)""",
         ],
         must_fail='result[1][0] == self.meta_buffer')

contract(G + 'MetaGrid._size_from_buffered_bbox', props=['C04'],
         types=dict(bbox='tuple[real,real,real,real]', level='int'), returns='tuple[int,int]',
         requires=['meta_wf(self)', 'valid_level(self.grid, level)'],
         ensures=['abs(result[0] - (bbox[2] - bbox[0]) / self.grid.resolutions[level]) <= 0.5',
                  'abs(result[1] - (bbox[3] - bbox[1]) / self.grid.resolutions[level]) <= 0.5'],
         must_fail='result[0] == 0')

# bbox of the meta tile whose main tile is `tile_coord` (the branch meta_tile() uses), sides as exact oracles:
#   side not cut off by the grid border: unbuffered edge -/+ buffer, pixel buffer = configured buffer
#   side cut off: the grid edge, and the pixel buffer is within one pixel of the ground distance that is left
ghost('ub_x0', ['mg', 't'], "tb_x0(mg.grid, t[0], t[2])")
ghost('ub_x1', ['mg', 't'], "tb_x1(mg.grid, t[0] + msize(mg, t[2], 0) - 1, t[2])")
ghost('ub_y0', ['mg', 't'], "min(tb_y0(mg.grid, t[1], t[2]), tb_y0(mg.grid, t[1] + msize(mg, t[2], 1) - 1, t[2]))")
ghost('ub_y1', ['mg', 't'], "max(tb_y1(mg.grid, t[1], t[2]), tb_y1(mg.grid, t[1] + msize(mg, t[2], 1) - 1, t[2]))")
ghost('mbuf', ['mg', 't'], "mg.meta_buffer * mg.grid.resolutions[t[2]]")

contract(G + 'MetaGrid._meta_bbox', props=['C04'],
         types=dict(tile_coord='tuple[int,int,int]', tiles='none', limit_to_bbox='bool'),
         returns='tuple[tuple[real,real,real,real],tuple[int,int,int,int]]',
         requires=['meta_wf(self)', 'valid_level(self.grid, tile_coord[2])', 'limit_to_bbox'],
         ensures=[
             # left
             """implies(self.meta_buffer == 0 or self.grid.bbox[0] <= ub_x0(self, tile_coord) - mbuf(self, tile_coord) - 4e-12,
                        abs(result[0][0] - (ub_x0(self, tile_coord) - mbuf(self, tile_coord))) <= 2e-12 and result[1][0] == self.meta_buffer)""",
             """implies(self.meta_buffer > 0 and self.grid.bbox[0] > ub_x0(self, tile_coord) - mbuf(self, tile_coord) + 4e-12,
                        result[0][0] == self.grid.bbox[0])""",
             """result[1][0] * self.grid.resolutions[tile_coord[2]] - (ub_x0(self, tile_coord) - result[0][0]) <= self.grid.resolutions[tile_coord[2]] * 1.00001 + 4e-12
                and (ub_x0(self, tile_coord) - result[0][0]) - result[1][0] * self.grid.resolutions[tile_coord[2]] <= self.grid.resolutions[tile_coord[2]] * 0.00001 + 4e-12""",
             # top
             """implies(self.meta_buffer == 0 or self.grid.bbox[3] >= ub_y1(self, tile_coord) + mbuf(self, tile_coord) + 4e-12,
                        abs(result[0][3] - (ub_y1(self, tile_coord) + mbuf(self, tile_coord))) <= 2e-12 and result[1][3] == self.meta_buffer)""",
             """implies(self.meta_buffer > 0 and self.grid.bbox[3] < ub_y1(self, tile_coord) + mbuf(self, tile_coord) - 4e-12,
                        result[0][3] == self.grid.bbox[3])""",
             """result[1][3] * self.grid.resolutions[tile_coord[2]] - (result[0][3] - ub_y1(self, tile_coord)) <= self.grid.resolutions[tile_coord[2]] * 1.00001 + 4e-12
                and (result[0][3] - ub_y1(self, tile_coord)) - result[1][3] * self.grid.resolutions[tile_coord[2]] <= self.grid.resolutions[tile_coord[2]] * 0.00001 + 4e-12""",
             # right / bottom
             """implies(self.meta_buffer == 0 or self.grid.bbox[2] >= ub_x1(self, tile_coord) + mbuf(self, tile_coord) + 4e-12,
                        abs(result[0][2] - (ub_x1(self, tile_coord) + mbuf(self, tile_coord))) <= 2e-12 and result[1][2] == self.meta_buffer)""",
             """implies(self.meta_buffer == 0 or self.grid.bbox[1] <= ub_y0(self, tile_coord) - mbuf(self, tile_coord) - 4e-12,
                        abs(result[0][1] - (ub_y0(self, tile_coord) - mbuf(self, tile_coord))) <= 2e-12 and result[1][1] == self.meta_buffer)""",
             'implies(self.meta_buffer > 0 and self.grid.bbox[2] < ub_x1(self, tile_coord) + mbuf(self, tile_coord) - 4e-12, result[0][2] == self.grid.bbox[2])',
             'implies(self.meta_buffer > 0 and self.grid.bbox[1] > ub_y0(self, tile_coord) - mbuf(self, tile_coord) + 4e-12, result[0][1] == self.grid.bbox[1])',
         ],
         must_fail='result[1][0] == self.meta_buffer')

# the property's core obligation: every crop offset of the pattern is the tile's own position inside the meta
# image -- exactly (1e-11 = accumulated round(.,12) noise) when the buffer on that side is not cut off by the
# grid border, within one pixel when it is.
ghost('mt_row', ['mg', 'm', 'z'], "m // msize(mg, z, 0)")
ghost('mt_col', ['mg', 'm', 'z'], "m % msize(mg, z, 0)")

contract(G + 'MetaGrid.meta_tile', props=['C04', 'C08'],
         types=dict(tile_coord='tuple[int,int,int]'), returns='obj:mapproxy.grid:MetaTile',
         requires=['meta_wf(self)', 'valid_level(self.grid, tile_coord[2])'],
         inline=['MetaTile.__init__'], split=['self.grid.flipped_y_axis'],
         ensures=[
             'result.grid_size == (msize(self, tile_coord[2], 0), msize(self, tile_coord[2], 1))',
             'len(result.tile_patterns) == msize(self, tile_coord[2], 0) * msize(self, tile_coord[2], 1)',
             # which tiles: the block starting at the main tile, row by row from the top, None outside the grid
             """forall(lambda m: implies(0 <= m < len(result.tile_patterns), result.tile_patterns[m][0] ==
                    mt_elem(self, main_x(self, tile_coord), main_y(self, tile_coord), msize(self, tile_coord[2], 0),
                            msize(self, tile_coord[2], 1), tile_coord[2], m)))""",
             # placement, split as "Guidance: split hard obligations into lemmas":
             #  (P1) the crop offsets are a regular lattice: offset(m) = (col * tile width + B0, row * tile height + B3)
             #       where (B0, B3) is the offset of entry 0 (the kept left / top buffer in pixels)
             """forall(lambda m: implies(0 <= m < len(result.tile_patterns),
                    result.tile_patterns[m][1][0] == mt_col(self, m, tile_coord[2]) * self.grid.tile_size[0] + result.tile_patterns[0][1][0]
                    and result.tile_patterns[m][1][1] == mt_row(self, m, tile_coord[2]) * self.grid.tile_size[1] + result.tile_patterns[0][1][1]))""",
             #  (P2) entry 0 (top-left tile of the block) sits at its own ground position inside the meta image:
             #       within one pixel in general, exactly (1e-11 = round(.,12) noise) when that buffer is not cut off
             """abs((result.bbox[0] + result.tile_patterns[0][1][0] * self.grid.resolutions[tile_coord[2]])
                    - tb_x0(self.grid, main_x(self, tile_coord), tile_coord[2])) <= self.grid.resolutions[tile_coord[2]] * 1.00002 + 1e-11""",
             """implies(self.meta_buffer == 0 or self.grid.bbox[0] <= tb_x0(self.grid, main_x(self, tile_coord), tile_coord[2])
                         - self.meta_buffer * self.grid.resolutions[tile_coord[2]] - 1e-11,
                    abs((result.bbox[0] + result.tile_patterns[0][1][0] * self.grid.resolutions[tile_coord[2]])
                        - tb_x0(self.grid, main_x(self, tile_coord), tile_coord[2])) <= 1e-11)""",
             """abs((result.bbox[3] - result.tile_patterns[0][1][1] * self.grid.resolutions[tile_coord[2]])
                    - tb_y1(self.grid, mt_y(self, main_y(self, tile_coord), msize(self, tile_coord[2], 1), 0), tile_coord[2]))
                <= self.grid.resolutions[tile_coord[2]] * 1.00002 + 1e-11""",
             """implies(self.meta_buffer == 0 or self.grid.bbox[3] >= tb_y1(self.grid, mt_y(self, main_y(self, tile_coord), msize(self, tile_coord[2], 1), 0), tile_coord[2])
                         + self.meta_buffer * self.grid.resolutions[tile_coord[2]] + 1e-11,
                    abs((result.bbox[3] - result.tile_patterns[0][1][1] * self.grid.resolutions[tile_coord[2]])
                        - tb_y1(self.grid, mt_y(self, main_y(self, tile_coord), msize(self, tile_coord[2], 1), 0), tile_coord[2])) <= 1e-11)""",
             #  (P1) + (P2) + lemma `pattern_placement_x/y`  =>  EVERY entry m sits at its tile's ground position
             # image size is the bbox extent in pixels
             'abs(result.size[0] - (result.bbox[2] - result.bbox[0]) / self.grid.resolutions[tile_coord[2]]) <= 0.5',
             'abs(result.size[1] - (result.bbox[3] - result.bbox[1]) / self.grid.resolutions[tile_coord[2]]) <= 0.5',
         ],
         must_fail='len(result.tile_patterns) == 1')


# (P1) + (P2) => placement of every entry: pure arithmetic, proved once
lemma('pattern_placement_x', ['C04'],
      doc='|bb0 + B0*res - (b0 + X*res*tw)| <= tol  and  cx == c*tw + B0  =>  |bb0 + cx*res - (b0 + (X+c)*res*tw)| <= tol',
      fn=lambda z3: (lambda bb0, b0, res, tol, B0, X, c, tw, cx: (
          [res > 0, tw >= 1, cx == c * tw + B0,
           bb0 + z3.ToReal(B0) * res - (b0 + z3.ToReal(X) * res * z3.ToReal(tw)) <= tol,
           (b0 + z3.ToReal(X) * res * z3.ToReal(tw)) - (bb0 + z3.ToReal(B0) * res) <= tol],
          z3.And(bb0 + z3.ToReal(cx) * res - (b0 + z3.ToReal(X + c) * res * z3.ToReal(tw)) <= tol,
                 (b0 + z3.ToReal(X + c) * res * z3.ToReal(tw)) - (bb0 + z3.ToReal(cx) * res) <= tol)))(
          z3.Real('bb0'), z3.Real('b0'), z3.Real('res'), z3.Real('tol'), z3.Int('B0'), z3.Int('X'), z3.Int('c'),
          z3.Int('tw'), z3.Int('cx')))
lemma('pattern_placement_y', ['C04'],
      doc='top edges: |bb3 - B3*res - top| <= tol and cy == r*th + B3  =>  |bb3 - cy*res - (top - r*th*res)| <= tol '
          '(top - r*th*res is the top edge of row r in both numbering conventions)',
      fn=lambda z3: (lambda bb3, top, res, tol, B3, r, th, cy: (
          [res > 0, th >= 1, cy == r * th + B3,
           bb3 - z3.ToReal(B3) * res - top <= tol, top - (bb3 - z3.ToReal(B3) * res) <= tol],
          z3.And(bb3 - z3.ToReal(cy) * res - (top - z3.ToReal(r) * z3.ToReal(th) * res) <= tol,
                 (top - z3.ToReal(r) * z3.ToReal(th) * res) - (bb3 - z3.ToReal(cy) * res) <= tol)))(
          z3.Real('bb3'), z3.Real('top'), z3.Real('res'), z3.Real('tol'), z3.Int('B3'), z3.Int('r'), z3.Int('th'),
          z3.Int('cy')))
lemma('row_top_edge', ['C04'],
      doc='tb_y1 of row r of a block whose top row is y_top: ul numbering y_top + r, ll numbering y_top - r; both are '
          'top(y_top) - r*th*res',
      fn=lambda z3: (lambda b1, b3, res, th, yt, r: (
          [res > 0, th >= 1],
          z3.And((b3 - z3.ToReal(yt + r) * res * z3.ToReal(th)) == (b3 - z3.ToReal(yt) * res * z3.ToReal(th)) - z3.ToReal(r) * z3.ToReal(th) * res,
                 (b1 + z3.ToReal(yt - r + 1) * res * z3.ToReal(th)) == (b1 + z3.ToReal(yt + 1) * res * z3.ToReal(th)) - z3.ToReal(r) * z3.ToReal(th) * res)))(
          z3.Real('b1'), z3.Real('b3'), z3.Real('res'), z3.Int('th'), z3.Int('yt'), z3.Int('r')))


# ---- request-minimising meta tile: the rectangle spanned by the requested tiles ----------------------------------------------------
def _gen_full_tile_list(gen, rng):
    from contracts.builders import _gen_meta_grid
    z = rng.randint(0, 3)
    n = rng.randint(1, 5)
    return {'self': _gen_meta_grid(gen, rng),
            'tiles': [{'$tuple': [rng.randint(0, 6), rng.randint(0, 6), z]} for _ in range(n)]}


contract(G + 'MetaGrid._full_tile_list', props=['C04', 'C08'], fuzz_gen=_gen_full_tile_list,
         types=dict(tiles='list[tuple[int,int,int]]'),
         returns='tuple[list[opt[tuple[int,int,int]]],tuple[int,int],tuple[tuple[int,int,int],tuple[int,int,int]]]',
         requires=['len(tiles) >= 1',
                   'forall(lambda j: implies(0 <= j < len(tiles), tiles[j][0] >= 0 and tiles[j][1] >= 0 and tiles[j][2] == tiles[0][2]))'],
         ensures=[
             # bounds: the smallest column/row rectangle that contains every requested tile, on their common level
             """forall(lambda j: implies(0 <= j < len(old(tiles)), result[2][0][0] <= old(tiles)[j][0] <= result[2][1][0]
                       and result[2][0][1] <= old(tiles)[j][1] <= result[2][1][1]))""",
             """exists(lambda j: 0 <= j < len(old(tiles)) and old(tiles)[j][0] == result[2][0][0])
                and exists(lambda j: 0 <= j < len(old(tiles)) and old(tiles)[j][0] == result[2][1][0])
                and exists(lambda j: 0 <= j < len(old(tiles)) and old(tiles)[j][1] == result[2][0][1])
                and exists(lambda j: 0 <= j < len(old(tiles)) and old(tiles)[j][1] == result[2][1][1])""",
             'result[2][0][2] == old(tiles)[0][2] and result[2][1][2] == old(tiles)[0][2]',
             # the size of that rectangle in tiles, and one list entry per cell (row by row, see _create_tile_list)
             'result[1][0] == 1 + result[2][1][0] - result[2][0][0] and result[1][1] == 1 + result[2][1][1] - result[2][0][1]',
             'len(result[0]) == result[1][0] * result[1][1]',
             # every cell of the rectangle is in the list exactly where the row-major order puts it: column offset m % w, rows
             # from the top (north) downwards
             """forall(lambda m: implies(0 <= m < len(result[0]), result[0][m] is not None
                       and result[0][m][0] == result[2][0][0] + m % result[1][0]
                       and result[0][m][1] == (result[2][0][1] + m // result[1][0] if self.grid.flipped_y_axis
                                                else result[2][1][1] - m // result[1][0])
                       and result[0][m][2] == old(tiles)[0][2]))"""],
         loops={0: dict(types={'minx': 'int', 'maxx': 'int', 'miny': 'int', 'maxy': 'int', 'x': 'int', 'y': 'int'},
                        inv=['minx <= maxx and miny <= maxy and minx >= 0 and miny >= 0',
                             'minx <= old(tiles)[len(old(tiles)) - 1][0] <= maxx and miny <= old(tiles)[len(old(tiles)) - 1][1] <= maxy',
                             'forall(lambda j: implies(0 <= j < _k, minx <= _seq[j][0] <= maxx and miny <= _seq[j][1] <= maxy))',
                             """(minx == old(tiles)[len(old(tiles)) - 1][0] or exists(lambda j: 0 <= j < _k and _seq[j][0] == minx))
                                and (maxx == old(tiles)[len(old(tiles)) - 1][0] or exists(lambda j: 0 <= j < _k and _seq[j][0] == maxx))
                                and (miny == old(tiles)[len(old(tiles)) - 1][1] or exists(lambda j: 0 <= j < _k and _seq[j][1] == miny))
                                and (maxy == old(tiles)[len(old(tiles)) - 1][1] or exists(lambda j: 0 <= j < _k and _seq[j][1] == maxy))"""])},
         must_fail='result[1][0] == 1')


def _minimal_chain(ex, st, post, result):
    """the request-minimising meta tile is assembled from ONE rectangle: the bounds of the requested tiles"""
    import z3
    from pyvc.values import VSeq, eq
    ftl = [e for i, e in T.evs(st, '_full_tile_list', 'MetaGrid._full_tile_list')]
    mb = [e for i, e in T.evs(st, '_meta_bbox', 'MetaGrid._meta_bbox')]
    sz = [e for i, e in T.evs(st, '_size_from_buffered_bbox', 'MetaGrid._size_from_buffered_bbox')]
    tp = [e for i, e in T.evs(st, '_tiles_pattern', 'MetaGrid._tiles_pattern')]
    mt = [e for i, e in T.evs(st, 'MetaTile')]
    ok = len(ftl) == 1 and len(mb) == 1 and len(sz) == 1 and len(tp) == 1 and len(mt) == 1 and isinstance(ftl[0].result, VSeq) \
        and isinstance(mb[0].result, VSeq)
    goal = z3.BoolVal(bool(ok))
    if ok:
        tiles, grid_size, bounds = ftl[0].result.items
        bbox, buffers = mb[0].result.items
        kw = mt[0].kwargs
        ok2 = mb[0].kwargs.get('tiles') is bounds and not [a for a in mb[0].args if a is not post.env['self']] \
            and any(a is bbox for a in sz[0].args) \
            and tp[0].kwargs.get('grid_size') is grid_size and tp[0].kwargs.get('buffers') is buffers \
            and kw.get('bbox') is bbox and kw.get('size') is sz[0].result and kw.get('tile_patterns') is tp[0].result \
            and kw.get('grid_size') is grid_size and result is mt[0].result
        goal = z3.And(goal, z3.BoolVal(bool(ok2)))
        if ok2:
            # the level used for the pixel size is the level of the tiles
            lvl = [a for a in sz[0].args if a is not post.env['self'] and a is not bbox]
            tl = tp[0].kwargs.get('tiles')
            goal = z3.And(goal, z3.BoolVal(len(lvl) == 1 and isinstance(tl, VSeq)))
            if len(lvl) == 1 and isinstance(tl, VSeq):
                goal = z3.And(goal, tl.length() == tiles.length(), eq(lvl[0], bounds.items[0].items[2]))
    yield ('minimal_meta_tile_is_one_rectangle', goal,
           '(tiles, grid_size, bounds) = _full_tile_list(requested); bbox, buffers = _meta_bbox(tiles=bounds); size from that bbox on '
           'the level of the tiles; pattern from those tiles, that grid_size and those buffers; MetaTile carries exactly these')


contract(G + 'MetaGrid.minimal_meta_tile', props=['C04', 'C08'],
         types=dict(tiles='list[tuple[int,int,int]]'), returns='opaque', default_callee='opaque',
         opaque_spec={'_meta_bbox': {'returns': 'tuple[tuple[real,real,real,real],tuple[int,int,int,int]]', 'pure': True},
                      '_size_from_buffered_bbox': {'returns': 'tuple[int,int]', 'pure': True}, '_tiles_pattern': {'pure': True},
                      'MetaTile': {'pure': True}},
         opaque=['_meta_bbox', '_size_from_buffered_bbox', '_tiles_pattern', 'MetaTile'],
         requires=['len(tiles) >= 1',
                   'forall(lambda j: implies(0 <= j < len(tiles), tiles[j][0] >= 0 and tiles[j][1] >= 0 and tiles[j][2] == tiles[0][2]))'],
         raises={'TypeError': True},
         trace=[_minimal_chain])
