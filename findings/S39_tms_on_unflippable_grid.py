import os, sys, shutil, tempfile, threading, io
sys.path.insert(0, os.getcwd())
import xml.etree.ElementTree as ET
from http.server import BaseHTTPRequestHandler, HTTPServer
from urllib.parse import urlparse, parse_qs
import yaml
from PIL import Image


class Upstream(object):
    """Local WMS stand-in that records the BBOX every GetMap asks for.
    With meta_size 1x1 / meta_buffer 0 that BBOX is the ground rectangle of the served tile."""
    def __init__(self):
        self.requests = []
        outer = self

        class H(BaseHTTPRequestHandler):
            def do_GET(self):
                q = dict((k.lower(), v[0]) for k, v in parse_qs(urlparse(self.path).query).items())
                outer.requests.append(q)
                w = int(q.get('width', 256))
                h = int(q.get('height', 256))
                b = io.BytesIO()
                Image.new('RGB', (w, h), (255, 0, 0)).save(b, 'PNG')
                self.send_response(200)
                self.send_header('Content-type', 'image/png')
                self.send_header('Content-length', str(len(b.getvalue())))
                self.end_headers()
                self.wfile.write(b.getvalue())

            def log_message(self, *a):
                pass
        self.srv = HTTPServer(('127.0.0.1', 0), H)
        self.port = self.srv.server_address[1]
        self.t = threading.Thread(target=self.srv.serve_forever)
        self.t.daemon = True
        self.t.start()

    def stop(self):
        self.srv.shutdown()
        self.srv.server_close()

    def last_bbox(self):
        return tuple(float(x) for x in self.requests[-1]['bbox'].split(','))


def make_app(tmpdir, grid, upstream, services, source_extra=None):
    from mapproxy.wsgiapp import make_wsgi_app
    import webtest
    src = {'type': 'wms', 'supported_srs': [grid['srs']],
           'req': {'url': 'http://127.0.0.1:%d/wms' % upstream.port, 'layers': 'a'}}
    src.update(source_extra or {})
    conf = {
        'services': services,
        'layers': [{'name': 'lyr', 'title': 'lyr', 'sources': ['c']}],
        'caches': {'c': {'grids': ['g'], 'sources': ['s'], 'meta_size': [1, 1], 'meta_buffer': 0,
                         'disable_storage': True}},
        'sources': {'s': src},
        'grids': {'g': grid},
        'globals': {'cache': {'base_dir': os.path.join(tmpdir, 'cache')}},
    }
    p = os.path.join(tmpdir, 'mapproxy.yaml')
    with open(p, 'w') as f:
        yaml.safe_dump(conf, f)
    return webtest.TestApp(make_wsgi_app(p))


def close(a, b, tol):
    return all(abs(x - y) <= tol for x, y in zip(a, b))


def main():
    tmpdir = tempfile.mkdtemp()
    up = Upstream()
    failures = []
    try:
        # origin 'ul' (tiles anchored at the TOP edge); the bbox height (600 km) is not a
        # multiple of the tile span (256 km / 128 km / 64 km), so the bottom tile row hangs
        # below the bbox by a different amount on every level
        grid = {'srs': 'EPSG:25832', 'bbox': [300000, 5200000, 700000, 5800000],
                'origin': 'ul', 'res': [1000, 500, 250]}
        app = make_app(tmpdir, grid, up, {'tms': {}})

        resp = app.get('/tms/1.0.0/lyr/EPSG25832', expect_errors=True)
        if resp.status_int != 200:
            print('ok: the layer is not offered via TMS (%s)' % resp.status)
            return 0
        caps = ET.fromstring(resp.body)
        origin = caps.find('Origin')
        ox, oy = float(origin.get('x')), float(origin.get('y'))
        tw = int(caps.find('TileFormat').get('width'))
        th = int(caps.find('TileFormat').get('height'))
        print('TMS TileMap advertises Origin x=%s y=%s' % (ox, oy))
        for ts in caps.find('TileSets').findall('TileSet'):
            z = int(ts.get('order'))
            res = float(ts.get('units-per-pixel'))
            href = ts.get('href').replace('http://localhost', '')
            for (x, y) in [(0, 0), (1, 1)]:
                expected = (ox + x * tw * res, oy + y * th * res,
                            ox + (x + 1) * tw * res, oy + (y + 1) * th * res)
                n = len(up.requests)
                r = app.get('%s/%d/%d.png' % (href, x, y), expect_errors=True)
                if r.status_int != 200 or len(up.requests) != n + 1:
                    # TMS does not advertise matrix dimensions: a refused tile cannot be misplaced
                    print('level %d: tile %d/%d refused (%s) - skipped' % (z, x, y, r.status))
                    continue
                served = up.last_bbox()
                ok = close(served, expected, res / 100.0)
                print('level %d tile (%d,%d): client computes %r, served ground rectangle %r -> %s'
                      % (z, x, y, expected, served, 'ok' if ok else 'MISMATCH (dy=%s)' % (served[1] - expected[1])))
                if not ok:
                    failures.append('level %d tile (%d,%d)' % (z, x, y))
    finally:
        up.stop()
        shutil.rmtree(tmpdir, ignore_errors=True)
    if failures:
        print('PROPERTY C02 VIOLATED: TMS (south-west addressing) on an origin=ul grid flips rows with '
              'grid_sizes[z] although the tile rows are anchored at the top edge; %d mismatches' % len(failures))
        return 1
    print('ok: TMS tiles cover the rectangle computed from the TileMap document')
    return 0


if __name__ == '__main__':
    sys.exit(main())
