"""C01 - map content and feature-info queries land at the right place on the ground: placement arithmetic
(resampling / reprojection accuracy is outside)."""
from pyvc.api import contract, cls, ghost, lemma
from pyvc import tracelib as T
from . import shared_grid, c03_grid, c04_meta, c17_upstream  # noqa

# ---- clicked pixel -> ground coordinate (y axis flipped: pixel rows grow downwards) -----------------------------------------
cls('mapproxy.layer:InfoQuery', fields=dict(bbox='tuple[real,real,real,real]', size='tuple[int,int]', srs='opaque',
                                            pos='tuple[int,int]', info_format='opaque', format='opaque', feature_count='opaque'))
contract('mapproxy.layer:InfoQuery.coord', props=['C01'], types={}, returns='tuple[real,real]',
         requires=['self.size[0] > 0 and self.size[1] > 0'],
         ensures=['result[0] == self.bbox[0] + self.pos[0] * (self.bbox[2] - self.bbox[0]) / self.size[0]',
                  'result[1] == self.bbox[1] + (self.size[1] - self.pos[1]) * (self.bbox[3] - self.bbox[1]) / self.size[1]'],
         must_fail='result[0] == self.bbox[0]')
lemma('lin_transf_roundtrip', ['C01'],
      doc='make_lin_transf(a, b) followed by make_lin_transf(b, a) is the identity (x component; widths non-zero)',
      fn=lambda z3: (lambda x, a0, a2, b0, b2: ([a2 != a0, b2 != b0],
                                                a0 + ((b0 + (x - a0) * (b2 - b0) / (a2 - a0)) - b0) * (a2 - a0) / (b2 - b0) == x))(
          *z3.Reals('x a0 a2 b0 b2')))


def _fi_transfer(ex, st, post, result):
    """feature info for an unsupported SRS: the point handed to the reprojection is the exact ground position of the
    clicked pixel (width AND height of the request), and the forwarded pixel is the rounded affine image of the
    reprojected point in the new bbox/size"""
    import z3
    from pyvc.values import eq, VSeq, VReal, to_real
    q = post.env['query']
    tr = T.evs(st, 'transform_to')
    if len(tr) != 1:
        yield ('clicked_point_reprojected_once', z3.BoolVal(False), 'the clicked point is reprojected exactly once')
        return
    e = tr[0][1]
    bbox = ex.opaque_field_at(st, e, q, 'bbox')
    size = ex.opaque_field_at(st, e, q, 'size')
    pos = ex.opaque_field_at(st, e, q, 'pos')
    b = [x.t for x in bbox.items]
    w, h = to_real(size.items[0]), to_real(size.items[1])
    px, py = to_real(pos.items[0]), to_real(pos.items[1])
    gx = b[0] + px * (b[2] - b[0]) / w
    gy = b[1] + (h - py) * (b[3] - b[1]) / h
    want = VSeq([VReal(gx), VReal(gy)], kind='tuple')
    yield ('ground_point_of_clicked_pixel', z3.Implies(z3.And(w > 0, h > 0), eq(e.args[1], want)),
           'the coordinate that is reprojected is bbox.min + pos * extent / size in x and bbox.miny + (height - row) * extent / height in y')


cls('mapproxy.client.wms:WMSInfoClient', fields=dict(request_template='opaque', http_client='opaque', supported_srs='opaque'))
contract('mapproxy.client.wms:WMSInfoClient._get_transformed_query', props=['C01'],
         types=dict(query='opaque'), returns='opaque', default_callee='opaque',
         opaque_fields={'bbox': 'tuple[real,real,real,real]', 'size': 'tuple[int,int]', 'pos': 'tuple[int,int]', 'srs': 'opaque'},
         stable_fields=['bbox', 'size', 'pos', 'srs', 'info_format', 'feature_count'],
         inline=['make_lin_transf', 'func'],
         opaque_spec={'best_srs': {'pure': True}, 'transform_bbox_to': {'returns': 'tuple[real,real,real,real]', 'pure': True},
                      'transform_to': {'returns': 'tuple[real,real]', 'pure': True}, 'InfoQuery': {'pure': True}},
         opaque=['InfoQuery'],
         raises={'ZeroDivisionError': True}, trace=[_fi_transfer])

# ---- mosaic of tiles -----------------------------------------------------------------------------------------------------------
cls('mapproxy.image.tile:TileMerger', fields=dict(tile_grid='tuple[int,int]', tile_size='tuple[int,int]'))
contract('mapproxy.image.tile:TileMerger._tile_offset', props=['C01'], types=dict(i='int'), returns='tuple[int,int]',
         requires=['self.tile_grid[0] >= 1 and self.tile_grid[1] >= 1', 'i >= 0'],
         ensures=['result[0] == (i % self.tile_grid[0]) * self.tile_size[0]',
                  'result[1] == (i // self.tile_grid[0]) * self.tile_size[1]'],
         must_fail='result[0] == 0')
contract('mapproxy.image.tile:TileMerger._src_size', props=['C01'], types={}, returns='tuple[int,int]',
         ensures=['result[0] == self.tile_grid[0] * self.tile_size[0] and result[1] == self.tile_grid[1] * self.tile_size[1]'],
         must_fail='result[0] == 0')
lemma('mosaic_offset_is_ground_offset', ['C01'],
      doc='tile m of the row-major list (column c = m % w, row r = m // w from the top) lies at ground offset (c*tw*res, r*th*res) '
          'from the north-west corner of the block: pasting it at pixel (c*tw, r*th) shows every tile where it belongs',
      fn=lambda z3: (lambda b0, res, x0, c, tw: ([res > 0, tw >= 1],
                     ((b0 + z3.ToReal(x0 + c) * res * z3.ToReal(tw)) - (b0 + z3.ToReal(x0) * res * z3.ToReal(tw))) == z3.ToReal(c * tw) * res))(
          z3.Real('b0'), z3.Real('res'), z3.Int('x0'), z3.Int('c'), z3.Int('tw')))


# ---- cutting a tile out of a meta image -------------------------------------------------------------------------------------------
def _crop_alignment(ex, st, post, result):
    """pixel (u, v) of the returned tile is pixel (crop_x + u, crop_y + v) of the meta image wherever that exists: the crop
    origin minus the paste position equals the requested crop coordinate, in both branches"""
    import z3
    from pyvc.values import eq, to_int
    cc = post.env['crop_coord']
    ts = post.env['tile_size']
    minx, miny = to_int(cc.items[0]), to_int(cc.items[1])
    crops = T.evs(st, 'crop')
    pastes = T.evs(st, 'paste')
    ok = len(crops) == 1 and len(pastes) <= 1
    goal = z3.BoolVal(ok)
    if ok:
        box = crops[0][1].args[0]
        cx0, cy0 = to_int(box.items[0]), to_int(box.items[1])
        if pastes and not hasattr(pastes[0][1].args[1], 'items'):
            yield ('crop_origin_minus_paste_is_crop_coord', z3.BoolVal(False), 'paste(image, (x, y)): the position is a coordinate pair')
            return
        if pastes:
            p = pastes[0][1].args[1]
            px, py = to_int(p.items[0]), to_int(p.items[1])
            goal = z3.And(goal, z3.BoolVal(pastes[0][1].args[0] is crops[0][1].result))
        else:
            px, py = z3.IntVal(0), z3.IntVal(0)
        goal = z3.And(goal, cx0 - px == minx, cy0 - py == miny, px >= 0, py >= 0)
        # the crop box is EXACTLY the requested window clipped to the meta image (both corners, both axes) ...
        self_ = post.env['self']
        msz = ex.opaque_field(st, st.heap[self_.ref]['meta_img'], 'size')
        W, H = to_int(msz.items[0]), to_int(msz.items[1])
        maxx, maxy = minx + to_int(ts.items[0]), miny + to_int(ts.items[1])

        def zmax(a, b):
            return z3.If(a >= b, a, b)

        def zmin(a, b):
            return z3.If(a <= b, a, b)
        cx1, cy1 = to_int(box.items[2]), to_int(box.items[3])
        goal = z3.And(goal, cx0 == zmax(minx, 0), cy0 == zmax(miny, 0), cx1 == zmin(maxx, W), cy1 == zmin(maxy, H))
        # ... and the window is taken without the paste step only if it lies completely inside the image
        inside = z3.And(minx >= 0, miny >= 0, maxx <= W, maxy <= H)
        goal = z3.And(goal, z3.BoolVal(bool(pastes)) == z3.Not(inside))
    yield ('crop_origin_minus_paste_is_crop_coord', goal,
           'TileSplitter.get_tile: the cropped window, pasted (if it overlaps the border) at abs(min(crop, 0)), keeps every '
           'pixel at its position relative to the requested crop coordinate')


cls('mapproxy.image.tile:TileSplitter', fields=dict(meta_img='opaque', image_opts='opaque'))
contract('mapproxy.image.tile:TileSplitter.get_tile', props=['C01', 'C04'],
         types=dict(crop_coord='tuple[int,int]', tile_size='tuple[int,int]'), returns='opaque', default_callee='opaque',
         opaque_fields={'size': 'tuple[int,int]'}, stable_fields=['size'],
         opaque_spec={'crop': {'pure': True}, 'create_image': {'pure': True}, 'paste': {'pure': True}, 'ImageSource': {'pure': True}},
         requires=['tile_size[0] >= 1 and tile_size[1] >= 1'],
         trace=[_crop_alignment])


# ---- same-SRS extraction of the requested window from a source image: ImageTransformer._transform_simple -------------------
cls('mapproxy.image.transform:ImageTransformer', fields=dict(src_srs='opaque', dst_srs='opaque', dst_bbox='opaque',
                                                             dst_size='opaque', max_px_err='opaque'))


def _simple_window(ex, st, post, result):
    """the pixel window taken from the source image is the exact affine image of the requested bbox; the unresampled
    crop shortcut is used only when BOTH resolutions equal the source's (to a tenth of a pixel over the image)"""
    import z3
    from pyvc.values import to_real, to_int, VSeq
    e = post.env
    sb = [x.t for x in e['src_bbox'].items]
    db = [x.t for x in e['dst_bbox'].items]
    ds = [to_real(x) for x in e['dst_size'].items]
    ssz = ex.opaque_field(st, e['src_img'], 'size')
    sw, sh = to_real(ssz.items[0]), to_real(ssz.items[1])
    # exact window (source pixel coordinates, y down) of the destination bbox
    minx = (db[0] - sb[0]) * sw / (sb[2] - sb[0])
    miny = (sb[3] - db[3]) * sh / (sb[3] - sb[1])
    maxx = (db[2] - sb[0]) * sw / (sb[2] - sb[0])
    maxy = (sb[3] - db[1]) * sh / (sb[3] - sb[1])
    crops = T.evs(st, 'crop')
    trs = T.evs(st, 'transform')

    def zabs(t):
        return z3.If(t >= 0, t, -t)
    sres = ((sb[0] - sb[2]) / sw, (sb[1] - sb[3]) / sh)
    dres = ((db[0] - db[2]) / ds[0], (db[1] - db[3]) / ds[1])
    both = z3.And(zabs(sres[0] - dres[0]) < zabs(dres[0] / (ds[0] * 10)), zabs(sres[1] - dres[1]) < zabs(dres[1] / (ds[1] * 10)))
    goal = z3.BoolVal(len(crops) + len(trs) == 1)
    if crops and not trs:
        box = crops[0][1].args[0]
        ok = isinstance(box, VSeq) and box.concrete and len(box.items) == 4
        goal = z3.And(goal, z3.BoolVal(ok))
        if ok:
            x0, y0, x1, y1 = [to_real(b) for b in box.items]
            goal = z3.And(goal, both, zabs(x0 - minx) <= z3.RealVal('0.5000001'), zabs(y0 - miny) <= z3.RealVal('0.5000001'),
                          x1 - x0 == ds[0], y1 - y0 == ds[1])
    if trs and not crops:
        a = trs[0][1].args
        ok = len(a) >= 3 and isinstance(a[2], VSeq) and a[2].concrete and len(a[2].items) == 4 and a[0] is e['dst_size']
        goal = z3.And(goal, z3.BoolVal(bool(ok)))
        if ok:
            q = [to_real(b) for b in a[2].items]
            goal = z3.And(goal, q[0] == minx, q[1] == miny, q[2] == maxx, q[3] == maxy)
    yield ('window_is_affine_image_of_request', goal,
           'resampling: EXTENT quad = exact source-pixel image of dst_bbox, output size = dst_size; crop shortcut: only if the '
           'x AND the y resolution match the source, box = that window rounded to whole pixels, dst_size wide and high')


contract('mapproxy.image.transform:ImageTransformer._transform_simple', props=['C01'],
         types=dict(src_img='opaque', src_bbox='tuple[real,real,real,real]', dst_size='tuple[int,int]',
                    dst_bbox='tuple[real,real,real,real]', image_opts='opaque'), returns='opaque', default_callee='opaque',
         opaque_fields={'size': 'tuple[int,int]'}, stable_fields=['size'],
         inline=['make_lin_transf', 'func'],
         opaque_spec={'as_image': {'pure': True}, 'crop': {'pure': True}, 'transform': {'pure': True}, 'img_for_resampling': {'pure': True},
                      'ImageSource': {'pure': True}},
         raises={'KeyError': True},
         requires=['src_bbox[0] < src_bbox[2] and src_bbox[1] < src_bbox[3]', 'dst_bbox[0] < dst_bbox[2] and dst_bbox[1] < dst_bbox[3]',
                   'dst_size[0] > 0 and dst_size[1] > 0', 'src_img.size[0] > 0 and src_img.size[1] > 0'],
         trace=[_simple_window])


# ---- cascaded source in an unsupported SRS: what is asked upstream is what is reprojected back ------------------------------
def _transformed_protocol(ex, st, post, result):
    import z3
    from pyvc.values import eq, VSeq
    q = post.env['query']
    best = T.evs(st, 'best_srs')
    tb = T.evs(st, 'transform_bbox_to')
    mq = T.evs(st, 'MapQuery')
    ups = T.evs(st, 'retrieve', '_get_sub_query', 'WMSSource._get_sub_query')
    it = T.evs(st, 'ImageTransformer')
    tr = T.evs(st, 'transform')
    ok = len(best) == 1 and len(tb) == 1 and len(mq) == 1 and len(ups) == 1 and len(it) == 1 and len(tr) == 1
    goal = z3.BoolVal(ok)
    if ok:
        src_srs, src_bbox, m = best[0][1].result, tb[0][1].result, mq[0][1]
        up = ups[0][1]
        up_args = [a for a in up.args if a is not post.env['self']]
        ok2 = (m.args[0] is src_bbox and m.args[2] is src_srs           # the upstream query: source bbox in the source SRS
               and up_args and up_args[0] is m.result                    # ... and THAT query goes upstream (direct or clipped)
               and it[0][1].args[0] is src_srs                           # reprojection from the source SRS ...
               and tr[0][1].args[1] is src_bbox                          # ... of an image that covers the source bbox
               and tb[0][1].args[0] is src_srs and ups[0][0] < tr[0][0])
        goal = z3.And(goal, z3.BoolVal(bool(ok2)))
        if ok2:
            goal = z3.And(goal,
                          eq(it[0][1].args[1], ex.opaque_field_at(st, it[0][1], q, 'srs')),       # ... to the SRS of the request
                          eq(tb[0][1].args[1], ex.opaque_field_at(st, tb[0][1], q, 'bbox')),     # source bbox = image of the request bbox
                          eq(tr[0][1].args[2], ex.opaque_field_at(st, tr[0][1], q, 'size')),
                          eq(tr[0][1].args[3], ex.opaque_field_at(st, tr[0][1], q, 'bbox')))
    if ok and ok2:
        # the size asked upstream keeps the pixels square: the finer axis keeps its pixel count, the other follows the aspect ratio
        from pyvc.values import to_real
        b = [to_real(x) for x in src_bbox.items]
        qs = ex.opaque_field_at(st, m, q, 'size')
        w, h = to_real(qs.items[0]), to_real(qs.items[1])
        sw, sh = b[2] - b[0], b[3] - b[1]
        sz = m.args[1]
        if isinstance(sz, VSeq) and sz.concrete and len(sz.items) == 2:
            s0, s1 = to_real(sz.items[0]), to_real(sz.items[1])
            pos = z3.And(sw > 0, sh > 0, w > 0, h > 0)
            x_finer = sw / w < sh / h
            goal = z3.And(goal, z3.Implies(pos, z3.If(
                x_finer,
                z3.And(s0 == w, s1 <= w * sh / sw + 0.5, w * sh / sw + 0.5 < s1 + 1),
                z3.And(s1 == h, s0 <= h * sw / sh + 0.5, h * sw / sh + 0.5 < s0 + 1))))
        else:
            goal = z3.BoolVal(False)
    yield ('upstream_query_is_what_gets_reprojected', goal,
           'src_bbox = request bbox transformed to best_srs; the query sent upstream (directly or clipped to the coverage) is '
           'MapQuery(src_bbox, .., src_srs); the answer is reprojected from (src_srs, src_bbox) to (request srs, bbox, size)')


contract('mapproxy.source.wms:WMSSource._get_transformed', props=['C01', 'C17'],
         types=dict(query='opaque', format='opaque'), returns='opaque', default_callee='opaque',
         opaque_fields=dict(c17_upstream.QF), stable_fields=['bbox', 'size', 'srs', 'dimensions'],
         opaque_spec=dict(c17_upstream.SPEC, ImageTransformer={'pure': True}, transform={'pure': True},
                          _get_sub_query={'raises': ['BlankImage']}),
         opaque=['_get_sub_query', 'ImageTransformer', 'MapQuery'],
         raises={'HTTPClientError': True, 'BlankImage': True, 'ZeroDivisionError': True},
         trace=[_transformed_protocol])


# ---- "no transformation needed": the source image itself is handed out only if it already IS the requested picture -------------
contract('mapproxy.srs:bbox_equals', props=['C01'],
         types=dict(src_bbox='tuple[real,real,real,real]', dst_bbox='tuple[real,real,real,real]', x_delta='opt[real]', y_delta='opt[real]'),
         returns='bool',
         requires=['x_delta is not None and y_delta is not None and x_delta > 0 and y_delta > 0'],
         ensures=[
             # identical rectangles are always equal
             'implies(src_bbox == dst_bbox, result)',
             # "equal" means: every edge closer than the LARGER of the two tolerances (the code pairs x_delta with minx/miny and
             # y_delta with maxx/maxy - not with the x and the y edges; only the max of both is guaranteed for an edge)
             """implies(result, forall(lambda i: implies(0 <= i < 4, abs(src_bbox[i] - dst_bbox[i]) < max(x_delta, y_delta))))"""],
         must_fail='result == True')

contract('mapproxy.image.transform:ImageTransformer._no_transformation_needed', props=['C01'],
         types=dict(src_size='tuple[int,int]', src_bbox='tuple[real,real,real,real]', dst_size='tuple[int,int]',
                    dst_bbox='tuple[real,real,real,real]'), returns='bool',
         requires=['dst_size[0] > 0 and dst_size[1] > 0', 'dst_bbox[0] < dst_bbox[2] and dst_bbox[1] < dst_bbox[3]'],
         ensures=[
             # C01: a request that is exactly the stored image (same size, same SRS object, same rectangle) is answered unresampled
             'implies(src_size == dst_size and self.src_srs == self.dst_srs and src_bbox == dst_bbox, result)',
             # and the source is handed out ONLY if sizes and SRS agree and every edge is off by less than a tenth of the coarser
             # axis' pixel: at most 0.1 * max(xres, yres) / min(xres, yres) output pixels - 0.1 px for square pixels, below the
             # 1.5 px of C01 up to an anisotropy of 15 (lemma below)
             """implies(result, src_size == dst_size and self.src_srs == self.dst_srs and
                        forall(lambda i: implies(0 <= i < 4, abs(src_bbox[i] - dst_bbox[i]) * 10 <
                               max((dst_bbox[2] - dst_bbox[0]) / dst_size[0], (dst_bbox[3] - dst_bbox[1]) / dst_size[1]))))"""],
         must_fail='result == True')
lemma('tenth_of_coarser_pixel_is_within_budget', ['C01'],
      doc='an edge offset d < max(xres, yres)/10 is below 1.5 output pixels on either axis as long as the pixel anisotropy is at most 15',
      fn=lambda z3: (lambda d, xr, yr: ([xr > 0, yr > 0, d >= 0, d * 10 < z3.If(xr > yr, xr, yr), xr <= 15 * yr, yr <= 15 * xr],
                                        z3.And(d < 1.5 * xr, d < 1.5 * yr)))(*z3.Reals('d xr yr')))


def _fi_new_query(ex, st, post, result):
    """the forwarded query: bbox = the request bbox transformed to best_srs, width kept and height chosen for square pixels,
    the pixel = the rounded affine image of the reprojected point in that bbox/size (y down)"""
    import z3
    from pyvc.values import eq, VSeq, to_real, to_int
    q = post.env['query']
    best = T.evs(st, 'best_srs')
    tb = T.evs(st, 'transform_bbox_to')
    tr = T.evs(st, 'transform_to')
    iq = T.evs(st, 'InfoQuery')
    ok = len(best) == 1 and len(tb) == 1 and len(tr) == 1 and len(iq) == 1 and all(k in iq[0][1].kwargs for k in ('bbox', 'size', 'srs', 'pos'))
    goal = z3.BoolVal(bool(ok))
    if ok:
        kw = iq[0][1].kwargs
        src_srs = ex.opaque_field_at(st, tb[0][1], q, 'srs')
        ib = tb[0][1].result
        ok2 = kw['bbox'] is ib and kw['srs'] is best[0][1].result and tb[0][1].args[0] is best[0][1].result \
            and tr[0][1].args[0] is best[0][1].result and isinstance(kw['size'], VSeq) and isinstance(kw['pos'], VSeq)
        goal = z3.And(goal, z3.BoolVal(bool(ok2)), eq(tb[0][1].args[1], ex.opaque_field_at(st, tb[0][1], q, 'bbox')),
                      z3.BoolVal(tb[0][1].recv is not None and tr[0][1].recv is not None and tb[0][1].recv.t.eq(tr[0][1].recv.t)),
                      eq(best[0][1].args[0], src_srs))
        if ok2:
            b = [to_real(x) for x in ib.items]
            w = to_real(kw['size'].items[0])
            hgt = to_real(kw['size'].items[1])
            qsize = ex.opaque_field_at(st, iq[0][1], q, 'size')
            pt = tr[0][1].result
            px, py = to_real(kw['pos'].items[0]), to_real(kw['pos'].items[1])
            ex_x = (to_real(pt.items[0]) - b[0]) * w / (b[2] - b[0])
            ex_y = (b[3] - to_real(pt.items[1])) * hgt / (b[3] - b[1])

            def near(a, c):
                return z3.And(a - c <= z3.RealVal('0.5000001'), c - a <= z3.RealVal('0.5000001'))
            goal = z3.And(goal, w == to_real(qsize.items[0]),
                          # height: the integer part of width * (bbox height / bbox width)  (square pixels)
                          z3.Implies(z3.And(b[2] > b[0], b[3] > b[1], w > 0),
                                     z3.And(hgt <= (b[3] - b[1]) / (b[2] - b[0]) * w, (b[3] - b[1]) / (b[2] - b[0]) * w < hgt + 1)),
                          z3.Implies(z3.And(b[2] > b[0], b[3] > b[1], hgt > 0), z3.And(near(px, ex_x), near(py, ex_y))))
    yield ('forwarded_query_addresses_the_same_ground_point', goal,
           'InfoQuery(bbox=transformed bbox, size=(width, int(width * aspect)), srs=best_srs, pos=round(affine image of the '
           'reprojected click in that bbox/size)): the upstream is asked about the clicked ground point to within half a pixel')


_ct = __import__('pyvc.api', fromlist=['REG']).REG.contracts['mapproxy.client.wms:WMSInfoClient._get_transformed_query']
_ct['trace'] = list(_ct['trace']) + [_fi_new_query]


# ---- TiledImage: the mosaic keeps its georeference on the way into the transformer ------------------------------------------
cls('mapproxy.image.tile:TiledImage', fields=dict(tiles='opaque', tile_grid='opaque', tile_size='opaque', src_bbox='opaque', src_srs='opaque'))


def _tiled_transform(ex, st, post, result):
    import z3
    from pyvc.values import eq
    h = st.heap[post.env['self'].ref]
    it = [e for i, e in T.evs(st, 'ImageTransformer')]
    im = [e for i, e in T.evs(st, 'image', 'TiledImage.image')]
    tr = [e for i, e in T.evs(st, 'transform')]
    ok = len(it) == 1 and len(im) == 1 and len(tr) == 1 and tr[0].recv is not None and tr[0].recv.t.eq(it[0].result.t) \
        and len(tr[0].args) == 5 and tr[0].args[0] is im[0].result and result is tr[0].result
    goal = z3.BoolVal(bool(ok))
    if ok:
        goal = z3.And(goal, eq(it[0].args[0], h['src_srs']), eq(it[0].args[1], post.env['req_srs']),
                      eq(tr[0].args[1], h['src_bbox']), eq(tr[0].args[2], post.env['out_size']), eq(tr[0].args[3], post.env['req_bbox']))
    yield ('mosaic_transformed_from_its_own_bbox_to_the_request', goal,
           'ImageTransformer(self.src_srs, req_srs).transform(self.image(..), self.src_bbox, out_size, req_bbox, ..): source and '
           'destination georeference are never swapped or replaced')


def _tiled_merge(ex, st, post, result):
    import z3
    from pyvc.values import eq
    h = st.heap[post.env['self'].ref]
    tm = [e for i, e in T.evs(st, 'TileMerger')]
    mg = [e for i, e in T.evs(st, 'merge')]
    ok = len(tm) == 1 and len(mg) == 1 and mg[0].recv is not None and mg[0].recv.t.eq(tm[0].result.t) and result is mg[0].result
    goal = z3.BoolVal(bool(ok))
    if ok:
        goal = z3.And(goal, eq(tm[0].args[0], h['tile_grid']), eq(tm[0].args[1], h['tile_size']), eq(mg[0].args[0], h['tiles']))
    yield ('mosaic_built_from_own_grid_and_tiles', goal, 'TileMerger(self.tile_grid, self.tile_size).merge(self.tiles, ..)')


contract('mapproxy.image.tile:TiledImage.transform', props=['C01'],
         types=dict(req_bbox='opaque', req_srs='opaque', out_size='opaque', image_opts='opaque'), returns='opaque',
         default_callee='opaque', opaque_spec={'ImageTransformer': {'pure': True}, 'image': {'pure': True}, 'transform': {'pure': True}},
         opaque=['ImageTransformer', 'image', 'transform'],
         trace=[_tiled_transform])
contract('mapproxy.image.tile:TiledImage.image', props=['C01'],
         types=dict(image_opts='opaque'), returns='opaque', default_callee='opaque',
         opaque_spec={'TileMerger': {'pure': True}, 'merge': {'pure': True}}, opaque=['TileMerger', 'merge'],
         trace=[_tiled_merge])


def _transform_dispatch(ex, st, post, result):
    import z3
    from pyvc.values import eq
    e_ = post.env
    nt = [e for i, e in T.evs(st, '_no_transformation_needed', 'ImageTransformer._no_transformation_needed')]
    si = [e for i, e in T.evs(st, '_transform_simple', 'ImageTransformer._transform_simple')]
    fu = [e for i, e in T.evs(st, '_transform', 'ImageTransformer._transform')]
    h = st.heap[e_['self'].ref]
    same = eq(h['src_srs'], h['dst_srs'])
    ok = len(nt) == 1 and len(si) + len(fu) <= 1
    goal = z3.BoolVal(bool(ok))
    if ok:
        skip = ex.truth(st, nt[0].result)
        a = [x for x in nt[0].args if x is not e_['self']]
        goal = z3.And(goal, z3.BoolVal(len(a) == 4 and a[1] is e_['src_bbox'] and a[2] is e_['dst_size'] and a[3] is e_['dst_bbox']),
                      eq(a[0], ex.opaque_field_at(st, nt[0], e_['src_img'], 'size')) if len(a) == 4 else z3.BoolVal(False))
        if not si and not fu:
            goal = z3.And(goal, skip, z3.BoolVal(result is e_['src_img']))
        for c in si + fu:
            b = [x for x in c.args if x is not e_['self']]
            goal = z3.And(goal, z3.Not(skip), same == z3.BoolVal(c in si),
                          z3.BoolVal(len(b) == 5 and b[0] is e_['src_img'] and b[1] is e_['src_bbox'] and b[2] is e_['dst_size']
                                     and b[3] is e_['dst_bbox'] and result is c.result))
    yield ('transform_dispatch', goal,
           'the source image itself is returned only if _no_transformation_needed(src size, src_bbox, dst_size, dst_bbox); otherwise '
           'the crop/scale path exactly when both SRS are the same and the mesh reprojection otherwise, with (src_img, src_bbox, '
           'dst_size, dst_bbox) in that order')


def _transform_keeps_cacheability(ex, st, post, result):
    """C20: a picture that must not be cached (error fill, partial answer) stays so after cropping, scaling or reprojection"""
    import z3
    e_ = post.env
    made = [e for i, e in T.evs(st, '_transform_simple', 'ImageTransformer._transform_simple')] + \
           [e for i, e in T.evs(st, '_transform', 'ImageTransformer._transform')]
    sets = [e for e in st.trace if e.name == 'setattr:cacheable']
    if not made:
        goal = z3.BoolVal(not sets)         # the source image itself is handed back, flag untouched
    else:
        src_flag = ex.opaque_field(st, e_['src_img'], 'cacheable')
        ok = len(made) == 1 and len(sets) >= 1 and sets[-1].args[0] is made[0].result and result is made[0].result \
            and all(x.args[0] is made[0].result for x in sets)
        goal = z3.BoolVal(bool(ok))
        if ok:
            from pyvc.values import eq
            goal = z3.And(goal, eq(sets[-1].args[1], src_flag))
    yield ('result_is_cacheable_iff_source_image_is', goal,
           'whichever path produced the result (crop/scale or mesh reprojection), its cacheable flag is set to the source image\'s '
           'flag before it is returned; only the new image is written to')


contract('mapproxy.image.transform:ImageTransformer.transform', props=['C01', 'C20'],
         types=dict(src_img='opaque', src_bbox='opaque', dst_size='opaque', dst_bbox='opaque', image_opts='opaque'), returns='opaque',
         default_callee='opaque', opaque_fields={'size': 'opaque', 'cacheable': 'bool'}, stable_fields=['size'],
         opaque_spec={'_no_transformation_needed': {'returns': 'bool', 'pure': True}, '_transform_simple': {'pure': True},
                      '_transform': {'pure': True}},
         opaque=['_no_transformation_needed', '_transform_simple', '_transform'],
         trace=[_transform_dispatch, _transform_keeps_cacheability])


def _mosaic_paste(ex, st, k):
    """tile k of the row-major list is pasted - once, unresampled - at _tile_offset(k) of the mosaic"""
    import z3
    from pyvc.values import eq, to_int, VSeq
    evs_ = st.trace[getattr(st, 'iter_start_trace', 0):]
    src = st.env['source']
    ai = [e for e in evs_ if e.name == 'as_image' and not e.raised]
    off = [e for e in evs_ if e.name in ('_tile_offset', 'TileMerger._tile_offset')]
    pa = [e for e in evs_ if e.name == 'paste' and not e.raised]
    none_src = src.isnone if hasattr(src, 'isnone') else z3.BoolVal(False)
    goal = z3.BoolVal(len(pa) <= 1)
    for p in pa:
        ok = len(ai) == 1 and len(off) == 1 and len(p.args) == 2 and p.args[0] is ai[0].result and p.args[1] is off[0].result \
            and ai[0].recv is not None
        goal = z3.And(goal, z3.BoolVal(bool(ok)), z3.Not(none_src))
        if ok:
            goal = z3.And(goal, to_int(off[0].args[-1]) == k, ai[0].recv.t == (src.val.t if hasattr(src, 'val') else src.t))
    raised = [e for e in evs_ if e.raised]
    if not raised:
        # no decoding error in this iteration: a present tile IS pasted, an absent one is skipped
        goal = z3.And(goal, none_src == z3.BoolVal(len(pa) == 0))
        if pa:
            # a tile that must not be cached makes the whole mosaic uncacheable
            sc = ex.truth(st, ex.opaque_field_at(st, pa[0], src.val if hasattr(src, 'val') else src, 'cacheable'))
            goal = z3.And(goal, z3.Implies(z3.Not(sc), z3.Not(ex.truth(st, st.env['cacheable']))))
    yield ('tile_k_pasted_at_offset_k', goal,
           'result.paste(ordered_tiles[k].as_image(), self._tile_offset(k)): every tile lands at the position of ITS index')


def _mosaic_result(ex, st, post, result):
    import z3
    from pyvc.values import eq
    ci = [e for i, e in T.evs(st, 'create_image')]
    im = [e for i, e in T.evs(st, 'ImageSource')]
    ss = [e for i, e in T.evs(st, '_src_size', 'TileMerger._src_size')]
    if not ci:
        # the 1x1 shortcut: the single stored tile itself is handed out (unresampled) - only for a 1 x 1 block, never None
        from pyvc.values import to_int, opaque_is_none
        tg = st.heap[post.env['self'].ref]['tile_grid']
        tiles0 = post.old.env['ordered_tiles'] if getattr(post, 'old', None) is not None and 'ordered_tiles' in getattr(post.old, 'env', {}) else post.env['ordered_tiles']
        first = tiles0.elem(z3.IntVal(0))
        g = z3.And(to_int(tg.items[0]) == 1, to_int(tg.items[1]) == 1)
        if hasattr(result, 't') and hasattr(first, 'val'):
            g = z3.And(g, z3.Not(first.isnone), result.t == first.val.t)
        elif hasattr(result, 'isnone'):
            g = z3.And(g, z3.Not(result.isnone))
        yield ('single_tile_shortcut', g, 'the tile itself is returned without building a mosaic only for a 1 x 1 block with a tile in it')
        return
    ok = len(ci) == 1 and len(im) == 1 and len(ss) == 1 and ci[0].args[0] is ss[0].result and im[0].args[0] is ci[0].result \
        and im[0].kwargs.get('size') is ss[0].result and result is im[0].result and im[0].kwargs.get('cacheable') is st.env.get('cacheable')
    yield ('mosaic_has_the_full_block_size', z3.BoolVal(bool(ok)),
           'the mosaic image is created with _src_size() = (columns x tile width, rows x tile height) and returned with that size')


contract('mapproxy.image.tile:TileMerger.merge', props=['C01'],
         types=dict(ordered_tiles='list[opt[opaque]]', image_opts='opaque'), returns='opaque', default_callee='opaque',
         opaque_fields={'cacheable': 'opaque'},
         opaque_spec={'create_image': {'pure': True}, 'as_image': {'raises': ['IOError'], 'pure': True}, 'draft': {'pure': True},
                      'paste': {'raises': ['IOError'], 'pure': True}, 'close_buffers': {'pure': True}, 'ImageSource': {'pure': True},
                      'exists': {'returns': 'bool', 'pure': True}, 'remove': {}, 'getattr': {'pure': True},
                      '_tile_offset': {'returns': 'tuple[int,int]', 'pure': True}, '_src_size': {'returns': 'tuple[int,int]', 'pure': True},
                      'pop': {'pure': True}},
         opaque=['_tile_offset', '_src_size', 'create_image'],
         raises={'IOError': True, 'AssertionError': True},
         loops={0: dict(inv=['implies(_k == 0, cacheable)'], types={'cacheable': 'bool'}, body_trace=[_mosaic_paste])},
         trace=[_mosaic_result])
