#!/bin/sh
# re-run every registered check on the CURRENT /repo tree so that the committed evidence files come from clean runs
cd "$(dirname "$0")/.." || exit 1
fail=0
for p in $(python3 -c "import json;print(' '.join(c['property_id'] for c in json.load(open('MANIFEST.json'))['checks']))"); do
  ./check $p --tier quick > /tmp/refresh_$p.log 2>&1 || { echo "CHECK $p exit $?"; fail=1; }
  tail -1 /tmp/refresh_$p.log | cut -c1-150
done
exit $fail
