"""
C14 / defect 3: a group layer that has its own sources ("this") AND child layers
renders only its own sources when requested by name, but WMSGroupLayer.is_opaque
asks the CHILD layers.  If a child is opaque, all layers below the group are
pruned although the picture that is actually drawn for the group (its own,
transparent, source) does not cover them.
"""
import io
import os
import shutil
import sys
import tempfile
import threading
from http.server import BaseHTTPRequestHandler, HTTPServer
from urllib.parse import urlparse, parse_qs

sys.path.insert(0, os.getcwd())

import numpy as np
from PIL import Image

SIZE = 100
REQUESTS = []


def upstream_layer(layer):
    img = np.zeros((SIZE, SIZE, 4), dtype=np.uint8)
    if layer == 'land':          # opaque blue
        img[:, :] = (0, 0, 200, 255)
    elif layer == 'aerial':      # opaque grey
        img[:, :] = (90, 90, 90, 255)
    elif layer == 'labels':      # red stripe on transparent
        img[40:60, :] = (255, 0, 0, 255)
    return img


class Handler(BaseHTTPRequestHandler):
    def do_GET(self):
        params = {k.lower(): v for k, v in parse_qs(urlparse(self.path).query).items()}
        layer = params['layers'][0]
        REQUESTS.append(layer)
        arr = upstream_layer(layer)
        if params.get('transparent', ['false'])[0].lower() != 'true':
            a = arr[..., 3:4] / 255.0
            arr = np.concatenate([(arr[..., :3] * a + 255 * (1 - a)).astype(np.uint8),
                                  np.full((SIZE, SIZE, 1), 255, np.uint8)], axis=-1)
        buf = io.BytesIO()
        Image.fromarray(arr, 'RGBA').save(buf, 'PNG')
        data = buf.getvalue()
        self.send_response(200)
        self.send_header('Content-type', 'image/png')
        self.send_header('Content-length', str(len(data)))
        self.end_headers()
        self.wfile.write(data)

    def log_message(self, *a):
        pass


# three different upstream URLs: no request combination involved
CONF = """
services:
  wms:
    md: {title: demo}
    srs: ['EPSG:4326']
layers:
  - name: base
    title: base
    sources: [land_src]
  - name: overlays
    title: group with own source and children
    sources: [labels_src]
    layers:
      - name: aerial
        title: aerial
        sources: [aerial_src]
sources:
  land_src:
    type: wms
    req: {url: 'http://127.0.0.1:%(port)d/a', layers: land}
  aerial_src:
    type: wms
    req: {url: 'http://127.0.0.1:%(port)d/b', layers: aerial}
  labels_src:
    type: wms
    req: {url: 'http://127.0.0.1:%(port)d/c', layers: labels, transparent: true}
globals:
  cache:
    base_dir: %(tmp)s/cache
    lock_dir: %(tmp)s/locks
    tile_lock_dir: %(tmp)s/tlocks
"""


def getmap(app, layers):
    del REQUESTS[:]
    resp = app.get('/service?SERVICE=WMS&VERSION=1.1.1&REQUEST=GetMap&LAYERS=%s&STYLES='
                   '&SRS=EPSG:4326&BBOX=0,0,10,10&WIDTH=%d&HEIGHT=%d&FORMAT=image/png'
                   '&TRANSPARENT=TRUE' % (layers, SIZE, SIZE))
    assert resp.content_type == 'image/png', resp.body[:300]
    return np.asarray(Image.open(io.BytesIO(resp.body)).convert('RGBA')), list(REQUESTS)


def over(dst, src):
    s = src.astype(np.float64) / 255.0
    d = dst.astype(np.float64) / 255.0
    sa, da = s[..., 3:4], d[..., 3:4]
    oa = sa + da * (1 - sa)
    with np.errstate(invalid='ignore', divide='ignore'):
        oc = np.where(oa > 0, (s[..., :3] * sa + d[..., :3] * da * (1 - sa)) / oa, 0)
    return (np.concatenate([oc, oa], axis=-1) * 255 + 0.5).astype(np.uint8)


def main():
    from mapproxy.wsgiapp import make_wsgi_app
    from webtest import TestApp

    httpd = HTTPServer(('127.0.0.1', 0), Handler)
    threading.Thread(target=httpd.serve_forever, daemon=True).start()
    tmp = tempfile.mkdtemp(prefix='c14_3_')
    try:
        conf = os.path.join(tmp, 'mapproxy.yaml')
        with open(conf, 'w') as f:
            f.write(CONF % {'port': httpd.server_port, 'tmp': tmp})
        app = TestApp(make_wsgi_app(conf))

        base, req_base = getmap(app, 'base')
        group, req_group = getmap(app, 'overlays')
        print('LAYERS=base      -> upstream layers %s, pixel (10,10) %s'
              % (req_base, tuple(int(v) for v in base[10, 10])))
        print('LAYERS=overlays  -> upstream layers %s, pixel (10,10) %s  (the group draws only its own source)'
              % (req_group, tuple(int(v) for v in group[10, 10])))
        ref = over(base, group)   # full composition of the two individual layer images

        got, req_both = getmap(app, 'base,overlays')
        print('LAYERS=base,overlays -> upstream layers %s' % (req_both,))
        diff = np.abs(got.astype(int) - ref.astype(int)).max()
        print('pixel (10,10): got %s, reference composition %s'
              % (tuple(int(v) for v in got[10, 10]), tuple(int(v) for v in ref[10, 10])))
        print('max channel difference to reference:', diff)
        if diff > 2:
            print('FAIL: layer "base" was pruned as hidden, but the group layer above it '
                  'is drawn from its own transparent source, not from its opaque child')
            return 1
        print('OK: image equals the full composition')
        return 0
    finally:
        httpd.shutdown()
        httpd.server_close()
        shutil.rmtree(tmp, ignore_errors=True)


if __name__ == '__main__':
    sys.exit(main())
