#!/usr/bin/env python3
"""Regenerate /verif/MANIFEST.json from contracts.MANIFEST_META (claimed properties) and NOT_APPLICABLE."""
import json, os, sys
sys.path.insert(0, os.path.dirname(os.path.dirname(os.path.abspath(__file__))))
import contracts
props = [json.loads(l)['id'] for l in open(os.path.join(os.path.dirname(__file__), '..', 'properties.jsonl'))]
checks = []
for p in props:
    m = contracts.MANIFEST_META.get(p)
    if not m or p not in contracts.PROP_MODULES:
        continue
    checks.append({
        'property_id': p,
        'quick_cmd': './check %s --tier quick' % p,
        'thorough_cmd': './check %s --tier thorough' % p,
        'evidence_file': 'evidence/%s.json' % p,
        'replay_cmd_template': './check %s --replay {path}' % p,
        'engine': 'pyvc',
        'level_claimed': {'category': 'proof', 'text': m['text'], 'design_ref': 'DESIGN.md section 6 (%s)' % p},
        'level_note': m['note'],
        'technique': 'contract-based deductive verification: sidecar contracts on the real functions, VCs generated '
                     'from the real AST by pyvc, discharged by z3 5.1 (cvc5 / z3 4.8.12 fallback); counter-models '
                     'replayed on the real code',
    })
na = [{'property_id': p, 'reason': contracts.NOT_APPLICABLE.get(p, 'check not built yet (build in progress)')}
      for p in props if p not in [c['property_id'] for c in checks]]
man = {
    'version': 1,
    'setup_cmd': './tools/setup.sh',
    'hooks': {'guard': 'MAPPROXY_VERIF',
              'enable': 'no source hooks: contracts are sidecar files under /verif/contracts keyed by module:function; '
                        'nothing in /repo is instrumented, the checks parse /repo\'s working tree on every run',
              'baseline_off_cmd': 'cd /repo && /venv/bin/python -m pytest -ra -q -p no:cacheprovider --timeout=900 '
                                  '--continue-on-collection-errors',
              'source_commits': [], 'add_only': True},
    'engines': [{'name': 'pyvc', 'path': 'pyvc/', 'serves_properties': [c['property_id'] for c in checks],
                 'kind_free_text': 'own AST->SMT verification-condition generator for a Python subset (symbolic '
                                   'execution with contracts, loop invariants, exceptions, ghost traces), z3/cvc5 back '
                                   'ends, concrete replayer under /venv/bin/python'}],
    'checks': checks,
    'notes': 'exit codes of ./check: 0 held, 1 violation (VIOLATION line), 2 undecided (target left the verifier\'s '
             'subset; no VIOLATION line), 3 checker error. Known findings: known_findings.json.',
    'not_applicable': na,
}
json.dump(man, open(os.path.join(os.path.dirname(__file__), '..', 'MANIFEST.json'), 'w'), indent=1)
print('checks:', [c['property_id'] for c in checks])
