"""C02 - tile addresses mean what the capabilities say: advertised description objects vs. served rectangles."""
from pyvc.api import contract, cls, ghost, lemma, finding_class
from pyvc import tracelib as T
from . import shared_grid, c03_grid, c16_limits  # noqa
G = 'mapproxy.grid:'
S = 'mapproxy.service.tile:'

contract(G + 'TileGrid.origin_tile', props=['C02', 'C03'],
         types=dict(level='int|str', origin='str'), returns='tuple[int,int,int|str]',
         requires=['grid_wf(self)', 'level_ok(self, level)'],
         raises={'AssertionError': True, 'ValueError': True},
         ensures=['result[0] == 0 and result[2] == level',
                  # the tile in the requested corner: row 0 in the grid's own numbering, the last row otherwise
                  'result[1] == (0 if origin_norm(origin) == self.origin else self.grid_sizes[level][1] - 1)',
                  # only offered when flipping is sound on every level (see supports_access_with_origin)
                  'origin_norm(origin) == self.origin or forall(lambda l: implies(0 <= l < self.levels, level_aligned(self, l)))'],
         must_fail='result[1] == 0')

# ---- TMS: advertised tile sets <-> internal levels ---------------------------------------------------------------------
ghost('ts_start', ['sg'], "(2 if sg._skip_odd_level else 1) if sg._skip_first_level else 0")
ghost('ts_step', ['sg'], "2 if sg._skip_odd_level else 1")

contract(S + 'TileServiceGrid.tile_sets', props=['C02'],
         types={}, returns='list[tuple[int,real]]',
         requires=['grid_wf(self.grid)'],
         ensures=[
             'forall(lambda k: implies(0 <= k < len(result), result[k][0] == k))',
             # the k-th advertised set is internal level start + k * step, with that level's resolution ...
             """forall(lambda k: implies(0 <= k < len(result), 0 <= ts_start(self) + k * ts_step(self) < self.grid.levels
                       and result[k][1] == self.grid.resolutions[ts_start(self) + k * ts_step(self)]))""",
             # ... and every internal level of that form is advertised
             """forall(lambda k: implies(k >= 0 and ts_start(self) + k * ts_step(self) < self.grid.levels, k < len(result)))""",
         ],
         loops={0: dict(types={'tile_sets': 'list[tuple[int,real]]'}, inv=[
             'len(tile_sets) == _k',
             """forall(lambda k: implies(0 <= k < _k, tile_sets[k][0] == k
                       and tile_sets[k][1] == self.grid.resolutions[ts_start(self) + k * ts_step(self)]))"""])},
         must_fail='len(result) == 0')

lemma('tms_order_is_internal_level', ['C02'],
      doc='the level internal_tile_coord serves for public order k (use_profiles=True) is exactly the level whose '
          'resolution tile_sets advertises for k: ((k+1 if first) * (2 if odd)) == start + k*step',
      fn=lambda z3: (lambda k, first, odd: (
          [k >= 0],
          (z3.If(first, k + 1, k) * z3.If(odd, 2, 1)) == z3.If(first, z3.If(odd, 2, 1), 0) + k * z3.If(odd, 2, 1)))(
          z3.Int('k'), z3.Bool('first'), z3.Bool('odd')))

# ---- WMTS: tile matrices --------------------------------------------------------------------------------------------
cls('mapproxy.service.wmts:TileMatrixSet', fields=dict(grid='obj:mapproxy.service.tile:TileServiceGrid', name='opaque',
                                                       srs_name='opaque', tile_matrices='opaque'))


def _matrix_description(ex, st, k):
    """for the matrix of level k: identifier = the level name, top-left corner = the north-west corner of the
    tile block, scale denominator <-> resolution, matrix size = grid size"""
    import z3
    from pyvc.values import eq, to_real
    ev = [e for i, e in T.evs(st, 'bunch')]
    if len(ev) != 1:
        yield ('one_matrix_per_level', z3.BoolVal(False), 'one matrix description per level')
        return
    kw = ev[0].kwargs
    self_ = st.env['self']
    sg = st.heap[self_.ref]['grid']
    g = st.heap[sg.ref]['grid']
    gh = st.heap[g.ref]
    names = st.heap[gh['resolutions'].ref]['names']
    res = st.heap[gh['resolutions'].ref]['values'].elem(k).t
    gs = st.heap[gh['grid_sizes'].ref]['values'].elem(k)
    tw, th = gh['tile_size'].items[0].t, gh['tile_size'].items[1].t
    b0, b1, b3 = gh['bbox'].items[0].t, gh['bbox'].items[1].t, gh['bbox'].items[3].t
    yield ('identifier_is_level_name', eq(kw['identifier'], names.elem(k)), 'TileMatrix identifier = level name')
    yield ('matrix_size', eq(kw['grid_size'], gs), 'MatrixWidth/Height = grid size of the level')
    yield ('tile_size', eq(kw['tile_size'], gh['tile_size']), 'TileWidth/Height = grid tile size')
    mpu = [e for i, e in T.evs(st, 'meter_per_unit')]
    if len(mpu) != 1:
        yield ('scale', z3.BoolVal(False), 'scale denominator from meter_per_unit')
        return
    m = mpu[0].result.t
    sd = kw['scale_denom'].t
    yield ('scale_denominator', z3.Implies(m > 0, sd * z3.RealVal('0.00028') / m == res),
           'ScaleDenominator * 0.28mm / meters_per_unit = the level resolution (what a client computes)')
    # top-left corner (before the optional axis swap): x = west edge of column 0, y = north edge of the top row
    tl = kw['topleft']
    flipped = gh['flipped_y_axis'].t
    north = z3.If(flipped, b3, b1 + to_real(gs.items[1]) * res * z3.ToReal(th))
    ne = [e for i, e in T.evs(st, 'is_axis_order_ne')]
    x_, y_ = tl.items[0].t, tl.items[1].t
    swapped = z3.BoolVal(False)
    yield ('topleft_corner',
           z3.Or(z3.And(x_ - b0 <= 4e-12, b0 - x_ <= 4e-12, y_ - north <= 4e-12, north - y_ <= 4e-12),
                 z3.And(y_ - b0 <= 4e-12, b0 - y_ <= 4e-12, x_ - north <= 4e-12, north - x_ <= 4e-12)),
           'TopLeftCorner = (west edge of column 0, north edge of the top tile row) (axis order swapped for NE systems)')


contract('mapproxy.service.wmts:TileMatrixSet._tile_matrices', props=['C02'],
         types={}, returns='list[opaque]', default_callee='opaque',
         opaque_spec={'bunch': {'pure': True}, 'meter_per_unit': {'returns': 'real', 'pure': True}},
         opaque_fields={'is_axis_order_ne': 'bool'}, stable_fields=['is_axis_order_ne'],
         requires=['grid_wf(self.grid.grid)'], raises={'AssertionError': True, 'ValueError': True},
         ensures=['len(result) == self.grid.grid.levels'],
         loops={0: dict(yield_type='opaque', inv=['len(yielded) == _k'], body_trace=[_matrix_description])},
         must_fail='len(result) == 0')

# ---- composition lemmas ------------------------------------------------------------------------------------------------
# WMTS: the request parser turns TileMatrix=<identifier> into int(identifier); identifiers are the level names
# '%02d' % index, so the public level is the level index l.  The served level is int_level(l, use_profiles=False).
lemma('wmts_matrix_is_served_level', ['C02'],
      doc='WMTS: the internal level served for TileMatrix l equals l (so the advertised scale/size/corner of matrix l '
          'describe the tiles returned)',
      fn=lambda z3: (lambda l, skip_odd: ([l >= 0], l * z3.If(skip_odd, 2, 1) == l))(z3.Int('l'), z3.Bool('skip_odd')))
finding_class('S9', lambda z3: z3.And(z3.Bool('skip_odd'), z3.Int('l') != 0))

lemma('wmts_rectangle', ['C02'],
      doc='client rectangle from (TopLeftCorner, scale, tile size) == served tile_bbox of the (flipped) internal coord, '
          'given level alignment (supports_access_with_origin) -- rows: north - (row+1)*th*res == b1 + (gh-1-row)*th*res '
          'when north == b1 + gh*th*res',
      fn=lambda z3: (lambda b1, res, th, gh, row, north: (
          [res > 0, th >= 1, gh >= 1, 0 <= row, row < gh, north == b1 + z3.ToReal(gh) * res * z3.ToReal(th)],
          z3.And(north - z3.ToReal(row + 1) * z3.ToReal(th) * res == b1 + z3.ToReal(gh - 1 - row) * res * z3.ToReal(th),
                 north - z3.ToReal(row) * z3.ToReal(th) * res == b1 + z3.ToReal(gh - 1 - row + 1) * res * z3.ToReal(th))))(
          z3.Real('b1'), z3.Real('res'), z3.Int('th'), z3.Int('gh'), z3.Int('row'), z3.Real('north')))


# ---- WMTS: unit of the scale denominator ----------------------------------------------------------------------------------
contract('mapproxy.service.wmts:meter_per_unit', props=['C02'],
         types=dict(srs='opaque'), returns='real',
         opaque_fields={'is_latlong': 'bool', 'is_axis_order_ne': 'bool'}, stable_fields=['is_latlong', 'is_axis_order_ne'],
         # degrees -> metres exactly for geographic systems (whatever their axis order), 1 for every projected system
         ensures=['result == (111319.4907932736 if srs.is_latlong else 1)'],
         must_fail='result == 1')


# ---- KML: the rectangle advertised for a sub tile is the FULL rectangle of the tile that is served ---------------------------
def _kml_subtile(ex, st, k):
    import z3
    from pyvc.values import eq, VNone, VSeq
    evs_ = st.trace[getattr(st, 'iter_start_trace', 0):]
    pre = st.iter_start_state
    coord0 = pre.env['coord']          # opt[tuple]: the internal address produced by the grid for this iteration
    tb = [e for e in evs_ if e.name == 'tile_bbox']
    wgs = [e for e in evs_ if e.name in ('_tile_bbox_to_wgs', 'KMLServer._tile_bbox_to_wgs')]
    sub = [e for e in evs_ if e.name in ('SubTile', '__init__')]
    ext = [e for e in evs_ if e.name == 'external_tile_coord']
    flp = [e for e in evs_ if e.name == 'flip_tile_coord']
    ok = True
    for e in tb:
        a = [x for x in e.args if x is not e.recv]
        ok = ok and len(a) == 1 and not e.kwargs
    if sub:
        ok = ok and len(tb) == 1 and len(wgs) == 1 and len(sub) == 1 and len(ext) == 1
        if ok:
            wa = [x for x in wgs[0].args if x is not wgs[0].recv][:1]      # first argument: the rectangle (second: the grid)
            ok = any(x is tb[0].result or (hasattr(x, 'val') and x.val is tb[0].result) for x in wa) and sub[0].args[-1] is wgs[0].result
    yield ('kml_subtile_full_rectangle', z3.BoolVal(bool(ok)),
           'each advertised sub tile: bbox = grid.tile_bbox(coord) without limit (the full rectangle of the tile that is '
           'served at that address), transformed to WGS84, attached to the external address of that very coord')
    # --- which sub tiles are advertised, and under which address
    s0, s1 = pre.env['subtiles'], st.env['subtiles']
    bbox = st.env['bbox']
    isnone = coord0.isnone if hasattr(coord0, 'isnone') else z3.BoolVal(isinstance(coord0, VNone))
    if not tb:
        yield ('kml_only_missing_coords_skipped', z3.And(isnone, s1.length() == s0.length()),
               'only a coordinate the grid reports as outside (None) is skipped without looking at its rectangle')
        return
    c_in = coord0.val if hasattr(coord0, 'isnone') else coord0
    sb = tb[0].result
    delta = z3.RealVal('-1/10000000')
    inside = z3.And(sb.items[0].t - bbox.items[0].t > delta, sb.items[1].t - bbox.items[1].t > delta)
    g_tb = eq([x for x in tb[0].args if x is not tb[0].recv][0], c_in)
    yield ('kml_rectangle_of_this_coord', z3.And(z3.Not(isnone), g_tb), 'the rectangle examined is that of this very coordinate')
    grew = z3.And(s1.length() == s0.length() + 1, eq(s1.elem(s0.length()), sub[0].result)) if len(sub) == 1 else z3.BoolVal(False)
    same = z3.And(s1.length() == s0.length(), z3.BoolVal(not sub))
    yield ('kml_subtile_iff_lower_left_inside', z3.If(inside, grew, same),
           'a sub tile is advertised exactly when its lower-left corner lies inside the rectangle of the parent tile (so every '
           'child appears in exactly one parent document), and then exactly once')
    if len(sub) == 1 and len(ext) == 1:
        origin = ex.opaque_field(pre, ex.opaque_field(pre, st.env['layer'], 'grid'), 'origin')
        from pyvc.values import VStr
        lower = z3.Or(origin.isnone, eq(origin.val, VStr('ll')), eq(origin.val, VStr('sw')))
        g = z3.And(eq(ext[0].args[-1] if not ext[0].kwargs.get('tile_coord') else ext[0].kwargs['tile_coord'], c_in),
                   z3.BoolVal('use_profiles' in ext[0].kwargs), z3.Not(ex.truth(st, ext[0].kwargs.get('use_profiles', VNone()))))
        if flp:
            addr = z3.And(z3.Not(lower), z3.BoolVal(len(flp) == 1 and flp[0].args[-1] is ext[0].result and sub[0].args[0] is flp[0].result))
        else:
            addr = z3.And(lower, z3.BoolVal(sub[0].args[0] is ext[0].result))
        yield ('kml_subtile_address', z3.And(g, addr),
               'the advertised address is the external (non-profile) address of this coordinate, y-flipped exactly for grids '
               'whose origin is not the lower left')


def _kml_children(ex, st, post, result):
    import z3
    from pyvc.values import eq, VInt
    tr_, layer = post.env['tile_request'], post.env['layer']
    tb = [e for i, e in T.evs(st, 'tile_bbox')]
    itc = [e for i, e in T.evs(st, 'internal_tile_coord')]
    gal = [e for i, e in T.evs(st, 'get_affected_level_tiles')]
    ok = len(itc) == 1 and len(gal) == 1 and len(tb) >= 1 and tb[0].recv is not None and tb[0].recv.t.eq(layer.t)
    g = z3.BoolVal(bool(ok))
    if ok:
        tile = ex.opaque_field_at(st, itc[0], tr_, 'tile')
        arg = itc[0].args[-1]
        g = z3.And(g, eq(arg.items[0], tile.items[0]), eq(arg.items[1], tile.items[1]), arg.items[2].t == tile.items[2].t + 1,
                   z3.Not(ex.truth(st, itc[0].kwargs['use_profiles'])) if 'use_profiles' in itc[0].kwargs else z3.BoolVal(False),
                   # the children are looked up in the rectangle of the parent, limited to the grid, on the next level
                   eq(gal[0].args[-2], tb[0].result) if hasattr(gal[0].args[-2], 'items') else z3.BoolVal(False),
                   gal[0].args[-1].t == itc[0].result.items[2].t if hasattr(gal[0].args[-1], 't') else z3.BoolVal(False),
                   z3.BoolVal('limit' in tb[0].kwargs), ex.truth(st, tb[0].kwargs.get('limit', VInt(0))),
                   z3.BoolVal(tb[0].args[-1].t.eq(tr_.t)))
    yield ('kml_children_from_next_level_in_parent_rectangle', g,
           'children = the tiles of level z+1 (internal numbering) that the grid reports for the rectangle of the requested tile')


contract('mapproxy.service.kml:KMLServer._get_subtiles', props=['C02'],
         types=dict(tile_request='opaque', layer='opaque'), returns='list[opaque]', default_callee='opaque',
         opaque_spec={'tile_bbox': {'returns': 'tuple[real,real,real,real]', 'pure': True},
                      'internal_tile_coord': {'returns': 'tuple[int,int,int]', 'pure': True},
                      'get_affected_level_tiles': {'returns': 'tuple[opaque,opaque,list[opt[tuple[int,int,int]]]]', 'pure': True},
                      '_tile_bbox_to_wgs': {'pure': True}, 'external_tile_coord': {'pure': True}, 'flip_tile_coord': {'pure': True},
                      'SubTile': {'pure': True}},
         opaque=['_tile_bbox_to_wgs', 'SubTile', 'tile_bbox', 'internal_tile_coord', 'external_tile_coord', 'flip_tile_coord',
                 'get_affected_level_tiles'],
         opaque_fields={'tile': 'tuple[int,int,int]', 'grid': 'opaque', 'origin': 'opt[str]'}, stable_fields=['tile', 'grid', 'origin'],
         loops={0: dict(inv=[], types={'subtiles': 'list[opaque]'}, body_trace=[_kml_subtile])},
         trace=[_kml_children])
