"""C03 - tile grids tile the plane: contracts on mapproxy.grid (also used by C01, C02, C04, C16)."""
from pyvc.api import contract, loop, ghost, lemma
from . import shared_grid  # noqa
G = 'mapproxy.grid:'

# exact (real-arithmetic) edges of tile (x, y, z) of grid g -- the oracle every tile_bbox user is held to
ghost('tb_x0', ['g', 'x', 'z'], "g.bbox[0] + x * g.resolutions[z] * g.tile_size[0]")
ghost('tb_x1', ['g', 'x', 'z'], "g.bbox[0] + (x + 1) * g.resolutions[z] * g.tile_size[0]")
ghost('tb_y0', ['g', 'y', 'z'], """(g.bbox[3] - (y + 1) * g.resolutions[z] * g.tile_size[1]) if g.flipped_y_axis
                                   else (g.bbox[1] + y * g.resolutions[z] * g.tile_size[1])""")
ghost('tb_y1', ['g', 'y', 'z'], """(g.bbox[3] - y * g.resolutions[z] * g.tile_size[1]) if g.flipped_y_axis
                                   else (g.bbox[1] + (y + 1) * g.resolutions[z] * g.tile_size[1])""")

# exact point -> tile index functions (the oracle for tile())
ghost('col_of', ['g', 'x', 'z'], "floor((x - g.bbox[0]) / (g.resolutions[z] * g.tile_size[0]))")
ghost('row_of', ['g', 'y', 'z'], """floor((g.bbox[3] - y) / (g.resolutions[z] * g.tile_size[1])) if g.flipped_y_axis
                                    else floor((y - g.bbox[1]) / (g.resolutions[z] * g.tile_size[1]))""")

contract(G + 'TileGrid.flip_tile_coord', props=['C03', 'C02'],
         types=dict(tile_coord='tuple[int,int,int|str]'), returns='tuple[int,int,int|str]',
         requires=['grid_wf(self)', 'level_ok(self, tile_coord[2])'],
         ensures=['result[0] == tile_coord[0] and result[2] == tile_coord[2]',
                  'result[1] == self.grid_sizes[tile_coord[2]][1] - 1 - tile_coord[1]',
                  # in-grid tiles stay in the grid
                  'implies(0 <= tile_coord[1] < self.grid_sizes[tile_coord[2]][1], 0 <= result[1] < self.grid_sizes[tile_coord[2]][1])'],
         must_fail='result[1] == tile_coord[1]')

lemma('flip_involution', ['C03', 'C02'], doc='flip(flip(t)) == t for every grid height',
      fn=lambda z3: ([], z3.ForAll([z3.Int('gh'), z3.Int('y')], z3.Int('gh') - 1 - (z3.Int('gh') - 1 - z3.Int('y')) == z3.Int('y'))))

contract(G + 'TileGrid.tile_bbox', props=['C03', 'C01', 'C02', 'C04'],
         types=dict(tile_coord='tuple[int,int,int|str]', limit='bool'), returns='tuple[real,real,real,real]',
         requires=['grid_wf(self)', 'level_ok(self, tile_coord[2])', 'limit == False'],
         ensures=[
             'abs(result[0] - tb_x0(self, tile_coord[0], tile_coord[2])) <= 1e-12',
             'abs(result[2] - tb_x1(self, tile_coord[0], tile_coord[2])) <= 2e-12',
             'abs(result[1] - tb_y0(self, tile_coord[1], tile_coord[2])) <= 2e-12',
             'abs(result[3] - tb_y1(self, tile_coord[1], tile_coord[2])) <= 2e-12',
         ],
         # limit=True (KML, tile services): the same rectangle cut to the grid extent - never larger than the tile, never outside the grid
         variants=[{},
                   dict(requires=['grid_wf(self)', 'level_ok(self, tile_coord[2])', 'limit == True'], must_fail=None,
                        ensures=['abs(result[0] - max(tb_x0(self, tile_coord[0], tile_coord[2]), self.bbox[0])) <= 1e-12',
                                 'abs(result[2] - min(tb_x1(self, tile_coord[0], tile_coord[2]), self.bbox[2])) <= 2e-12',
                                 'abs(result[1] - max(tb_y0(self, tile_coord[1], tile_coord[2]), self.bbox[1])) <= 2e-12',
                                 'abs(result[3] - min(tb_y1(self, tile_coord[1], tile_coord[2]), self.bbox[3])) <= 2e-12',
                                 'result[0] >= self.bbox[0] and result[1] >= self.bbox[1] and result[2] <= self.bbox[2] and result[3] <= self.bbox[3]'])],
         must_fail='result[0] == self.bbox[0]')

contract(G + 'TileGrid.tile', props=['C03'],
         types=dict(x='real', y='real', level='int'), returns='tuple[int,int,int]',
         requires=['grid_wf(self)', 'valid_level(self, level)'],
         ensures=[
             'result[0] == col_of(self, x, level) and result[1] == row_of(self, y, level) and result[2] == level',
             # the tile found for a point contains that point (half open, exact arithmetic)
             'tb_x0(self, result[0], level) <= x and x < tb_x1(self, result[0], level)',
             'implies(not self.flipped_y_axis, tb_y0(self, result[1], level) <= y and y < tb_y1(self, result[1], level))',
             'implies(self.flipped_y_axis, tb_y0(self, result[1], level) < y and y <= tb_y1(self, result[1], level))',
         ],
         must_fail='result[0] == 0')

contract(G + 'TileGrid.limit_tile', props=['C16', 'C03', 'C09'],
         types=dict(tile_coord='tuple[int,int,int|str]'), returns='opt[tuple[int,int,int|str]]',
         requires=['grid_wf(self)'],
         ensures=[
             """iff(result is not None,
                    level_ok(self, tile_coord[2]) and 0 <= tile_coord[0] < self.grid_sizes[tile_coord[2]][0]
                     and 0 <= tile_coord[1] < self.grid_sizes[tile_coord[2]][1])""",
             'implies(result is not None, result == tile_coord)'],
         must_fail='result is None')

contract('mapproxy.srs:merge_bbox', props=['C03'],
         types=dict(bbox1='tuple[real,real,real,real]', bbox2='tuple[real,real,real,real]'),
         returns='tuple[real,real,real,real]',
         ensures=['result[0] == min(bbox1[0], bbox2[0]) and result[1] == min(bbox1[1], bbox2[1])',
                  'result[2] == max(bbox1[2], bbox2[2]) and result[3] == max(bbox1[3], bbox2[3])'],
         must_fail='result[0] == bbox1[0]')

contract(G + 'TileGrid._tiles_bbox', props=['C03', 'C01', 'C04'],
         types=dict(tiles='list[tuple[int,int,int]]'), returns='tuple[real,real,real,real]',
         requires=['grid_wf(self)', 'len(tiles) >= 1', 'valid_level(self, tiles[0][2])',
                   'valid_level(self, tiles[len(tiles) - 1][2])'],
         ensures=[
             'abs(result[0] - min(tb_x0(self, tiles[0][0], tiles[0][2]), tb_x0(self, tiles[len(tiles)-1][0], tiles[len(tiles)-1][2]))) <= 2e-12',
             'abs(result[1] - min(tb_y0(self, tiles[0][1], tiles[0][2]), tb_y0(self, tiles[len(tiles)-1][1], tiles[len(tiles)-1][2]))) <= 2e-12',
             'abs(result[2] - max(tb_x1(self, tiles[0][0], tiles[0][2]), tb_x1(self, tiles[len(tiles)-1][0], tiles[len(tiles)-1][2]))) <= 2e-12',
             'abs(result[3] - max(tb_y1(self, tiles[0][1], tiles[0][2]), tb_y1(self, tiles[len(tiles)-1][1], tiles[len(tiles)-1][2]))) <= 2e-12',
         ],
         must_fail='result[0] == result[2]')

# ---- _create_tile_list: row-major list, out-of-grid positions are None ------------------------------------
ghost('ctl_elem', ['xs', 'ys', 'level', 'gs', 'm'], """
    None if (xs[m % len(xs)] < 0 or ys[m // len(xs)] < 0 or xs[m % len(xs)] >= gs[0] or ys[m // len(xs)] >= gs[1])
    else (xs[m % len(xs)], ys[m // len(xs)], level)""")

contract(G + '_create_tile_list', props=['C03', 'C01', 'C04', 'C16'],
         types=dict(xs='list[int]', ys='list[int]', level='int', grid_size='tuple[int,int]'),
         returns='list[opt[tuple[int,int,int]]]',
         ensures=['len(result) == len(ys) * len(xs)',
                  'forall(lambda m: implies(0 <= m < len(result), result[m] == ctl_elem(xs, ys, level, grid_size, m)))'],
         loops={
             0: dict(yield_type='opt[tuple[int,int,int]]', inv=[
                 'len(yielded) == _k * len(xs)',
                 'forall(lambda m: implies(0 <= m < len(yielded), yielded[m] == ctl_elem(xs, ys, level, grid_size, m)))']),
             1: dict(yield_type='opt[tuple[int,int,int]]', inv=[
                 'len(yielded) == _k0 * len(xs) + _k',
                 'implies(_k < len(xs), (_k0 * len(xs) + _k) % len(xs) == _k and (_k0 * len(xs) + _k) // len(xs) == _k0)',
                 'forall(lambda m: implies(0 <= m < len(yielded), yielded[m] == ctl_elem(xs, ys, level, grid_size, m)))']),
         },
         must_fail='len(result) == 0')

# ---- _tile_iter: the rectangle of tiles x0..x1 / y0..y1, row by row from the top -----------------------------
# element m of the tile list: column m % w, row m // w counted from the top
ghost('ti_elem', ['g', 'x0', 'ytop', 'w', 'level', 'm'], """
    None if (x0 + m % w < 0 or ti_y(g, ytop, m // w) < 0 or x0 + m % w >= g.grid_sizes[level][0]
             or ti_y(g, ytop, m // w) >= g.grid_sizes[level][1])
    else (x0 + m % w, ti_y(g, ytop, m // w), level)""")
# y index of row r (r = 0 is the top row): decreasing y for south-west origin, increasing for north-west origin
ghost('ti_y', ['g', 'ytop', 'r'], "(ytop + r) if g.flipped_y_axis else (ytop - r)")

contract(G + 'TileGrid._tile_iter', props=['C03', 'C01'],
         types=dict(x0='int', y0='int', x1='int', y1='int', level='int'),
         returns='tuple[tuple[real,real,real,real],tuple[int,int],list[opt[tuple[int,int,int]]]]',
         requires=['grid_wf(self)', 'valid_level(self, level)'],
         raises={'IndexError': 'x1 < x0 or (y0 < y1 if self.flipped_y_axis else y1 < y0)'},
         ensures=[
             'x0 <= x1 and (y1 <= y0 if self.flipped_y_axis else y0 <= y1)',
             # y1 is the top row in both numbering conventions (callers pass y0 = south edge, y1 = north edge)
             'result[1][0] == x1 - x0 + 1 and result[1][1] == ((y0 - y1 + 1) if self.flipped_y_axis else (y1 - y0 + 1))',
             'len(result[2]) == result[1][0] * result[1][1]',
             'forall(lambda m: implies(0 <= m < len(result[2]), result[2][m] == ti_elem(self, x0, y1, x1 - x0 + 1, level, m)))',
             'abs(result[0][0] - tb_x0(self, x0, level)) <= 2e-12 and abs(result[0][2] - tb_x1(self, x1, level)) <= 2e-12',
             'abs(result[0][1] - tb_y0(self, y0, level)) <= 2e-12 and abs(result[0][3] - tb_y1(self, y1, level)) <= 2e-12',
         ],
         must_fail='result[1][0] == 1')

# the tolerance against tiles that are merely touched: a tenth of a pixel, but never more than a tenth of the rectangle itself
ghost('inset', ['g', 'bbox', 'level'], "min(g.resolutions[level], bbox[2] - bbox[0], bbox[3] - bbox[1]) / 10")

contract(G + 'TileGrid.get_affected_level_tiles', props=['C03', 'C01'],
         types=dict(bbox='tuple[real,real,real,real]', level='int'),
         returns='tuple[tuple[real,real,real,real],tuple[int,int],list[opt[tuple[int,int,int]]]]',
         requires=['grid_wf(self)', 'valid_level(self, level)'],
         # only a rectangle without area is refused (S47: a rectangle thinner than 2/10 pixel across a tile edge used to raise
         # GridError('Invalid BBOX') because the fixed 1/10-pixel inset swapped its corners)
         raises={'GridError': 'bbox[2] - bbox[0] <= 0 or bbox[3] - bbox[1] <= 0'},
         ensures=[
             # the listed block covers the rectangle inset by 1/10 pixel - by 1/10 of its own width/height where that is smaller,
             # so that never more than a tenth of the rectangle is left out (S47) ...
             'result[0][0] <= bbox[0] + inset(self, bbox, level) + 2e-12',
             'result[0][2] > bbox[2] - inset(self, bbox, level) - 2e-12',
             'result[0][1] <= bbox[1] + inset(self, bbox, level) + 2e-12',
             'result[0][3] >= bbox[3] - inset(self, bbox, level) - 2e-12',
             # ... and contains no column/row that merely touches it: the first/last column and row overlap
             # the inset rectangle (block edge one tile span inside is already inside the rectangle)
             'result[0][0] + self.resolutions[level] * self.tile_size[0] > bbox[0] + inset(self, bbox, level) - 4e-12',
             'result[0][2] - self.resolutions[level] * self.tile_size[0] <= bbox[2] - inset(self, bbox, level) + 4e-12',
             'result[0][1] + self.resolutions[level] * self.tile_size[1] >= bbox[1] + inset(self, bbox, level) - 4e-12',
             'result[0][3] - self.resolutions[level] * self.tile_size[1] <= bbox[3] - inset(self, bbox, level) + 4e-12',
             # the list is the full block, row by row from the top, out-of-grid positions None
             'len(result[2]) == result[1][0] * result[1][1] and result[1][0] >= 1 and result[1][1] >= 1',
             """forall(lambda m: implies(0 <= m < len(result[2]), result[2][m] == ti_elem(self,
                           col_of(self, bbox[0] + inset(self, bbox, level), level),
                           row_of(self, bbox[3] - inset(self, bbox, level), level), result[1][0], level, m)))""",
             """abs(result[0][0] - tb_x0(self, col_of(self, bbox[0] + inset(self, bbox, level), level), level)) <= 2e-12
                and abs(result[0][3] - tb_y1(self, row_of(self, bbox[3] - inset(self, bbox, level), level), level)) <= 2e-12""",
         ],
         must_fail='result[1][0] == 1')

contract(G + 'get_resolution', props=['C03'],
         types=dict(bbox='tuple[real,real,real,real]', size='tuple[int,int]'), returns='real',
         requires=['size[0] > 0 and size[1] > 0'],
         ensures=['result == min(abs(bbox[0] - bbox[2]) / size[0], abs(bbox[1] - bbox[3]) / size[1])'],
         must_fail='result == 0')

contract(G + 'bbox_intersects', props=['C03', 'C17'],
         types=dict(one='tuple[real,real,real,real]', two='tuple[real,real,real,real]'), returns='bool',
         ensures=['result == (one[0] < two[2] and one[2] > two[0] and one[1] < two[3] and one[3] > two[1])'],
         must_fail='result')

contract(G + 'bbox_contains', props=['C03', 'C17'],
         types=dict(one='tuple[real,real,real,real]', two='tuple[real,real,real,real]'), returns='bool',
         ensures=["""result == (two[0] - one[0] >= -abs(one[2] - one[0]) / 10e12 and two[1] - one[1] >= -abs(one[3] - one[1]) / 10e12
                               and two[2] - one[2] <= abs(one[2] - one[0]) / 10e12 and two[3] - one[3] <= abs(one[3] - one[1]) / 10e12)""",
                  # exact containment implies the answer True; True implies containment up to the declared tolerance
                  'implies(one[0] <= two[0] and one[1] <= two[1] and two[2] <= one[2] and two[3] <= one[3], result)'],
         must_fail='result')

# ---- level choice -------------------------------------------------------------------------------------------
# resolutions strictly decreasing, stated in the two-index form so that no induction is needed
ghost('res_decreasing', ['g'], "forall(lambda i, j: implies(0 <= i and i < j and j < g.levels, g.resolutions[i] > g.resolutions[j]))")

contract(G + 'TileGrid.closest_level', props=['C03'],
         types=dict(res='real'), returns='int',
         requires=['grid_wf(self)', 'res_decreasing(self)', 'res > 0', 'self.stretch_factor >= 1',
                   'self.threshold_res is None'],
         ensures=[
             '0 <= result < self.levels',
             # the level closest above the requested resolution, if it is within the stretch factor
             """forall(lambda f: implies(0 <= f < self.levels and self.resolutions[f] >= res
                       and (f == self.levels - 1 or self.resolutions[f + 1] < res)
                       and self.resolutions[f] <= res * self.stretch_factor, result == f))""",
             # otherwise the coarsest finer level
             """forall(lambda f: implies(0 <= f < self.levels and self.resolutions[f] < res
                       and (f == 0 or self.resolutions[f - 1] > res * self.stretch_factor), result == f))""",
             # the finest level if none is fine enough
             'implies(self.resolutions[self.levels - 1] > res * self.stretch_factor, result == self.levels - 1)',
         ],
         loops={1: dict(types={'threshold_result': 'opt[int]', 'thresholds': 'list[real]', 'threshold': 'opt[real]'}, inv=[
             'implies(threshold_result is None, forall(lambda j: implies(0 <= j < _k, self.resolutions[j] > res * self.stretch_factor)))',
             'implies(threshold_result is not None, threshold_result == _k - 1 and _k >= 1 and self.resolutions[_k - 1] <= res * self.stretch_factor)',
             'forall(lambda j: implies(1 <= j < _k, self.resolutions[j - 1] > res * self.stretch_factor or self.resolutions[j] >= res))',
             'threshold is None and len(thresholds) == 0',
         ])},
         must_fail='result == 0')

ghost('is_closest_level', ['g', 'res', 'lvl'], """
    0 <= lvl < g.levels
    and forall(lambda f: implies(0 <= f < g.levels and g.resolutions[f] >= res
               and (f == g.levels - 1 or g.resolutions[f + 1] < res)
               and g.resolutions[f] <= res * g.stretch_factor, lvl == f))
    and forall(lambda f: implies(0 <= f < g.levels and g.resolutions[f] < res
               and (f == 0 or g.resolutions[f - 1] > res * g.stretch_factor), lvl == f))
    and implies(g.resolutions[g.levels - 1] > res * g.stretch_factor, lvl == g.levels - 1)""")

def _reprojected_request(ex, st, post, result):
    """variant with a request SRS: the rectangle used for choosing the level and the tiles is the request bbox transformed
    from the request SRS to the grid SRS - exactly when the two differ - and it is what is returned"""
    import z3
    from pyvc.values import eq, VSeq
    req_srs = post.env['req_srs']
    own = st.heap[post.env['self'].ref]['srs']
    tr = [e for i, e in _T2.evs(st, 'transform_bbox_to')]
    differ = z3.And(ex.truth(st, req_srs), z3.Not(eq(req_srs, own)))
    goal = z3.BoolVal(len(tr) <= 1 and isinstance(result, VSeq))
    if tr:
        goal = z3.And(goal, differ, z3.BoolVal(tr[0].recv is not None and tr[0].recv.t.eq(req_srs.t) and tr[0].args[-1] is post.env['bbox']
                                               and result.items[0] is tr[0].result), eq(tr[0].args[0], own))
    else:
        goal = z3.And(goal, z3.Not(differ), z3.BoolVal(result.items[0] is post.env['bbox']))
    yield ('request_rectangle_in_grid_srs', goal,
           'req_srs given and different from the grid SRS <=> bbox is transformed by req_srs.transform_bbox_to(grid.srs, bbox); the '
           'transformed (or original) rectangle is returned together with the level chosen for ITS resolution')


from pyvc import tracelib as _T2  # noqa
contract(G + 'TileGrid.get_affected_bbox_and_level', props=['C03', 'C01'],
         variants=[{},
                   dict(types=dict(bbox='tuple[real,real,real,real]', size='tuple[int,int]', req_srs='opaque'),
                        # assumed about SRS.transform_bbox_to (pyproj): the image of a proper rectangle is a proper rectangle
                        opaque_spec={'transform_bbox_to': {'returns': 'tuple[real,real,real,real]', 'pure': True,
                                                           'effect': lambda ex, s2, ev: s2.assume(__import__('z3').And(
                                                               ev.result.items[0].t < ev.result.items[2].t,
                                                               ev.result.items[1].t < ev.result.items[3].t))}},
                        raises={'NoTiles': True}, must_fail=None,
                        ensures=['is_closest_level(self, min((result[0][2] - result[0][0]) / size[0], (result[0][3] - result[0][1]) / size[1]), result[1])'],
                        trace=[_reprojected_request])],
         types=dict(bbox='tuple[real,real,real,real]', size='tuple[int,int]', req_srs='none'),
         returns='tuple[tuple[real,real,real,real],int]',
         requires=['grid_wf(self)', 'res_decreasing(self)', 'self.stretch_factor >= 1', 'self.threshold_res is None',
                   'size[0] > 0 and size[1] > 0', 'bbox[0] < bbox[2] and bbox[1] < bbox[3]'],
         raises={'NoTiles': """not (self.bbox[0] < bbox[2] and self.bbox[2] > bbox[0] and self.bbox[1] < bbox[3] and self.bbox[3] > bbox[1])
                               or min((bbox[2] - bbox[0]) / size[0], (bbox[3] - bbox[1]) / size[1]) > self.resolutions[0] * self.max_shrink_factor"""},
         ensures=['result[0] == bbox',
                  'is_closest_level(self, min((bbox[2] - bbox[0]) / size[0], (bbox[3] - bbox[1]) / size[1]), result[1])',
                  'self.bbox[0] < bbox[2] and self.bbox[2] > bbox[0] and self.bbox[1] < bbox[3] and self.bbox[3] > bbox[1]'],
         must_fail='result[1] == 0')

# ---- origin handling ----------------------------------------------------------------------------------------
ghost('origin_norm', ['o'], "'ll' if (o is None or str_lower(o) == 'll' or str_lower(o) == 'sw') else 'ul'",
      concrete=lambda o: __import__('mapproxy.grid', fromlist=['x']).origin_from_string(o))
contract(G + 'origin_from_string', props=['C03', 'C02'],
         types=dict(origin='opt[str]'), returns='str',
         raises={'ValueError': "origin is not None and str_lower(origin) != 'll' and str_lower(origin) != 'sw' and str_lower(origin) != 'ul' and str_lower(origin) != 'nw'"},
         ensures=['result == origin_norm(origin)', "result == 'll' or result == 'ul'",
                  "origin is None or str_lower(origin) == 'll' or str_lower(origin) == 'sw' or str_lower(origin) == 'ul' or str_lower(origin) == 'nw'"],
         must_fail="result == 'll'")

ghost('level_aligned', ['g', 'l'], """
    abs((g.bbox[3] - g.bbox[1]) - g.grid_sizes[l][1] * g.tile_size[1] * g.resolutions[l])
        <= max(abs(g.bbox[1]), abs(g.bbox[3])) / 1e12 + 4e-12""")

contract(G + 'TileGrid.supports_access_with_origin', props=['C03', 'C02'],
         types=dict(origin='str'), returns='bool',
         requires=['grid_wf(self)'],
         raises={'ValueError': "str_lower(origin) != 'll' and str_lower(origin) != 'sw' and str_lower(origin) != 'ul' and str_lower(origin) != 'nw'"},
         ensures=[
             # offered  =>  same numbering, or on EVERY level the tile rows end exactly at the grid bbox,
             # which is what makes flipping preserve the ground rectangle (lemma flip_preserves_bbox)
             'implies(result, origin_norm(origin) == self.origin or forall(lambda l: implies(0 <= l < self.levels, level_aligned(self, l))))',
             'implies(origin_norm(origin) == self.origin, result)'],
         loops={0: dict(inv=['forall(lambda l: implies(0 <= l < _k, level_aligned(self, l)))'])},
         must_fail='result')

lemma('flip_preserves_bbox', ['C03', 'C02'],
      doc='if gh*th*res == height (within d) then tile y in ll numbering and gh-1-y in ul numbering have the same '
          'y-range within d',
      fn=lambda z3: (lambda b1, b3, gh, th, res, y, d: (
          [gh >= 1, th >= 1, res > 0, d >= 0, z3.And((b3 - b1) - z3.ToReal(gh * th) * res <= d, z3.ToReal(gh * th) * res - (b3 - b1) <= d)],
          z3.And((b1 + z3.ToReal(y * th) * res) - (b3 - z3.ToReal((gh - 1 - y + 1) * th) * res) <= d,
                 (b3 - z3.ToReal((gh - 1 - y + 1) * th) * res) - (b1 + z3.ToReal(y * th) * res) <= d)))(
          z3.Real('b1'), z3.Real('b3'), z3.Int('gh'), z3.Int('th'), z3.Real('res'), z3.Int('y'), z3.Real('d')))

# ---- grid sizes per level -------------------------------------------------------------------------------------
# what `_calc_grids` guarantees for one level: at least one tile, no superfluous column/row, and the tiles reach
# to within one pixel of the far edge (width // res drops a partial pixel: suspect S11, see cover_exact below)
ghost('calc_grid_rel', ['ext', 'ts', 'res', 'n'], """
    n >= 1 and n * ts * res > ext - res and (n == 1 or (n - 1) * ts * res < ext)""")

contract(G + 'TileGrid._calc_grids', props=['C03'],
         types={}, returns='gridlist[tuple[int,int]]',
         requires=['self.bbox[0] < self.bbox[2] and self.bbox[1] < self.bbox[3]',
                   'self.tile_size[0] >= 1 and self.tile_size[1] >= 1',
                   'forall(lambda l: implies(0 <= l < len(self.resolutions), self.resolutions[l] > 0))'],
         ensures=[
             'len(result) == len(self.resolutions)',
             """forall(lambda l: implies(0 <= l < len(self.resolutions),
                   calc_grid_rel(self.bbox[2] - self.bbox[0], self.tile_size[0], self.resolutions[l], result[l][0])
                   and calc_grid_rel(self.bbox[3] - self.bbox[1], self.tile_size[1], self.resolutions[l], result[l][1])))""",
             # the property's wording: the tiles cover the WHOLE grid area (no uncovered strip at the far edge)
             """forall(lambda l: implies(0 <= l < len(self.resolutions),
                   result[l][0] * self.tile_size[0] * self.resolutions[l] >= self.bbox[2] - self.bbox[0]
                   and result[l][1] * self.tile_size[1] * self.resolutions[l] >= self.bbox[3] - self.bbox[1]))""",
         ],
         loops={0: dict(types={'grids': 'list[tuple[str,tuple[int,int]]]', 'x': 'int', 'y': 'int'}, inv=[
             'len(grids) == _k',
             """forall(lambda l: implies(0 <= l < _k,
                   calc_grid_rel(self.bbox[2] - self.bbox[0], self.tile_size[0], self.resolutions[l], grids[l][1][0])
                   and calc_grid_rel(self.bbox[3] - self.bbox[1], self.tile_size[1], self.resolutions[l], grids[l][1][1])))""",
             # levels at which the extent is a whole number of pixels are covered exactly (used for cover_exact)
             """forall(lambda l: implies(0 <= l < _k,
                   implies(floor((self.bbox[2] - self.bbox[0]) / self.resolutions[l]) == (self.bbox[2] - self.bbox[0]) / self.resolutions[l],
                           grids[l][1][0] * self.tile_size[0] * self.resolutions[l] >= self.bbox[2] - self.bbox[0])
                   and implies(floor((self.bbox[3] - self.bbox[1]) / self.resolutions[l]) == (self.bbox[3] - self.bbox[1]) / self.resolutions[l],
                           grids[l][1][1] * self.tile_size[1] * self.resolutions[l] >= self.bbox[3] - self.bbox[1])))""",
         ])},
         must_fail='len(result) == 0')


# ---- the composition used by every map request: bbox+size -> level -> tiles of that level -----------------------------------
from pyvc import tracelib as _T  # noqa


def _affected_chain(ex, st, post, result):
    import z3
    from pyvc.values import VSeq
    a = [e for i, e in _T.evs(st, 'get_affected_bbox_and_level', 'TileGrid.get_affected_bbox_and_level')]
    b = [e for i, e in _T.evs(st, 'get_affected_level_tiles', 'TileGrid.get_affected_level_tiles')]
    ok = len(a) == 1 and len(b) == 1 and isinstance(a[0].result, VSeq) and result is b[0].result
    goal = z3.BoolVal(bool(ok))
    if ok:
        aa = [x for x in a[0].args if x is not post.env['self']]
        bb = [x for x in b[0].args if x is not post.env['self']]
        ok2 = len(aa) == 2 and aa[0] is post.env['bbox'] and aa[1] is post.env['size'] and a[0].kwargs.get('req_srs') is post.env['req_srs'] \
            and len(bb) == 2 and bb[0] is a[0].result.items[0] and bb[1] is a[0].result.items[1]
        goal = z3.And(goal, z3.BoolVal(bool(ok2)))
    yield ('tiles_of_the_level_chosen_for_this_request', goal,
           'get_affected_tiles(bbox, size, req_srs) = get_affected_level_tiles(*get_affected_bbox_and_level(bbox, size, req_srs=req_srs))')


contract(G + 'TileGrid.get_affected_tiles', props=['C03', 'C01'],
         types=dict(bbox='opaque', size='opaque', req_srs='opaque'), returns='opaque', default_callee='opaque',
         opaque_spec={'get_affected_bbox_and_level': {'returns': 'tuple[opaque,opaque]', 'raises': ['NoTiles'], 'pure': True},
                      'get_affected_level_tiles': {'raises': ['GridError'], 'pure': True}},
         opaque=['get_affected_bbox_and_level', 'get_affected_level_tiles'],
         raises={'NoTiles': True, 'GridError': True},
         trace=[_affected_chain])
