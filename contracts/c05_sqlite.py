"""C05 - sqlite backends (MBTiles, GeoPackage): which database / which row serves which address in the bulk operations.
(The SQL text itself and sqlite's execution of it are outside; the orchestration around it is under contract.)"""
from pyvc.api import contract, cls, ghost, lemma
from pyvc import tracelib as T
from . import shared_grid  # noqa

TF = {'coord': 'opt[tuple[int,int,int]]', 'source': 'opt[opaque]'}


def _level_bulk_load(ex, st, post, result):
    """the level-dispatching bulk load may answer without asking a level database ONLY if no tile needs loading"""
    import z3
    tiles = post.env['tiles']
    deleg = [e for i, e in T.evs(st, 'load_tiles')]
    lvl = [e for i, e in T.evs(st, '_get_level')]
    if deleg or lvl:
        # delegated: to the database of the level of a tile that needs loading, with the whole list
        ok = len(deleg) == 1 and len(lvl) == 1 and deleg[0].args and deleg[0].args[0] is tiles
        yield ('bulk_load_delegates_whole_list', z3.BoolVal(bool(ok)),
               'the whole list goes to ONE level database (the level of the first tile that needs loading)')
        return
    sp = st.fork()
    sp.spec = True
    sp.env = {'tiles': tiles}
    goal = ex.spec_bool(sp, 'forall(lambda j: implies(0 <= j < len(tiles), bool(tiles[j].source) or tiles[j].coord is None))')
    yield ('no_database_asked_only_if_nothing_to_load',
           goal,
           'returning without asking a level database means every tile already has its source (or no address) - '
           'for every level, level 0 included')


for _k, _c in (('mapproxy.cache.mbtiles:', 'MBTilesLevelCache'), ('mapproxy.cache.geopackage:', 'GeopackageLevelCache')):
    cls(_k + _c, fields={})
    contract(_k + _c + '.load_tiles', props=['C05'],
             types=dict(tiles='list[opaque]', with_metadata='bool', dimensions='opaque'), returns='opaque',
             default_callee='opaque', opaque_fields=TF, stable_fields=list(TF),
             opaque_spec={'_get_level': {'pure': True}, 'load_tiles': {'pure': True}},
             opaque=['_get_level'],
             loops={0: dict(types={'level': 'opt[int]'},
                            inv=['level is None',
                                 'forall(lambda j: implies(0 <= j < _k, bool(tiles[j].source) or tiles[j].coord is None))'])},
             trace=[_level_bulk_load])


# ---- single-file databases: result rows are matched to the requested tiles by the FULL address --------------------------------
def _key_is_full_address(ex, st, k):
    import z3
    from pyvc.values import VSeq, eq
    evs_ = st.trace[getattr(st, 'iter_start_trace', 0):]
    sets = [e for e in evs_ if e.name == 'setitem']
    goal = z3.BoolVal(True)
    for e in sets:
        key, val = e.args[1], e.args[2]
        ok = isinstance(key, VSeq) and key.concrete and len(key.items) == 3 and val is st.env['tile']
        goal = z3.And(goal, z3.BoolVal(bool(ok)))
        if ok:
            coord = ex.opaque_field(st, st.env['tile'], 'coord')
            goal = z3.And(goal, eq(key, coord.val if hasattr(coord, 'val') else coord))
    yield ('tiles_indexed_by_full_address', goal,
           'the lookup table that matches result rows to tile objects is keyed by (column, row, level): two requested '
           'addresses never share an entry')


def _row_item(row, n, epochs):
    """row[n] of an unknown row object, at any epoch seen so far"""
    import z3
    from pyvc.values import ObjSort
    return [z3.Function('opaque_item_%s_%d' % (abs(hash(('i', n))), ep), ObjSort, ObjSort)(row.t) for ep in range(0, epochs + 1)]


def _row_lookup(ex, st, k):
    import z3
    from pyvc.values import VSeq, VOpaque
    evs_ = st.trace[getattr(st, 'iter_start_trace', 0):]
    row = st.env['row']
    gets = [e for e in evs_ if e.name == 'getitem' and isinstance(e.args[1], VSeq)]
    ok = len(gets) == 1 and gets[0].args[1].concrete and len(gets[0].args[1].items) == 3
    goal = z3.BoolVal(bool(ok))
    if ok:
        # the key is (row[0], row[1], row[2]) = (tile_column, tile_row, zoom_level) in the order of the SELECT list
        for n, it in enumerate(gets[0].args[1].items):
            goal = z3.And(goal, z3.Or([it.t == r for r in _row_item(row, n, st.epoch)]) if isinstance(it, VOpaque) else z3.BoolVal(False))
        # the bytes attached to THAT tile are row[3]
        srcs = [e for e in evs_ if e.name == 'setattr:source']
        blobs = [e for e in evs_ if e.name == 'BytesIO']
        ok2 = len(srcs) == 1 and srcs[0].args[0] is gets[0].result and len(blobs) == 1 and isinstance(blobs[0].args[0], VOpaque)
        goal = z3.And(goal, z3.BoolVal(bool(ok2)))
        if ok2:
            goal = z3.And(goal, z3.Or([blobs[0].args[0].t == r for r in _row_item(row, 3, st.epoch)]))
    # MBTiles with timestamps: the modification time of THIS row (5th selected column) becomes the tile's timestamp
    fi_name = str(getattr(st.fn, 'key', ''))
    if 'MBTilesCache' in fi_name and ok:
        h = st.heap[st.env['self'].ref]
        ts = [e for e in evs_ if e.name == 'setattr:timestamp']
        cv = [e for e in evs_ if e.name == 'sqlite_datetime_to_timestamp']
        g_ts = ex.truth(st, h['supports_timestamp']) == z3.BoolVal(len(ts) == 1)
        if len(ts) == 1:
            okt = len(cv) == 1 and ts[0].args[0] is gets[0].result and ts[0].args[1] is cv[0].result and isinstance(cv[0].args[0], VOpaque)
            g_ts = z3.And(g_ts, z3.BoolVal(bool(okt)))
            if okt:
                g_ts = z3.And(g_ts, z3.Or([cv[0].args[0].t == r for r in _row_item(row, 4, st.epoch)]))
        yield ('row_timestamp_goes_to_its_tile', g_ts,
               'with timestamp support the tile found for the row gets sqlite_datetime_to_timestamp(row[4]) - the last_modified '
               'column of that row - and no timestamp is set otherwise')
    yield ('row_matched_by_column_row_level', goal,
           'each result row is handed to the tile object found under the key (row[0], row[1], row[2]) - column, row, level as '
           'selected - and that tile gets the bytes row[3]')


def _wanted_coords_collected(ex, st, k):
    """a tile is queried exactly when it has no data yet and has an address; its column, row, level are appended in this order"""
    import z3
    from pyvc.values import eq
    pre = st.iter_start_state
    tile = st.env['tile']
    c0, c1 = pre.env['coords'], st.env['coords']
    coord = ex.opaque_field(pre, tile, 'coord')
    src = ex.opaque_field(pre, tile, 'source')
    skip = z3.Or(ex.truth(pre, src), coord.isnone)
    n0 = c0.length()
    i = z3.Int('i_wc')
    same_prefix = z3.ForAll([i], z3.Implies(z3.And(0 <= i, i < n0), c1.elem(i).t == c0.elem(i).t))
    grown = z3.And(c1.length() == n0 + 3, same_prefix, c1.elem(n0).t == coord.val.items[0].t,
                   c1.elem(n0 + 1).t == coord.val.items[1].t, c1.elem(n0 + 2).t == coord.val.items[2].t)
    sets = [e for e in st.trace[getattr(st, 'iter_start_trace', 0):] if e.name == 'setitem']
    yield ('queried_iff_missing_with_address', z3.If(skip, z3.And(c1.length() == n0, z3.BoolVal(not sets)),
                                                     z3.And(grown, z3.BoolVal(len(sets) == 1))),
           'the parameter list gets (column, row, level) of exactly the tiles that have no data yet and have an address, and each '
           'of them is entered in the lookup table')


def _chunk_is_whole_triples(ex, st, k):
    import z3
    from pyvc.values import eq
    pre = st.iter_start_state
    evs_ = st.trace[getattr(st, 'iter_start_trace', 0):]
    exe = [e for e in evs_ if e.name == 'execute']
    c0, c1 = pre.env['coords'], st.env['coords']
    cur = st.env['cur_coords']
    ok = len(exe) == 1 and len(exe[0].args) == 2 and exe[0].args[1] is cur and exe[0].args[0] is st.env['stmt']
    n0, m = c0.length(), cur.length()
    i = z3.Int('i_ch')
    g = z3.And(z3.BoolVal(bool(ok)), m % 3 == 0, m > 0, m <= 999, m == z3.If(n0 < 999, n0, 999),
               z3.ForAll([i], z3.Implies(z3.And(0 <= i, i < m), cur.elem(i).t == c0.elem(i).t)),
               # nothing is lost or repeated between the chunks
               c1.length() == n0 - m,
               z3.ForAll([i], z3.Implies(z3.And(0 <= i, i < n0 - m), c1.elem(i).t == c0.elem(i + m).t)))
    # one (column, row, level) placeholder group per triple of parameters
    def find(t):
        if z3.is_app(t) and t.decl().name() == 'str_join_rep':
            return t
        for c in (t.children() if z3.is_app(t) else []):
            r = find(c)
            if r is not None:
                return r
        return None
    rep = find(st.env['stmt'].t) if hasattr(st.env.get('stmt'), 't') else None
    g_ph = z3.BoolVal(False)
    if rep is not None and z3.is_string_value(rep.arg(1)):
        g_ph = z3.And(rep.arg(2) == m / 3, z3.BoolVal(rep.arg(1).as_string().count('?') == 3 and rep.arg(0).as_string() == ' OR '))
    yield ('one_placeholder_group_per_triple', g_ph,
           "the statement holds len(parameters) / 3 groups '(tile_column = ? AND tile_row = ? AND zoom_level = ?)' joined by OR")
    yield ('each_chunk_is_whole_address_triples', g,
           'every SELECT gets the next at most 999 parameters - a whole number of (column, row, level) triples, within the SQLite '
           'limit - and the remaining parameters are exactly the rest')


def _bulk_answer_db(ex, st, post, result):
    import z3
    from pyvc.values import VBool
    td = st.env.get('tile_dict')
    if 'loaded_tiles' not in st.env:
        # returned before any query: only with an empty lookup table, and then the answer is True
        g = z3.And(z3.Not(ex.truth(st, td)) if td is not None else z3.BoolVal(False), ex.truth(st, result))
        yield ('no_query_only_when_nothing_to_load', g, 'the database is not queried only when the lookup table is empty (answer True)')
    else:
        sp = st.fork()
        sp.spec = True
        want = ex.truth(sp, ex.ev1(sp, ex.reg.parse_spec('loaded_tiles == len(tile_dict)')))
        yield ('answer_counts_loaded_rows', z3.And(ex.truth(st, td) if td is not None else z3.BoolVal(False), ex.truth(st, result) == want),
               'after querying (the lookup table was non-empty) the answer is: as many rows were found as tiles were asked for')


for _k, _c in (('mapproxy.cache.mbtiles:', 'MBTilesCache'), ('mapproxy.cache.geopackage:', 'GeopackageCache')):
    cls(_k + _c, fields=dict(supports_timestamp='bool', ttl='int', table_name='opaque', db='opaque'))
    contract(_k + _c + '.load_tiles', props=['C05'],
             types=dict(tiles='list[opaque]', with_metadata='bool', dimensions='opaque'), returns='opaque',
             default_callee='opaque', opaque_fields=TF, stable_fields=['coord'],
             opaque_spec={'cursor': {'pure': True}, 'execute': {'pure': True}, 'close': {'pure': True}, 'ImageSource': {'pure': True},
                          'BytesIO': {'pure': True}, 'join': {'pure': True}, 'format': {'pure': True},
                          'sqlite_datetime_to_timestamp': {'pure': True}, 'append': {'pure': True}},
             loops={0: dict(inv=['len(coords) % 3 == 0'], types={'tile_dict': 'opaque', 'coords': 'list[int]'},
                            body_trace=[_key_is_full_address, _wanted_coords_collected]),
                    1: dict(inv=['len(coords) % 3 == 0', 'implies(_k == 0, loaded_tiles == 0)'],
                            types={'coords': 'list[int]', 'loaded_tiles': 'int', 'cur_coords': 'list[int]'},
                            body_trace=[_chunk_is_whole_triples]),
                    2: dict(inv=[], types={'loaded_tiles': 'int'}, body_trace=[_row_lookup])},
             trace=[_bulk_answer_db])
