"""Discharging one VC:  pc /\\ not goal  unsat?

Stages (each sound in the direction it is used):
  1. z3 on the full formula, short budget.
  2. if undecided: skolemise, instantiate the universally quantified hypotheses at the ground integer terms of
     the formula (two rounds) and solve the quantifier-free result.  unsat there => unsat of the original (the
     instances are consequences).  sat there is only a *candidate* counter-model (`approx`): the caller must
     confirm it by replay on the real code or by stage 3.
  3. z3 (long budget), cvc5, z3 4.8.12 on the full formula.
"""
import subprocess
import time

import z3

from .builtins import global_axioms


def _z3_check(formulas, timeout_ms):
    s = z3.Solver()
    s.set('timeout', int(timeout_ms))
    s.add(*formulas)
    try:
        r = s.check()
    except z3.Z3Exception:      # resource limit (memory_max_size): undecided, never a verdict
        r = z3.unknown
    return r, s


def _ground_int_terms(fs, limit=40):
    """integer-sorted ground subterms that occur as arguments of uninterpreted function applications"""
    seen = set()
    out = []
    stack = list(fs)
    visited = set()
    while stack:
        t = stack.pop()
        if t.get_id() in visited:
            continue
        visited.add(t.get_id())
        if z3.is_quantifier(t):
            continue
        if z3.is_app(t):
            d = t.decl()
            if d.kind() == z3.Z3_OP_UNINTERPRETED and t.num_args() > 0:
                for a in t.children():
                    if a.sort() == z3.IntSort() and _is_ground(a) and a.get_id() not in seen:
                        seen.add(a.get_id())
                        out.append(a)
            stack.extend(t.children())
    out.sort(key=lambda a: len(a.sexpr()))
    return out[:limit]


def _is_ground(t):
    stack = [t]
    n = 0
    while stack:
        x = stack.pop()
        n += 1
        if n > 200:
            return False
        if z3.is_var(x) or z3.is_quantifier(x):
            return False
        stack.extend(x.children())
    return True


def _split(fs):
    ground, quant = [], []
    for f in fs:
        if z3.is_and(f):
            g2, q2 = _split(f.children())
            ground += g2
            quant += q2
        elif z3.is_quantifier(f) and f.is_forall():
            quant.append(f)
        elif _has_quant(f):
            quant.append(f)
        else:
            ground.append(f)
    return ground, quant


def _has_quant(t):
    stack = [t]
    n = 0
    while stack:
        x = stack.pop()
        n += 1
        if n > 5000:
            return True
        if z3.is_quantifier(x):
            return True
        stack.extend(x.children())
    return False


def _triggers(body, nv):
    """uninterpreted applications in a quantifier body that have a bound variable as a direct argument:
    -> list of (decl, [(arg position, de-Bruijn index)])"""
    out = []
    seen = set()
    stack = [body]
    while stack:
        t = stack.pop()
        if t.get_id() in seen:
            continue
        seen.add(t.get_id())
        if z3.is_quantifier(t):
            continue        # nested quantifiers: handled when they surface
        if z3.is_app(t):
            if t.decl().kind() == z3.Z3_OP_UNINTERPRETED and t.num_args() > 0:
                pos = [(k, z3.get_var_index(a)) for k, a in enumerate(t.children()) if z3.is_var(a)]
                if pos:
                    out.append((t.decl(), pos))
            stack.extend(t.children())
    return out


def _ground_apps(fs):
    """decl name -> list of ground applications"""
    apps = {}
    seen = set()
    stack = list(fs)
    while stack:
        t = stack.pop()
        if t.get_id() in seen:
            continue
        seen.add(t.get_id())
        if z3.is_quantifier(t):
            continue
        if z3.is_app(t):
            if t.decl().kind() == z3.Z3_OP_UNINTERPRETED and t.num_args() > 0 and _is_ground(t):
                apps.setdefault(t.decl().name(), []).append(t)
            stack.extend(t.children())
    return apps


def instantiate(formulas, rounds=3, max_inst=400):
    """Trigger-based instantiation (a small E-matching): a universally quantified hypothesis is instantiated
    with the argument terms of ground applications f(t) for every application f(x) of a bound variable in its
    body.  -> (qf formulas, complete?)  `complete` is False whenever quantified formulas remain (then a `sat`
    answer on the result is only a candidate)."""
    g = z3.Goal()
    g.add(*formulas)
    try:
        sk = z3.Tactic('nnf')(g)[0]
        fs = [f for f in sk]
    except z3.Z3Exception:
        fs = list(formulas)
    ground, quant = _split(fs)
    done = set()
    leftover = False
    for _ in range(rounds):
        apps = _ground_apps(ground)
        new = []
        newq = []
        for q in quant:
            if not (z3.is_quantifier(q) and q.is_forall()):
                leftover = True
                continue
            nv = q.num_vars()
            trig = _triggers(q.body(), nv)
            cands = {i: [] for i in range(nv)}      # de-Bruijn index -> candidate terms
            for decl, pos in trig:
                for app in apps.get(decl.name(), []):
                    for k, idx in pos:
                        a = app.arg(k)
                        if idx < nv and a.sort() == q.var_sort(nv - 1 - idx) and not any(a.eq(x) for x in cands[idx]):
                            cands[idx].append(a)
            if any(not cands[i] for i in range(nv)):
                continue
            combos = [[]]
            for idx in range(nv):
                combos = [c + [t] for c in combos for t in cands[idx][:12]]
                if len(combos) > max_inst:
                    combos = combos[:max_inst]
            for c in combos:
                key = (q.get_id(),) + tuple(t.get_id() for t in c)
                if key in done:
                    continue
                done.add(key)
                # substitute_vars: i-th term replaces de-Bruijn index i
                inst = z3.substitute_vars(q.body(), *c)
                g2, q2 = _split([inst])
                new += g2
                newq += q2
        ground = ground + new
        quant = quant + [x for x in newq]
        if not new:
            break
    return ground, False if (quant or leftover) else True


def solve(pc, goal, timeout_ms, quick_ms=3000):
    """-> dict(verdict, model, ms, backend, why, approx)"""
    t0 = time.time()
    base = list(pc) + [z3.Not(goal)]
    probe = z3.Solver()
    probe.add(*base)
    axioms = global_axioms(probe.sexpr())
    full = base + axioms

    def done(verdict, model=None, backend='', why=None, approx=False, smt2=None):
        return {'verdict': verdict, 'model': model, 'ms': int((time.time() - t0) * 1000), 'backend': backend,
                'why': why, 'approx': approx}
    ver = 'z3-%s' % z3.get_version_string()
    if z3.is_false(z3.simplify(goal)):
        # a structural clause that is literally false on this path: the obligation holds only if the path is infeasible.
        # The executor keeps every path it cannot refute; give the solver a short look and otherwise report the refutation
        # (no model: nothing to replay) instead of spending minutes on an `unknown`.
        r0, s0 = _z3_check(full, min(10000, timeout_ms))
        if r0 == z3.unsat:
            return done('unsat', backend=ver)
        if r0 == z3.sat:
            return done('sat', s0.model(), ver)
        return done('sat', None, ver, why='clause is literally false on a path whose infeasibility could not be shown')
    r, s = _z3_check(full, min(quick_ms, timeout_ms))
    if r == z3.unsat:
        return done('unsat', backend=ver)
    if r == z3.sat:
        return done('sat', s.model(), ver)
    # ---- string-heavy queries: cvc5's string solver decides what z3's seq solver leaves open
    text = probe.sexpr()
    if 'str.' in text or 'String' in text:
        v5 = _cvc5(s.to_smt2(), min(15000, timeout_ms))
        if v5 == 'unsat':
            return done('unsat', backend='cvc5-cli(strings)')
    # ---- stage 2: manual instantiation
    cand = None
    try:
        qf, complete = instantiate(full)
        r2, s2 = _z3_check(qf, min(10000, timeout_ms))
        if r2 == z3.unsat:
            return done('unsat', backend=ver + '+inst')
        if r2 == z3.sat:
            if complete:
                return done('sat', s2.model(), ver + '+inst')
            cand = s2.model()
    except z3.Z3Exception:
        pass
    if cand is not None:
        return done('sat', cand, ver + '+inst', approx=True)
    return solve_full(full, min(timeout_ms, 30000) if timeout_ms <= 60000 else timeout_ms, t0)


def _limit_child():
    import resource
    try:
        resource.setrlimit(resource.RLIMIT_AS, (8 * 1024 ** 3, 8 * 1024 ** 3))
    except Exception:       # noqa
        pass


def _cvc5(smt2, tlimit_ms):
    try:
        p = subprocess.run(['/usr/bin/cvc5', '--lang=smt2', '--tlimit=%d' % tlimit_ms, '--strings-exp', '-'],
                           input='(set-logic ALL)\n' + smt2, capture_output=True, text=True, timeout=tlimit_ms / 1000.0 + 5,
                           preexec_fn=_limit_child)
        out = p.stdout.strip().splitlines()
        return out[0] if out else 'unknown'
    except Exception:       # noqa
        return 'unknown'


def solve_full(full, timeout_ms, t0=None):
    t0 = t0 or time.time()

    def done(verdict, model=None, backend='', why=None):
        return {'verdict': verdict, 'model': model, 'ms': int((time.time() - t0) * 1000), 'backend': backend,
                'why': why, 'approx': False}
    ver = 'z3-%s' % z3.get_version_string()
    r, s = _z3_check(full, timeout_ms)
    if r == z3.unsat:
        return done('unsat', backend=ver)
    if r == z3.sat:
        return done('sat', s.model(), ver)
    smt2 = s.to_smt2()
    t2 = max(1000, timeout_ms // 2)
    for name, cmd in (('cvc5-cli', ['/usr/bin/cvc5', '--lang=smt2', '--tlimit=%d' % t2, '--strings-exp',
                                    '--nl-ext-tplanes', '-']),
                      ('z3-4.8.12', ['/usr/bin/z3', '-smt2', '-T:%d' % max(1, t2 // 1000), '-in'])):
        try:
            text = smt2 if name != 'cvc5-cli' else '(set-logic ALL)\n' + smt2
            p = subprocess.run(cmd, input=text, capture_output=True, text=True, timeout=t2 / 1000.0 + 5, preexec_fn=_limit_child)
            out = p.stdout.strip().splitlines()
            if out and out[0] == 'unsat':
                return done('unsat', backend=name)
            if out and out[0] == 'sat':
                return done('sat', None, name)
        except Exception:       # noqa
            pass
    try:
        why = s.reason_unknown()
    except z3.Z3Exception:
        why = 'resource limit'
    return done('unknown', backend='z3+cvc5+z3-4.8.12', why=why)


def full_formulas(pc, goal):
    base = list(pc) + [z3.Not(goal)]
    probe = z3.Solver()
    probe.add(*base)
    return base + global_axioms(probe.sexpr())


def polish(pc, goal, timeout_ms=5000):
    """try to find a counter-model that does not live in the rounding slack: all round() perturbations zero.
    -> model or None"""
    fs = full_formulas(pc, goal)
    names = set()
    stack = list(fs)
    seen = set()
    consts = []
    while stack:
        t = stack.pop()
        if t.get_id() in seen:
            continue
        seen.add(t.get_id())
        if z3.is_quantifier(t):
            stack.append(t.body())
            continue
        if z3.is_const(t) and t.decl().kind() == z3.Z3_OP_UNINTERPRETED and t.decl().name().startswith('rerr!'):
            consts.append(t)
        stack.extend(t.children())
    if not consts:
        return None
    r, s = _z3_check(fs + [c == 0 for c in consts], timeout_ms)
    if r == z3.sat:
        return s.model()
    return None
