"""
C16 / defect 2: the WMS pixel limit (max_output_pixels) is checked as
``width * height > limit`` only.  A GetMap request with ONE negative dimension
(e.g. WIDTH=-2000&HEIGHT=2000, 4 000 000 pixels against a limit of 1 000 000) has a
negative product, passes the guard and is processed: for a cached layer MapProxy
fetches tiles from the upstream source and writes them to the cache before it dies
with an internal error, for an uncached layer the request is forwarded upstream
verbatim and the client gets HTTP 200.

Run:  cd /tmp/wt/hunt/C16 && /venv/bin/python demo.py
Exit code 1 while the defect exists, 0 once it is fixed.
"""
import os
import sys
sys.path.insert(0, os.getcwd())

import io
import logging
import shutil
import tempfile
import threading
from http.server import BaseHTTPRequestHandler, HTTPServer
from urllib.parse import urlparse, parse_qs

from PIL import Image

logging.disable(logging.CRITICAL)

UPSTREAM = []


class Upstream(BaseHTTPRequestHandler):
    def log_message(self, *a):
        pass

    def do_GET(self):
        UPSTREAM.append(self.path)
        q = dict((k.lower(), v[0]) for k, v in parse_qs(urlparse(self.path).query).items())
        w = max(1, min(abs(int(q.get('width', 256))), 4096))
        h = max(1, min(abs(int(q.get('height', 256))), 4096))
        buf = io.BytesIO()
        Image.new('RGB', (w, h), (255, 0, 0)).save(buf, 'png')
        body = buf.getvalue()
        self.send_response(200)
        self.send_header('Content-type', 'image/png')
        self.send_header('Content-length', str(len(body)))
        self.end_headers()
        self.wfile.write(body)


CONFIG = """
services:
  wms:
    srs: ['EPSG:25832']
    max_output_pixels: [1000, 1000]
layers:
  - name: cached
    title: cached
    sources: [c]
  - name: direct
    title: direct
    sources: [w]
caches:
  c:
    grids: [g]
    sources: [w]
    cache:
      type: file
      directory: %(tmp)s/cache
sources:
  w:
    type: wms
    req:
      url: http://127.0.0.1:%(port)d/service
      layers: foo
grids:
  g:
    srs: 'EPSG:25832'
    bbox: [300000, 5500000, 400000, 5600000]
    origin: nw
    res: [400, 200, 100, 50]
"""


def cache_files(directory):
    found = []
    for root, _dirs, names in os.walk(directory):
        if 'tile_locks' in root:
            continue
        found.extend(os.path.join(root, n) for n in names)
    return found


def main():
    from mapproxy.wsgiapp import make_wsgi_app
    from webtest import TestApp

    srv = HTTPServer(('127.0.0.1', 0), Upstream)
    threading.Thread(target=srv.serve_forever, daemon=True).start()
    tmp = tempfile.mkdtemp(prefix='c16_2_')
    cache_dir = os.path.join(tmp, 'cache')
    failures = []
    try:
        conf = os.path.join(tmp, 'mapproxy.yaml')
        with open(conf, 'w') as f:
            f.write(CONFIG % dict(tmp=tmp, port=srv.server_port))
        app = TestApp(make_wsgi_app(conf))

        def getmap(layer, width, height, bbox='300000,5500000,310000,5510000'):
            url = ('/service?service=WMS&version=1.1.1&request=GetMap&styles=&srs=EPSG:25832'
                   '&format=image/png&bbox=%s&layers=%s&width=%s&height=%s' % (bbox, layer, width, height))
            del UPSTREAM[:]
            before = set(cache_files(cache_dir))
            resp = app.get(url, expect_errors=True)
            written = set(cache_files(cache_dir)) - before
            return resp, list(UPSTREAM), written

        print('configured limit: max_output_pixels = 1000 x 1000 = 1000000')

        # control: the guard works for positive sizes
        for layer in ('cached', 'direct'):
            resp, up, written = getmap(layer, 2000, 2000)
            assert resp.status_int >= 400 and not up and not written, 'control (2000x2000) failed'
            print('control  layer=%-6s WIDTH=2000  HEIGHT=2000  -> HTTP %d, %d upstream, %d cache files (refused, as expected)'
                  % (layer, resp.status_int, len(up), len(written)))

        for layer, width, height, bbox in [('cached', -2000, 2000, '300000,5500000,310000,5510000'),
                                           ('cached', 2000, -2000, '380000,5580000,390000,5590000'),
                                           ('direct', -2000, 2000, '300000,5500000,310000,5510000'),
                                           ('direct', 3000, -3000, '300000,5500000,310000,5510000')]:
            resp, up, written = getmap(layer, width, height, bbox)
            refused = resp.status_int >= 400
            bad = (not refused) or up or written
            print('%s layer=%-6s WIDTH=%-5d HEIGHT=%-5d (|w*h| = %d px) -> HTTP %d %s, %d upstream request(s), %d cache file(s) written'
                  % ('FAIL' if bad else 'ok  ', layer, width, height, abs(width * height),
                     resp.status_int, resp.content_type, len(up), len(written)))
            if up:
                q = parse_qs(urlparse(up[0]).query)
                print('       first upstream request: WIDTH=%s HEIGHT=%s BBOX=%s'
                      % (q.get('width'), q.get('height'), q.get('bbox')))
            if bad:
                failures.append((layer, width, height))
    finally:
        srv.shutdown()
        srv.server_close()
        shutil.rmtree(tmp, ignore_errors=True)

    if failures:
        print('\nPROPERTY C16 VIOLATED: %d GetMap request(s) beyond the pixel limit (negative WIDTH or HEIGHT) '
              'were not refused up front: they reached the upstream source and/or wrote tiles to the cache.'
              % len(failures))
        return 1
    print('\nall GetMap requests with a negative size were refused without upstream request or cache write')
    return 0


if __name__ == '__main__':
    sys.exit(main())
