"""C14 (and the global-limit clause of C10) - layer composition and its shortcuts: LayerMerger.merge."""
from pyvc.api import contract, cls, ghost, lemma
from pyvc import tracelib as T
M = 'mapproxy.image.merge:'

cls(M + 'LayerMerger', fields=dict(layers='list[tuple[opaque,opt[opaque]]]', cacheable='bool'))

MF = {'transparent': 'bool', 'clip': 'bool', 'size': 'tuple[int,int]', 'cacheable': 'bool', 'opacity': 'opt[real]',
      'mode': 'str', 'image_opts': 'opt[opaque]'}


def _fast_path_guard(ex, st, post, result):
    """the single-layer shortcut (return the layer image itself, no recomposition) is taken only when recomposition
    would not change the picture"""
    import z3
    from pyvc.values import eq, VOpaque
    self_ = post.env['self']
    layers = st.heap[self_.ref]['layers']
    created = T.evs(st, 'create_image')
    blank = T.evs(st, 'BlankImageSource')
    if created or blank:
        return
    # no image was created: the result is a layer image handed through
    first = layers.elem(z3.IntVal(0))
    img, lcov = first.items[0], first.items[1]
    cov = post.env['coverage']
    size = post.env['size']
    io = post.env['image_opts']
    opts = ex.opaque_field(st, img, 'image_opts')
    yield ('shortcut_returns_the_only_layer', z3.And(layers.length() == 1, eq(result, img)), 'shortcut: exactly one layer, returned as is')
    yield ('shortcut_not_with_global_limit', z3.Not(ex.truth(st, cov)),
           'C10: a request-wide limited_to coverage is never skipped by the shortcut')
    yield ('shortcut_not_with_layer_clip',
           z3.Or(z3.Not(ex.truth(st, lcov)), z3.Not(ex.truth(st, ex.opaque_field(st, lcov.val, 'clip')))),
           'shortcut only without a clipping layer coverage')
    yield ('shortcut_same_size', z3.Or(z3.Not(ex.truth(st, size)), eq(size.val if hasattr(size, 'val') else size, ex.opaque_field(st, img, 'size'))),
           'shortcut only when no resize is needed')
    yield ('shortcut_opaque_or_transparent_output',
           z3.Or(z3.And(z3.Not(opts.isnone), z3.Not(ex.truth(st, ex.opaque_field(st, opts.val, 'transparent')))),
                 ex.truth(st, ex.opaque_field(st, io, 'transparent'))),
           'shortcut only if the layer is opaque or the output may be transparent')
    op = ex.opaque_field(st, opts.val, 'opacity')
    yield ('shortcut_not_with_opacity',
           z3.Or(z3.Not(ex.truth(st, opts)), op.isnone, op.val.t >= 1),
           'C14: a layer with opacity < 1 is never handed through unblended (full composition would fade it)')


def _global_limit_applied(ex, st, post, result):
    import z3
    cov = post.env['coverage']
    created = T.evs(st, 'create_image')
    if not created:
        return
    def same(a, b):
        a = a.val if hasattr(a, 'val') else a
        b = b.val if hasattr(b, 'val') else b
        return hasattr(a, 't') and hasattr(b, 't') and a.t.eq(b.t)
    masks = [(i, e) for i, e in T.evs(st, 'mask_image') if len(e.args) == 4 and same(e.args[3], cov)]
    srcs = T.evs(st, 'ImageSource')
    ok = bool(masks) and bool(srcs) and masks[-1][0] < srcs[-1][0]
    yield ('global_limit_masks_result', z3.Or(z3.Not(ex.truth(st, cov)), z3.BoolVal(ok)),
           'C10: with a request-wide coverage the composed result is masked with it before it is returned')


def _output_size(ex, st, post, result):
    """the composed image has the requested size (the first layer's size only when none was requested)"""
    import z3
    from pyvc.values import eq
    created = T.evs(st, 'create_image')
    if not created:
        return
    size = post.env['size']
    first = st.heap[post.env['self'].ref]['layers'].elem(z3.IntVal(0)).items[0]
    arg = created[0][1].args[0]
    want_req = eq(arg, size.val) if hasattr(size, 'val') else eq(arg, size)
    want_first = eq(arg, ex.opaque_field_at(st, created[0][1], first, 'size'))
    none = size.isnone if hasattr(size, 'isnone') else z3.BoolVal(False)
    g = z3.If(none, want_first, want_req)
    yield ('output_has_requested_size', g, 'create_image(size, ..): the requested size; the size of the first layer only if size is None')


def _layer_ops(ex, st, k):
    """per layer (bottom to top): the image composited is layer k's image; clipped iff its coverage clips; the operation
    is chosen by mode / opacity"""
    import z3
    self_ = st.env['self']
    layers = st.heap[self_.ref]['layers']
    n0 = getattr(st, 'iter_start_trace', 0)
    evs_ = st.trace[n0:]
    as_img = [e for e in evs_ if e.name == 'as_image']
    cur = layers.elem(k).items[0]
    ok = len(as_img) == 1 and as_img[0].recv is not None and as_img[0].recv.t.eq(cur.t)
    yield ('composites_layer_k', z3.BoolVal(ok), 'iteration k composites layer k (bottom-to-top order, each layer once)')
    ops = [e for e in evs_ if e.name in ('alpha_composite', 'blend', 'paste')]
    yield ('one_operation_per_layer', z3.BoolVal(len(ops) == 1), 'each layer is combined into the result exactly once')
    # ---- added after the mutation audit: per-source clipping and opacity are applied exactly when configured ----------------
    from pyvc.values import eq
    lcov = layers.elem(k).items[1]
    masks = [e for e in evs_ if e.name == 'mask_image']
    clip = z3.And(ex.truth(st, lcov), ex.truth(st, ex.opaque_field(st, lcov.val, 'clip')) if hasattr(lcov, 'val') else z3.BoolVal(False))
    g_clip = clip == z3.BoolVal(len(masks) == 1)
    for m in masks:
        ok_m = len(m.args) == 4 and as_img and m.args[0] is as_img[0].result and m.args[1] is st.env['bbox'] and m.args[2] is st.env['bbox_srs']
        g_clip = z3.And(g_clip, z3.BoolVal(bool(ok_m)), eq(m.args[3], lcov.val) if ok_m and hasattr(lcov, 'val') else z3.BoolVal(False))
    yield ('layer_clipped_iff_its_coverage_clips', g_clip,
           'mask_image(layer image, bbox, bbox_srs, layer coverage) is applied exactly when the layer has a coverage with clip set')
    opts = ex.opaque_field(st, cur, 'image_opts')
    op = ex.opaque_field(st, opts.val, 'opacity') if hasattr(opts, 'val') else None
    fades = [e for e in evs_ if e.name in ('putalpha', 'blend')]
    if op is not None:
        need = z3.And(z3.Not(opts.isnone), z3.Not(op.isnone), op.val.t < 1)
        g_op = need == z3.BoolVal(len(fades) == 1)
        for f in fades:
            if f.name == 'blend':
                g_op = z3.And(g_op, z3.BoolVal(len(f.args) == 3), eq(f.args[2], op.val) if len(f.args) == 3 else z3.BoolVal(False))
        yield ('layer_faded_iff_opacity_below_one', g_op,
               'a layer is faded (alpha scaled by its opacity, or blended with it) exactly when it has an opacity < 1')


contract(M + 'LayerMerger.merge', props=['C14', 'C10'],
         types=dict(image_opts='opaque', size='opt[tuple[int,int]]', bbox='opaque', bbox_srs='opaque', coverage='opt[opaque]'),
         returns='opaque', default_callee='opaque', opaque_fields=MF, stable_fields=list(MF),
         opaque_spec={'has_alpha_composite_support': {'returns': 'bool', 'pure': True}, 'create_image': {'pure': True},
                      'as_image': {'pure': True}, 'mask_image': {'pure': True}, 'convert': {'pure': True},
                      'split': {'returns': 'tuple[opaque,opaque,opaque,opaque]', 'pure': True}, 'multiply': {'pure': True},
                      'constant': {'pure': True}, 'putalpha': {'pure': True}, 'alpha_composite': {'pure': True},
                      'blend': {'pure': True}, 'paste': {'pure': True}, 'ImageSource': {'pure': True},
                      'BlankImageSource': {'pure': True}},
         loops={0: dict(inv=[], types={'result': 'opaque'}, body_trace=[_layer_ops])},
         trace=[_fast_path_guard, _global_limit_applied, _output_size])


# ---- opaque pruning: WMSSource.is_opaque ---------------------------------------------------------------------------------
from . import c17_upstream  # noqa  (WMSSource class declaration)
W = 'mapproxy.source.wms:'


def _is_opaque_spec(ex, st, post, result):
    """is_opaque True => the layer really hides everything below it for this query"""
    import z3
    from pyvc.values import eq
    self_ = post.env['self']
    q = post.env['query']
    h = st.heap[self_.ref]
    res = ex.truth(st, result)
    io = h['image_opts']
    transparent = ex.truth(st, ex.opaque_field(st, io, 'transparent'))
    op = h['opacity']
    cov, rr = h['coverage'], h['res_range']
    yield ('opaque_not_transparent', z3.Implies(res, z3.Not(transparent)), 'is_opaque => the source image has no transparency')
    yield ('opaque_full_opacity', z3.Implies(res, z3.Or(op.isnone, op.val.t >= z3.RealVal('0.99'))),
           'is_opaque => no opacity, or an opacity of (practically) 1: a faded or invisible layer does not hide the layers below')
    conts = [e for i, e in T.evs(st, 'contains')]
    cov_ok = z3.Not(ex.truth(st, cov))
    rr_ok = z3.Not(ex.truth(st, rr))
    for e in conts:
        if e.recv is not None and e.recv.t.eq(cov.val.t) and len(e.args) == 2:
            cov_ok = z3.Or(cov_ok, z3.And(ex.truth(st, e.result), eq(e.args[0], ex.opaque_field_at(st, e, q, 'bbox')),
                                          eq(e.args[1], ex.opaque_field_at(st, e, q, 'srs'))))
        if e.recv is not None and e.recv.t.eq(rr.val.t) and len(e.args) == 3:
            rr_ok = z3.Or(rr_ok, ex.truth(st, e.result))
    yield ('opaque_inside_coverage', z3.Implies(res, cov_ok), 'is_opaque => no coverage, or the coverage contains the whole query bbox')
    yield ('opaque_inside_res_range', z3.Implies(res, rr_ok), 'is_opaque => no resolution range, or the range contains the query')


contract(W + 'WMSSource.is_opaque', props=['C14'],
         types=dict(query='opaque'), returns='bool', default_callee='opaque',
         opaque_fields=dict(c17_upstream.QF), stable_fields=['bbox', 'size', 'srs', 'transparent'],
         opaque_spec={'contains': {'returns': 'bool', 'pure': True}},
         trace=[_is_opaque_spec])


# ---- combining adjacent upstream requests ---------------------------------------------------------------------------------
def _compatible_spec(ex, st, post, result):
    """two sources may be merged into ONE upstream request only if that cannot change the picture"""
    import z3
    from pyvc.values import eq
    a, b = post.env['self'], post.env['other']
    ha, hb = st.heap[a.ref], st.heap[b.ref]
    res = ex.truth(st, result)
    yield ('combine_only_without_opacity', z3.Implies(res, z3.And(ha['opacity'].isnone, hb['opacity'].isnone)),
           'combined only if NEITHER source has an opacity (opacity is applied per source image, not to the combination)')
    sa, sb = st.heap[ha['supported_srs'].ref]['supported_srs'], st.heap[hb['supported_srs'].ref]['supported_srs']
    yield ('combine_same_srs_and_formats', z3.Implies(res, z3.And(eq(sa, sb), eq(ha['supported_formats'], hb['supported_formats']))),
           'combined only with equal supported SRS and format lists')
    yield ('combine_same_colour_key_and_coverage',
           z3.Implies(res, z3.And(eq(ha['transparent_color'], hb['transparent_color']),
                                  eq(ha['transparent_color_tolerance'], hb['transparent_color_tolerance']),
                                  eq(ha['coverage'], hb['coverage']))),
           'combined only with the same transparent colour key and the same coverage')
    dims = T.evs(st, 'dimensions_for_params')
    g = z3.BoolVal(True)
    if len(dims) == 2:
        g = eq(dims[0][1].result, dims[1][1].result)
    yield ('combine_same_forwarded_dimensions', z3.Implies(res, z3.And(z3.BoolVal(len(dims) == 2), g)),
           'combined only if both forward the same dimension parameters')


contract(W + 'WMSSource._is_compatible', props=['C14'],
         types=dict(other='obj:mapproxy.source.wms:WMSSource', query='opaque'), returns='bool', default_callee='opaque',
         inline=['__eq__'], opaque_spec={'dimensions_for_params': {'pure': True}},
         trace=[_compatible_spec])
