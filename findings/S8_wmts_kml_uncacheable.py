"""Witness of defect S8 (C20): WMTS and KML answers for tiles that must not be cached (upstream error mapped to an
uncached fill image, `on_error: ... cache: False`) carry public caching headers and validators instead of no-store.
exit 1 = reproduces, exit 0 = does not."""
import sys, tempfile, shutil
from mapproxy.config.loader import load_configuration
from mapproxy.wsgiapp import MapProxyApp
from webtest import TestApp
import mapproxy.client.http as http

tmp = tempfile.mkdtemp()
conf = """
services:
  wmts:
  tms:
  kml:
layers:
  - name: l
    title: l
    sources: [c]
caches:
  c:
    grids: [GLOBAL_MERCATOR]
    sources: [s]
    meta_size: [1, 1]
    meta_buffer: 0
    cache: {type: file, directory: %s/cache}
sources:
  s:
    type: tile
    url: http://localhost:1/%%(tms_path)s.png
    on_error:
      404:
        response: transparent
        cache: False
""" % tmp
open(tmp + '/m.yaml', 'w').write(conf)


def fake_open(self, url, data=None, method=None):
    raise http.HTTPClientError('404', response_code=404)


http.HTTPClient.open = fake_open
cfg = load_configuration(tmp + '/m.yaml')
app = TestApp(MapProxyApp(cfg.configured_services(), cfg.base_config))
bad = 0
for name, url in (('tms', '/tms/1.0.0/l/0/0/0.png'),
                  ('wmts', '/service?SERVICE=WMTS&REQUEST=GetTile&VERSION=1.0.0&LAYER=l&STYLE=&TILEMATRIXSET=GLOBAL_MERCATOR&TILEMATRIX=1&TILEROW=0&TILECOL=0&FORMAT=image/png'),
                  ('kml', '/kml/l/EPSG900913/0/0/0.png')):
    r = app.get(url, expect_errors=True)
    cc = r.headers.get('Cache-control') or r.headers.get('Cache-Control')
    no_store = cc is not None and 'no-store' in cc
    print('%-5s status=%s Cache-control=%r ETag=%r -> %s' % (name, r.status_int, cc, r.headers.get('ETag'),
                                                             'ok' if no_store else 'NOT no-store'))
    if r.status_int == 200 and not no_store:
        bad += 1
shutil.rmtree(tmp)
sys.exit(1 if bad else 0)
