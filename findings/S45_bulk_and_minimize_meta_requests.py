"""
C04 / defect 1: bulk_meta_tiles + minimize_meta_requests.

A cache over a *tile* source (which cannot answer meta tile requests) with

    bulk_meta_tiles: true          # fetch the tiles of a meta tile one by one, in parallel
    minimize_meta_requests: true   # valid option, documented for every cache

answers every request that needs more than one uncached tile (any WMS GetMap
that spans two tiles) by sending ONE meta-tile-sized query (e.g. 512x512) to
the tile source: TileCreator.create_tiles() picks the "request-minimising
meta tile" strategy before it looks at self.bulk_meta_tiles.  The tile source
refuses it ("tile size of cache and tile source do not match"), nothing is
fetched, nothing is stored, the client gets an error / no picture.

The very same tiles requested one at a time (TMS), or with
minimize_meta_requests: false, are fetched in bulk and stored fine.

Property C04: a tile is the same image whether it was fetched alone, cut out
of a request-minimising meta tile, or fetched in bulk - for all
minimize_meta_requests x bulk_meta_tiles settings.

exit 0: property holds, exit 1: violated.
"""
import io
import os
import shutil
import sys
import tempfile
import threading
from http.server import BaseHTTPRequestHandler, HTTPServer

from PIL import Image

sys.path.insert(0, os.getcwd())

from webtest import TestApp  # noqa: E402
from mapproxy.wsgiapp import make_wsgi_app  # noqa: E402


def tile_png(z, x, y):
    # a picture that depends only on the tile address (== ground position)
    img = Image.new('RGB', (256, 256), (40 + 50 * x, 40 + 50 * y, 40 + 20 * z))
    buf = io.BytesIO()
    img.save(buf, 'PNG')
    return buf.getvalue()


UPSTREAM_LOG = []


class Handler(BaseHTTPRequestHandler):
    def do_GET(self):
        UPSTREAM_LOG.append(self.path)
        try:
            z, x, y = self.path.strip('/').split('.')[0].split('/')
            body = tile_png(int(z), int(x), int(y))
        except Exception:
            self.send_response(404)
            self.end_headers()
            return
        self.send_response(200)
        self.send_header('Content-type', 'image/png')
        self.send_header('Content-length', str(len(body)))
        self.end_headers()
        self.wfile.write(body)

    def log_message(self, *a):
        pass


CONF = """
services:
  wms:
    md: {title: t}
  tms:
layers:
  - name: plain
    title: plain
    sources: [c_plain]
  - name: mini
    title: mini
    sources: [c_mini]
caches:
  c_plain:
    grids: [GLOBAL_MERCATOR]
    sources: [tiles]
    meta_size: [2, 2]
    bulk_meta_tiles: true
    minimize_meta_requests: false
    cache: {type: file, directory: %(dir)s/plain}
  c_mini:
    grids: [GLOBAL_MERCATOR]
    sources: [tiles]
    meta_size: [2, 2]
    bulk_meta_tiles: true
    minimize_meta_requests: true
    cache: {type: file, directory: %(dir)s/mini}
sources:
  tiles:
    type: tile
    grid: GLOBAL_MERCATOR
    url: http://127.0.0.1:%(port)d/%%(z)s/%%(x)s/%%(y)s.png
globals:
  cache:
    base_dir: %(dir)s
    lock_dir: %(dir)s/locks
    tile_lock_dir: %(dir)s/tlocks
  image:
    paletted: false
"""


def stored_tiles(base):
    found = []
    for root, dirs, files in os.walk(base):
        for f in files:
            if f.endswith('.png'):
                found.append(os.path.relpath(os.path.join(root, f), base))
    return sorted(found)


def main():
    tmp = tempfile.mkdtemp(prefix='c04_1_')
    httpd = HTTPServer(('127.0.0.1', 0), Handler)
    port = httpd.server_address[1]
    t = threading.Thread(target=httpd.serve_forever)
    t.daemon = True
    t.start()
    failures = []
    try:
        conf_file = os.path.join(tmp, 'mapproxy.yaml')
        with open(conf_file, 'w') as f:
            f.write(CONF % {'dir': tmp, 'port': port})
        app = TestApp(make_wsgi_app(conf_file), use_unicode=False)

        # the south-west quarter of the world at level 2: exactly the tiles
        # (0,0,2) (1,0,2) (0,1,2) (1,1,2) = one 2x2 meta tile, 512x512 px
        half = 20037508.342789244
        req = ('/service?SERVICE=WMS&VERSION=1.1.1&REQUEST=GetMap&STYLES=&SRS=EPSG:3857'
               '&FORMAT=image/png&WIDTH=512&HEIGHT=512&BBOX=%r,%r,0,0&LAYERS=' % (-half, -half))

        results = {}
        for layer in ('plain', 'mini'):
            del UPSTREAM_LOG[:]
            resp = app.get(req + layer, expect_errors=True)
            ctype = resp.headers.get('Content-type', '')
            info = {'status': resp.status_int, 'ctype': ctype,
                    'upstream': sorted(UPSTREAM_LOG),
                    'stored': stored_tiles(os.path.join(tmp, layer))}
            if ctype.startswith('image/'):
                info['img'] = Image.open(io.BytesIO(resp.body)).convert('RGB')
            else:
                info['body'] = resp.body[:300]
            results[layer] = info
            print('layer %-5s: HTTP %s %s, %d upstream tile requests, %d tiles stored'
                  % (layer, info['status'], ctype, len(info['upstream']), len(info['stored'])))
            if 'body' in info:
                print('    body: %r' % info['body'])

        ref = results['plain']
        if 'img' not in ref or len(ref['stored']) != 4:
            print('UNEXPECTED: reference configuration (minimize_meta_requests: false) did not work')
            return 2

        got = results['mini']
        if 'img' not in got:
            failures.append('GetMap over the cache with minimize_meta_requests: true is answered with '
                            '%s instead of the picture' % got['ctype'])
        elif list(got['img'].getdata()) != list(ref['img'].getdata()):
            failures.append('picture differs from the one produced without minimize_meta_requests')
        if len(got['stored']) != 4:
            failures.append('tiles stored by the request: %d (expected the 4 tiles of the meta tile, '
                            'as with minimize_meta_requests: false)' % len(got['stored']))
        if len(got['upstream']) != 4:
            failures.append('upstream tile requests: %d (expected 4: one per tile, fetched in bulk)'
                            % len(got['upstream']))

        # the same tiles asked one by one through TMS are fine in both caches
        for layer in ('plain', 'mini'):
            r = app.get('/tms/1.0.0/%s/EPSG900913/2/1/1.png' % layer, expect_errors=True)
            print('TMS %s 2/1/1: HTTP %s %s' % (layer, r.status_int, r.headers.get('Content-type')))
    finally:
        httpd.shutdown()
        httpd.server_close()
        shutil.rmtree(tmp, ignore_errors=True)

    if failures:
        print('\nPROPERTY C04 VIOLATED:')
        for f in failures:
            print(' - ' + f)
        return 1
    print('\nOK: same picture and same stored tiles with and without minimize_meta_requests')
    return 0


if __name__ == '__main__':
    sys.exit(main())
