"""C17 - upstream servers are only asked for what they are configured to support (call-site preconditions)."""
from pyvc.api import contract, cls, ghost, lemma
from pyvc import tracelib as T
from . import shared_grid, c03_grid  # noqa
W = 'mapproxy.source.wms:'

cls('mapproxy.srs:SupportedSRS', fields=dict(supported_srs='list[opaque]', preferred_srs='opaque'))
cls(W + 'WMSSource', fields=dict(client='opaque', supported_srs='obj:mapproxy.srs:SupportedSRS', supported_formats='list[str]',
                                 fwd_req_params='opaque', transparent_color='opaque', transparent_color_tolerance='opaque',
                                 coverage='opt[opaque]', res_range='opt[opaque]', extent='opaque', error_handler='opt[opaque]',
                                 image_opts='opaque', opacity='opt[real]', supports_meta_tiles='bool'))

QF = {'bbox': 'tuple[real,real,real,real]', 'size': 'tuple[int,int]', 'srs': 'opaque', 'format': 'opt[str]',
      'dimensions': 'opaque', 'srs_code': 'opaque', 'transparent': 'bool'}
SPEC = {'retrieve': {'raises': ['HTTPClientError']}, 'MapExtent': {'pure': True},
        'contains': {'returns': 'bool', 'pure': True}, 'intersects': {'returns': 'bool', 'pure': True},
        'MapQuery': {'pure': True, 'fields': {'bbox': 'arg0', 'size': 'arg1', 'srs': 'arg2', 'format': 'arg3'}},
        'bbox_position_in_image': {'returns': 'tuple[tuple[int,int],tuple[int,int],tuple[real,real,real,real]]', 'pure': True},
        'bbox_for': {'returns': 'tuple[real,real,real,real]', 'pure': True},
        'best_srs': {'pure': True}, 'transform_bbox_to': {'returns': 'tuple[real,real,real,real]', 'pure': True},
        'ImageSource': {'pure': True}, 'SubImageSource': {'pure': True}, 'make_transparent': {'pure': True},
        '_get_transformed': {}, 'reraise_exception': {'always_raises': 'reraise'}, 'handle': {'returns': 'opt[opaque]'}}


def _retrieve_preconditions(ex, st, post, result):
    """at every client.retrieve(q, fmt): format and SRS from the configured lists, bbox inside the extent"""
    import z3
    from pyvc.values import eq, VSeq
    self_ = post.env['self']
    h = st.heap[self_.ref]
    fmts = h['supported_formats']
    srs_obj = h['supported_srs']
    srs_list = st.heap[srs_obj.ref]['supported_srs']
    goal_fmt = z3.BoolVal(True)
    goal_srs = z3.BoolVal(True)
    goal_bbox = z3.BoolVal(True)
    for i, e in T.evs(st, 'retrieve'):
        q, fmt = e.args[0], e.args[1]
        # (a) format
        j = z3.Int('wf_j')
        fmt_in = z3.Exists([j], z3.And(0 <= j, j < fmts.length(), eq(fmts.elem(j), fmt)))
        goal_fmt = z3.And(goal_fmt, z3.Implies(fmts.length() > 0, fmt_in))
        # (b) SRS: the query's srs at the time of the call is one of the configured ones
        qsrs = ex.opaque_field_at(st, e, q, 'srs')
        k = z3.Int('ws_k')
        srs_in = z3.Exists([k], z3.And(0 <= k, k < srs_list.length(), eq(srs_list.elem(k), qsrs)))
        goal_srs = z3.And(goal_srs, z3.Implies(srs_list.length() > 0, srs_in))
        # (c) bbox inside the extent: either the extent check on this very query succeeded, or the query was built
        #     from the clipped bbox computed by bbox_position_in_image(.., extent.bbox_for(srs))
        ext = h['extent']
        ok_c = ex.opaque_truth_of(st, ext) if hasattr(ex, 'opaque_truth_of') else None
        contains = [c for jx, c in T.evs(st, 'contains') if jx < i and c.recv is not None and getattr(c.recv, 't', None) is not None
                    and c.recv.t.eq(ext.t)]
        mq = [m for jx, m in T.evs(st, 'MapQuery') if m.result is q]
        clause = z3.Not(ex.truth(st, ext))
        for c in contains:
            me = [m for jx, m in T.evs(st, 'MapExtent') if m.result is c.args[0]]
            if me and me[0].args[0] is not None:
                same_q = eq(me[0].args[0], ex.opaque_field(st, q, 'bbox'))
                clause = z3.Or(clause, z3.And(ex.truth(st, c.result), same_q))
        for m in mq:
            for jx, b in T.evs(st, 'bbox_position_in_image'):
                if isinstance(b.result, VSeq) and m.args and m.args[0] is b.result.items[2]:
                    bf = [f for jy, f in T.evs(st, 'bbox_for') if f.result is b.args[2] and f.recv is not None and f.recv.t.eq(ext.t)]
                    clause = z3.Or(clause, z3.BoolVal(bool(bf)))
        goal_bbox = z3.And(goal_bbox, clause)
    yield ('format_supported', goal_fmt, 'supported_formats != [] => the format sent upstream is in supported_formats')
    yield ('srs_supported', goal_srs, 'supported_srs != [] => the SRS sent upstream is in supported_srs')
    yield ('bbox_inside_extent', goal_bbox,
           'the bbox sent upstream passed extent.contains, or is the bbox clipped to the extent by bbox_position_in_image')
    # a clipped bbox that is sent upstream is a proper rectangle (the gate tests in the coverage SRS, the clipping happens in the
    # request SRS: near a corner the two can disagree and the clipped box comes out inverted)
    g_proper = z3.BoolVal(True)
    for i, e in T.evs(st, 'retrieve'):
        q = e.args[0]
        for m in [m for jx, m in T.evs(st, 'MapQuery') if m.result is q]:
            for jx, b in T.evs(st, 'bbox_position_in_image'):
                if isinstance(b.result, VSeq) and m.args and m.args[0] is b.result.items[2]:
                    bb = b.result.items[2].items
                    g_proper = z3.And(g_proper, bb[0].t < bb[2].t, bb[1].t < bb[3].t)
    yield ('clipped_bbox_is_a_proper_rectangle', g_proper,
           'a bbox that was cut to the extent is sent upstream only with minx < maxx and miny < maxy (otherwise the source is blank)')


contract(W + 'WMSSource._get_map', props=['C17'],
         types=dict(query='opaque'), returns='opaque', default_callee='opaque',
         opaque_fields=QF, stable_fields=['bbox', 'size', 'dimensions'],
         opaque_spec=SPEC, inline=['_get_sub_query', '__iter__'], opaque=['bbox_position_in_image'],
         raises={'HTTPClientError': True, 'BlankImage': True, 'Exception': True},
         loops={0: dict(types={'request_srs': 'opt[opaque]', 'srs': 'opaque'},
                        inv=['request_srs is None'])},
         trace=[_retrieve_preconditions])


def _gates(ex, st, post, result):
    """coverage that does not intersect / resolution range that excludes the request => the source is not contacted.
    The gate has to be the source's OWN coverage geometry tested against the request's bbox and srs (not its
    bounding box, not another object), and the source's own resolution range."""
    import z3
    from pyvc.values import eq
    self_ = post.env['self']
    q = post.env['query']
    h = st.heap[self_.ref]
    goal = z3.BoolVal(True)
    for i, e in T.evs(st, '_get_map', 'retrieve'):
        cov, rr = h['coverage'], h['res_range']
        inter = [c for j, c in T.evs(st, 'intersects') if j < i and c.recv is not None and c.recv.t.eq(cov.val.t)
                 and len(c.args) == 2]
        cont = [c for j, c in T.evs(st, 'contains') if j < i and c.recv is not None and c.recv.t.eq(rr.val.t)
                and len(c.args) == 3]
        g1 = z3.Not(ex.truth(st, cov))
        for c in inter:
            g1 = z3.Or(g1, z3.And(ex.truth(st, c.result), eq(c.args[0], ex.opaque_field_at(st, c, q, 'bbox')),
                                  eq(c.args[1], ex.opaque_field_at(st, c, q, 'srs'))))
        g2 = z3.Not(ex.truth(st, rr))
        for c in cont:
            g2 = z3.Or(g2, z3.And(ex.truth(st, c.result), eq(c.args[0], ex.opaque_field_at(st, c, q, 'bbox')),
                                  eq(c.args[1], ex.opaque_field_at(st, c, q, 'size')),
                                  eq(c.args[2], ex.opaque_field_at(st, c, q, 'srs'))))
        goal = z3.And(goal, g1, g2)
    yield ('gated_by_coverage_and_res_range', goal,
           'no upstream request unless coverage.intersects(query.bbox, query.srs) and res_range.contains(bbox, size, srs) '
           'said yes (each only if configured)')


def _blank_only_when_outside(ex, st, post, exc):
    """BlankImage (the layer contributes nothing) is raised only when the request really lies outside the source"""
    import z3
    h = st.heap[post.env['self'].ref]
    cov, rr = h['coverage'], h['res_range']
    if T.evs(st, '_get_map', 'WMSSource._get_map'):
        return      # raised further down (by the upstream request itself): not this function's decision
    inter = [c for j, c in T.evs(st, 'intersects') if c.recv is not None and c.recv.t.eq(cov.val.t)]
    cont = [c for j, c in T.evs(st, 'contains') if c.recv is not None and c.recv.t.eq(rr.val.t)]
    out_cov = z3.And(ex.truth(st, cov), z3.Or([z3.Not(ex.truth(st, c.result)) for c in inter] or [z3.BoolVal(False)]))
    out_rr = z3.And(ex.truth(st, rr), z3.Or([z3.Not(ex.truth(st, c.result)) for c in cont] or [z3.BoolVal(False)]))
    yield ('blank_only_outside_coverage_or_range', z3.Or(out_cov, out_rr),
           'the source declares itself blank for a request only if its coverage does not intersect it or its resolution range '
           'excludes it - a source without these limits always renders')


def _source_result(ex, st, post, result):
    import z3
    from pyvc.values import eq
    h = st.heap[post.env['self'].ref]
    gm = [e for i, e in T.evs(st, '_get_map', 'WMSSource._get_map')]
    mt = [e for i, e in T.evs(st, 'make_transparent')]
    hd = [e for i, e in T.evs(st, 'handle')]
    if hd:
        # the upstream request failed and the configured error handler supplied a substitute image
        ok = len(gm) == 1 and gm[0].raised == 'HTTPClientError' and len(hd) == 1 and (result is hd[0].result or getattr(hd[0].result, 'val', None) is result) \
            and len(hd[0].args) == 2 and hd[0].args[1] is post.env['query']
        yield ('substitute_image_only_from_error_handler', z3.And(z3.BoolVal(bool(ok)), ex.truth(st, h['error_handler']), ex.truth(st, hd[0].result)),
               'after an upstream HTTP error the answer is what the configured error handler returns for (response code, query)')
        return
    ok = len(gm) == 1 and not gm[0].raised and len(gm[0].args) >= 1 and gm[0].args[-1] is post.env['query']
    g = z3.BoolVal(bool(ok))
    if ok:
        keyed = ex.truth(st, h['transparent_color'])
        if mt:
            okm = len(mt) == 1 and len(mt[0].args) == 3 and mt[0].args[0] is gm[0].result and result is mt[0].result
            g = z3.And(g, keyed, z3.BoolVal(bool(okm)))
            if okm:
                g = z3.And(g, eq(mt[0].args[1], h['transparent_color']), eq(mt[0].args[2], h['transparent_color_tolerance']))
        else:
            g = z3.And(g, z3.Not(keyed), z3.BoolVal(result is gm[0].result))
        so = [e for e in st.trace if e.name == 'setattr:opacity']
        g = z3.And(g, z3.BoolVal(len(so) == 1 and so[0].recv is not None and so[0].recv.t.eq(result.t)),
                   eq(so[0].args[1], h['opacity']) if len(so) == 1 else z3.BoolVal(False))
    yield ('source_image_with_colour_key_and_opacity', g,
           'the image returned is the upstream image for this query, made transparent with the configured colour key and '
           'tolerance exactly when a key is configured, carrying the configured opacity of the source')


contract(W + 'WMSSource.get_map', props=['C17', 'C14'],
         types=dict(query='opaque'), returns='opaque', default_callee='opaque',
         opaque_fields=QF, stable_fields=['bbox', 'size', 'srs'],
         opaque_spec=dict(SPEC, _get_map={'raises': ['HTTPClientError']}), opaque=['_get_map'],
         raises={'BlankImage': True, 'SourceError': True, 'Exception': True},
         raises_ensures={'BlankImage': [_blank_only_when_outside]},
         trace=[_gates, _source_result])


# ---- sub-extent placement: the bbox sent upstream is the request clipped to the source extent -------------------------
contract('mapproxy.image:bbox_position_in_image', props=['C17', 'C01'],
         types=dict(bbox='tuple[real,real,real,real]', size='tuple[int,int]', src_bbox='tuple[real,real,real,real]'),
         returns='tuple[tuple[int,int],tuple[int,int],tuple[real,real,real,real]]',
         requires=['bbox[0] < bbox[2] and bbox[1] < bbox[3]', 'size[0] >= 0 and size[1] >= 0'],
         ensures=[
             # the sub bbox is exactly bbox clipped to src_bbox: never outside the source extent on a clipped side
             'result[2][0] == max(bbox[0], src_bbox[0]) and result[2][1] == max(bbox[1], src_bbox[1])',
             'result[2][2] == min(bbox[2], src_bbox[2]) and result[2][3] == min(bbox[3], src_bbox[3])',
             # pixel offset of the clipped part: the exact affine image of the clipped west / north edge, truncated
             """implies(src_bbox[0] >= bbox[0] - 0, result[1][0] <= (max(bbox[0], src_bbox[0]) - bbox[0]) * size[0] / (bbox[2] - bbox[0])
                        and (max(bbox[0], src_bbox[0]) - bbox[0]) * size[0] / (bbox[2] - bbox[0]) < result[1][0] + 1)""",
             """implies(src_bbox[3] <= bbox[3], result[1][1] <= (bbox[3] - min(bbox[3], src_bbox[3])) * size[1] / (bbox[3] - bbox[1])
                        and (bbox[3] - min(bbox[3], src_bbox[3])) * size[1] / (bbox[3] - bbox[1]) < result[1][1] + 1)""",
             'result[0][0] >= 0 and result[0][1] >= 0',
             # size of the sub image: the clipped extent in output pixels, to within the two truncations (exact without clipping)
             'implies(src_bbox[0] <= bbox[0] and src_bbox[2] >= bbox[2], result[0][0] == size[0])',
             'implies(src_bbox[1] <= bbox[1] and src_bbox[3] >= bbox[3], result[0][1] == size[1])',
             """implies(src_bbox[0] < src_bbox[2] and src_bbox[0] < bbox[2] and src_bbox[2] > bbox[0],
                        abs(result[0][0] - (result[2][2] - result[2][0]) * size[0] / (bbox[2] - bbox[0])) < 1)""",
             """implies(src_bbox[1] < src_bbox[3] and src_bbox[1] < bbox[3] and src_bbox[3] > bbox[1],
                        abs(result[0][1] - (result[2][3] - result[2][1]) * size[1] / (bbox[3] - bbox[1])) < 1)""",
         ],
         must_fail='result[1][0] == 0')


# ---- the resolution gate itself: ResolutionRange.contains ---------------------------------------------------------------
GR = 'mapproxy.grid:'
cls(GR + 'ResolutionRange', fields=dict(min_res='opt[real]', max_res='opt[real]'))


def _gen_rr(gen, rng):
    from contracts.builders import _real
    mn = rng.choice([None, None, 100, 50, 10.5])
    mx = rng.choice([None, None, 1, 5, 0.25])
    w, h = rng.choice([100, 1000, 25600, 51200]), rng.choice([100, 1000, 25600, 10240])
    return {'self': {'$cls': 'mapproxy.grid:ResolutionRange', 'min_res': _real(mn) if mn is not None else None,
                     'max_res': _real(mx) if mx is not None else None},
            'bbox': {'$tuple': [_real(0), _real(0), _real(w), _real(h)]},
            'size': {'$tuple': [rng.choice([256, 128, 512]), rng.choice([256, 128, 512])]},
            'srs': {'$pyobj': ('mapproxy.srs', 'SRS', [rng.choice([3857, 25832])])}}


_RR_BODY = """result == ((not self.min_res or (self.min_res + 0.000001 > %(x)s and self.min_res + 0.000001 > %(y)s))
                         and (not self.max_res or (self.max_res <= %(x)s and self.max_res <= %(y)s)))"""
contract(GR + 'ResolutionRange.contains', props=['C17'],
         types=dict(bbox='tuple[real,real,real,real]', size='tuple[int,int]', srs='opaque'), returns='bool',
         opaque_fields={'is_latlong': 'bool'}, stable_fields=['is_latlong'],
         inline=['bbox_size', 'bbox_width', 'bbox_height'], opaque=['deg_to_m'],
         opaque_spec={'deg_to_m': {'returns': 'real', 'pure': True, 'func': True}},
         requires=['size[0] > 0 and size[1] > 0'], fuzz_gen=_gen_rr,
         ensures=[
             # a request is inside the range only if BOTH its x and its y resolution are: finer than min_res (+1e-6 slack)
             # and not finer than max_res
             'implies(not srs.is_latlong, ' + _RR_BODY % {'x': '((bbox[2] - bbox[0]) / size[0])', 'y': '((bbox[3] - bbox[1]) / size[1])'} + ')',
             'implies(srs.is_latlong, ' + _RR_BODY % {'x': '(deg_to_m(bbox[2] - bbox[0]) / size[0])',
                                                      'y': '(deg_to_m(bbox[3] - bbox[1]) / size[1])'} + ')',
         ],
         must_fail='result == True')


# ---- only the configured dimension parameters are forwarded: MapQuery.dimensions_for_params -------------------------------
cls('mapproxy.layer:MapQuery', fields=dict(bbox='opaque', size='opaque', srs='opaque', format='opaque', transparent='opaque',
                                           tiled_only='opaque', dimensions='dict[str,opaque]'))
_DIM_NAMES = ['time', 'TIME', 'elevation', 'dim_reference_time', 'DIM_Reference_Time', 'dim_elevation_offset', 'dim_level', 'im_level',
              'dim', 'e', '', 'reference', 'Time']


def _gen_dims_for(gen, rng):
    dims = {rng.choice(_DIM_NAMES): str(rng.randint(0, 9)) for _ in range(rng.randint(0, 4))}
    return {'self': {'$cls': 'mapproxy.layer:MapQuery', 'dimensions': {'$pydict': dims}},
            'params': [rng.choice(_DIM_NAMES) for _ in range(rng.randint(0, 3))]}


def _dims_exact(args, result):
    """exactly the dimensions whose name equals (case-insensitively) one of the configured parameter names"""
    want = set(p.lower() for p in args['params'])
    return result == dict((k, v) for k, v in args['self'].dimensions.items() if k.lower() in want)


contract('mapproxy.layer:MapQuery.dimensions_for_params', props=['C17'],
         types=dict(params='list[str]'), returns='dict[str,opaque]',
         ensures=["""forall_str(lambda k: (k in result) == (k in self.dimensions and
                        exists(lambda j: 0 <= j < len(params) and str_lower(params[j]) == str_lower(k))))""",
                  # the same statement as a bounded check on the real function (runs even if a change takes the function
                  # out of the verifier's subset)
                  _dims_exact],
         fuzz_gen=_gen_dims_for, bounded=dict(n=3000, seconds=5),
         must_fail='len(result) == 0')


# ---- tile upstreams: gated like WMS sources; the address requested is a tile of the SOURCE grid ------------------------------
TS = 'mapproxy.source.tile:'
cls(TS + 'TiledSource', fields=dict(grid='opaque', client='opaque', image_opts='opaque', coverage='opt[opaque]', extent='opaque',
                                    res_range='opt[opaque]', error_handler='opt[opaque]', supports_meta_tiles='opaque'))


def _tile_source_protocol(ex, st, post, result):
    import z3
    from pyvc.values import eq, VSeq
    self_ = post.env['self']
    q = post.env['query']
    h = st.heap[self_.ref]
    gets = [(i, e) for i, e in T.evs(st, 'get_tile')]
    if not gets:
        return
    i_g, g = gets[0]
    aff = [(i, e) for i, e in T.evs(st, 'get_affected_tiles') if i < i_g and not e.raised]
    nxt = [(i, e) for i, e in T.evs(st, 'next') if i < i_g]
    cov, rr = h['coverage'], h['res_range']
    inter = [c for j, c in T.evs(st, 'intersects') if j < i_g and c.recv is not None and c.recv.t.eq(cov.val.t) and len(c.args) == 2]
    cont = [c for j, c in T.evs(st, 'contains') if j < i_g and c.recv is not None and c.recv.t.eq(rr.val.t) and len(c.args) == 3]
    g1 = z3.Not(ex.truth(st, cov))
    for c in inter:
        g1 = z3.Or(g1, z3.And(ex.truth(st, c.result), eq(c.args[0], ex.opaque_field_at(st, c, q, 'bbox')), eq(c.args[1], ex.opaque_field_at(st, c, q, 'srs'))))
    g2 = z3.Not(ex.truth(st, rr))
    for c in cont:
        g2 = z3.Or(g2, z3.And(ex.truth(st, c.result), eq(c.args[0], ex.opaque_field_at(st, c, q, 'bbox')),
                              eq(c.args[1], ex.opaque_field_at(st, c, q, 'size')), eq(c.args[2], ex.opaque_field_at(st, c, q, 'srs'))))
    # the source grid is the grid of the request: same tile size, same SRS (otherwise the source refuses)
    grid_ = h['grid']
    same_grid = z3.And(eq(ex.opaque_field_at(st, g, grid_, 'tile_size'), ex.opaque_field_at(st, g, q, 'size')),
                       eq(ex.opaque_field_at(st, g, grid_, 'srs'), ex.opaque_field_at(st, g, q, 'srs')))
    yield ('tile_source_only_for_its_own_grid', same_grid,
           'a tile is requested upstream only if the query has the tile size and the SRS of the source grid')
    yield ('tile_source_gated_by_coverage_and_res_range', z3.And(z3.BoolVal(len(gets) == 1), g1, g2),
           'the tile upstream is contacted once, and only if its coverage intersects the request and its resolution range contains it')
    ok = len(aff) == 1 and aff[0][1].recv is not None and hasattr(h['grid'], 't') and aff[0][1].recv.t.eq(h['grid'].t) \
        and isinstance(aff[0][1].result, VSeq) and isinstance(aff[0][1].result.items[2], VSeq) and hasattr(g.args[0], 't')
    g3 = z3.BoolVal(bool(ok))
    if ok:
        grid_shape = aff[0][1].result.items[1]
        first = aff[0][1].result.items[2].elem(z3.IntVal(0))
        g3 = z3.And(g3, g.args[0].t == first.t)         # next(tiles): the first (only) tile of the list
        g3 = z3.And(g3, eq(aff[0][1].args[0], ex.opaque_field_at(st, aff[0][1], q, 'bbox')), eq(aff[0][1].args[1], ex.opaque_field_at(st, aff[0][1], q, 'size')),
                    # exactly one tile of the source grid covers the request
                    grid_shape.items[0].t == 1, grid_shape.items[1].t == 1,
                    eq(g.kwargs.get('format'), ex.opaque_field_at(st, g, q, 'format')) if g.kwargs.get('format') is not None else z3.BoolVal(False))
    yield ('requested_address_is_a_tile_of_the_source_grid', g3,
           'the address sent upstream is the single tile that self.grid.get_affected_tiles(query.bbox, query.size) reports (a 1 x 1 '
           'block): a tile that exists in the source grid (C03: get_affected_level_tiles lists only in-grid tiles)')


contract(TS + 'TiledSource.get_map', props=['C17'],
         types=dict(query='opaque'), returns='opaque', default_callee='opaque',
         opaque_fields=dict(QF, tile_size='tuple[int,int]'), stable_fields=['bbox', 'size', 'srs', 'format', 'tile_size'],
         opaque_spec={'contains': {'returns': 'bool', 'pure': True}, 'intersects': {'returns': 'bool', 'pure': True},
                      'get_affected_tiles': {'returns': 'tuple[opaque,tuple[int,int],list[opaque]]', 'raises': ['NoTiles', 'GridError'], 'pure': True},
                      'get_tile': {'raises': ['HTTPClientError']}, 'handle': {'returns': 'opt[opaque]'},
                      'InvalidSourceQuery': {'pure': True}, 'reraise_exception': {'always_raises': 'reraise'}},
         raises={'BlankImage': True, 'InvalidSourceQuery': True, 'SourceError': True, 'NoTiles': True, 'GridError': True, 'Exception': True},
         trace=[_tile_source_protocol])


# ---- what goes into the upstream WMS request: WMSClient._query_req / retrieve ---------------------------------------------
CW = 'mapproxy.client.wms:'
cls(CW + 'WMSClient', fields=dict(request_template='opaque', http_client='opaque', http_method='opaque', lock='opaque',
                                  fwd_req_params='opaque'))


def _query_req_params(ex, st, post, result):
    import z3
    from pyvc.values import eq
    q, fmt = post.env['query'], post.env['format']
    self_h = st.heap[post.env['self'].ref]
    cp = [e for i, e in T.evs(st, 'copy')]
    sets = {e.name.split(':')[1]: e for i, e in enumerate(st.trace) if e.name.startswith('setattr:')}
    dp = [e for i, e in T.evs(st, 'dimensions_for_params')]
    up = [e for i, e in T.evs(st, 'update')]
    ok = len(cp) == 1 and all(k in sets for k in ('bbox', 'size', 'srs', 'format')) and len(dp) == 1 and len(up) == 1 \
        and up[0].args[-1].t.eq(dp[0].result.t) and result.t.eq(cp[0].result.t)
    goal = z3.BoolVal(bool(ok))
    if ok:
        goal = z3.And(goal, eq(sets['bbox'].args[1], ex.opaque_field_at(st, sets['bbox'], q, 'bbox')),
                      eq(sets['size'].args[1], ex.opaque_field_at(st, sets['size'], q, 'size')),
                      eq(sets['format'].args[1], fmt),
                      # the SRS parameter is the code of the query's SRS
                      eq(sets['srs'].args[1], ex.opaque_field_at(st, sets['srs'], ex.opaque_field_at(st, sets['srs'], q, 'srs'), 'srs_code')),
                      # dimension parameters: exactly those the query yields for the CONFIGURED forward list
                      z3.BoolVal(dp[0].recv is not None and dp[0].recv.t.eq(q.t)), eq(dp[0].args[-1], self_h['fwd_req_params']))
    yield ('upstream_request_parameters', goal,
           'a copy of the request template gets bbox, size, srs code and format of the query; the only further parameters are '
           'query.dimensions_for_params(self.fwd_req_params)')


contract(CW + 'WMSClient._query_req', props=['C17'],
         types=dict(query='opaque', format='opaque'), returns='opaque', default_callee='opaque',
         opaque_fields=dict(QF), stable_fields=['bbox', 'size', 'srs', 'srs_code', 'dimensions'],
         opaque_spec={'copy': {'pure': True}, 'dimensions_for_params': {'pure': True}, 'update': {'pure': True}},
         opaque=['dimensions_for_params'],
         trace=[_query_req_params])


# ---- WMSClient.retrieve: exactly one upstream request, built from this query and format, under the configured limit ------------------
def _one_upstream_request(ex, st, post, result):
    import z3
    from pyvc.values import eq, opaque_eq_str, VNone
    h = st.heap[post.env['self'].ref]
    op = [(i, e) for i, e in T.evs(st, 'open')]
    qu = [e for i, e in T.evs(st, '_query_url', 'WMSClient._query_url')]
    qd = [e for i, e in T.evs(st, '_query_data', 'WMSClient._query_data')]
    ck = [(i, e) for i, e in T.evs(st, '_check_resp', 'WMSClient._check_resp')]
    lk = [(i, e) for i, e in T.evs(st, 'lock')]
    builders = qu + qd
    ok = len(op) == 1 and len(builders) == 1 and len(ck) == 1 and op[0][0] < ck[0][0] and result is op[0][1].result
    g = z3.BoolVal(bool(ok))
    if ok:
        b = builders[0]
        a = [x for x in b.args if getattr(x, 'ref', None) != post.env['self'].ref]
        g = z3.And(g, z3.BoolVal(len(a) == 2 and a[0] is post.env['query'] and a[1] is post.env['format']))
        o = op[0][1]
        ca = [x for x in ck[0][1].args if getattr(x, 'ref', None) != post.env['self'].ref]
        g = z3.And(g, z3.BoolVal('data' in o.kwargs and len(o.args) == 1 and len(ca) == 2 and ca[0] is o.result and ca[1] is o.args[0]))
        if qu:
            g = z3.And(g, z3.BoolVal(o.args[0] is qu[0].result and isinstance(o.kwargs.get('data'), VNone)))
        # the configured method decides: POST sends the parameters as body, GET in the URL
        post_cfg = opaque_eq_str(h['http_method'].t, z3.StringVal('POST'))
        get_cfg = opaque_eq_str(h['http_method'].t, z3.StringVal('GET'))
        g = z3.And(g, z3.Implies(post_cfg, z3.BoolVal(bool(qd))), z3.Implies(z3.And(z3.Not(post_cfg), get_cfg), z3.BoolVal(bool(qu))))
        # a configured concurrency limit is held around the request
        limited = ex.truth(st, h['lock'])
        g = z3.And(g, limited == z3.BoolVal(len(lk) == 1 and lk[0][0] < op[0][0]))
    yield ('one_request_for_this_query', g,
           'exactly one http_client.open(url, data=...) per retrieve: URL (GET) or URL + body (POST, as configured) built from THIS '
           'query and format; inside self.lock() when a concurrency limit is configured; the answer is checked (_check_resp) and '
           'then returned unchanged')


contract(CW + 'WMSClient.retrieve', props=['C17'],
         types=dict(query='opaque', format='opaque'), returns='opaque', default_callee='opaque',
         opaque_spec={'open': {'raises': ['HTTPClientError']}, '_query_url': {'pure': True}, '_query_data': {'returns': 'tuple[opaque,opaque]', 'pure': True},
                      '_check_resp': {'raises': ['SourceError']}, 'lock': {'pure': True}, 'encode': {'pure': True}, 'contains': {'returns': 'bool', 'pure': True}},
         opaque=['_query_url', '_query_data', '_check_resp'],
         raises={'HTTPClientError': True, 'SourceError': True},
         trace=[_one_upstream_request])


def _only_images_pass(ex, st, post, result):
    import z3
    from pyvc.values import VStr
    gets = [e for i, e in T.evs(st, 'get') if e.args and isinstance(e.args[0], VStr) and e.args[0].conc() == 'Content-type']
    sw = [e for i, e in T.evs(st, 'startswith')]
    ok = len(gets) == 1 and len(sw) >= 1 and sw[0].recv is not None and sw[0].recv.t.eq(gets[0].result.t) and len(sw[0].args) == 1 \
        and isinstance(sw[0].args[0], VStr) and sw[0].args[0].conc() == 'image/'
    g = z3.BoolVal(bool(ok))
    if ok:
        g = z3.And(g, ex.truth(st, sw[0].result), z3.BoolVal(len(gets[0].args) == 2 and isinstance(gets[0].args[1], VStr) and gets[0].args[1].conc().startswith('image/')))
    yield ('upstream_answer_accepted_only_as_image', g,
           "an upstream answer passes only if its Content-type (taken as image/ when missing) starts with 'image/'; anything else - "
           'an XML service exception, an HTML error page - raises SourceError instead of being handed on as picture data')


def _error_text_is_fixed(ex, st, post, exc):
    """the text of a SourceError ends up in the XML error documents of every service (C18): it must not carry the request URL
    (credentials in the query string; the binary and map file path of a mapserver:// source)"""
    import z3
    from pyvc.values import VStr
    a = list(exc.args or ())
    ok = len(a) == 1 and isinstance(a[0], VStr) and a[0].conc() is not None
    yield ('source_error_text_is_a_constant', z3.BoolVal(bool(ok)),
           'the message of the SourceError is a fixed text: nothing of the upstream URL, of the upstream answer or of a server '
           'path is copied into it (those go to the log)')


contract(CW + 'WMSClient._check_resp', props=['C17', 'C18'],
         types=dict(resp='opaque', url='opaque'), returns='none', default_callee='opaque',
         opaque_spec={'get': {'pure': True}, 'startswith': {'returns': 'bool', 'pure': True}, 'read': {'pure': True}, 'decode': {'pure': True},
                      'format': {'pure': True}},
         raises={'SourceError': True},
         raises_ensures={'SourceError': [_error_text_is_fixed]},
         trace=[_only_images_pass])


# ---- feature info upstream: asked in a supported SRS, with bbox / size / pixel of the (possibly transformed) query ---------------------
cls(CW + 'WMSInfoClient', fields=dict(request_template='opaque', http_client='opaque', supported_srs='opaque'))


def _info_srs_supported(ex, st, post, result):
    import z3
    from pyvc.values import eq
    h = st.heap[post.env['self'].ref]
    q = post.env['query']
    tr = [e for i, e in T.evs(st, '_get_transformed_query', 'WMSInfoClient._get_transformed_query')]
    rt = [e for i, e in T.evs(st, '_retrieve', 'WMSInfoClient._retrieve')]
    ins = [e for i, e in T.evs(st, 'contains') if len(e.args) == 2 and hasattr(e.args[0], 't') and e.args[0].t.eq(h['supported_srs'].t)]
    ok = len(rt) == 1 and len(tr) <= 1
    g = z3.BoolVal(bool(ok))
    if ok:
        a = [x for x in rt[0].args if getattr(x, 'ref', None) != post.env['self'].ref]
        sup = ex.truth(st, h['supported_srs'])
        if tr:
            ta = [x for x in tr[0].args if getattr(x, 'ref', None) != post.env['self'].ref]
            g = z3.And(g, sup, z3.BoolVal(len(ins) == 1 and len(a) == 1 and a[0] is tr[0].result and len(ta) == 1 and ta[0] is q),
                       z3.Not(ex.truth(st, ins[0].result)) if ins else z3.BoolVal(False))
            if ins:
                g = z3.And(g, eq(ins[0].args[1], ex.opaque_field_at(st, ins[0], q, 'srs')))
        else:
            g = z3.And(g, z3.BoolVal(len(a) == 1 and a[0] is q), z3.Or(z3.Not(sup), ex.truth(st, ins[0].result) if ins else z3.BoolVal(False)))
    yield ('info_request_in_supported_srs', g,
           'the upstream feature-info request is made with the query itself when its SRS is supported (or no list is configured), '
           'otherwise with the transformed query (_get_transformed_query) - never with an unsupported SRS')
    cd = [e for i, e in T.evs(st, 'create_featureinfo_doc')]
    rd = [e for i, e in T.evs(st, 'read')]
    ok2 = len(cd) == 1 and len(rd) == 1 and bool(rt) and rd[0].recv is not None and rd[0].recv.t.eq(rt[0].result.t) and cd[0].args[0] is rd[0].result \
        and result is cd[0].result
    yield ('answer_is_the_upstream_document', z3.BoolVal(bool(ok2)), 'the answer is the document made from the body of that very response')


contract(CW + 'WMSInfoClient.get_info', props=['C17', 'C01'],
         types=dict(query='opaque'), returns='opaque', default_callee='opaque',
         opaque_fields={'srs': 'opaque'}, stable_fields=['srs'],
         opaque_spec={'_get_transformed_query': {'pure': True}, '_retrieve': {'raises': ['HTTPClientError']}, 'get': {'pure': True}, 'read': {'pure': True},
                      'create_featureinfo_doc': {'pure': True}, 'contains': {'returns': 'bool', 'pure': True}},
         opaque=['_get_transformed_query', '_retrieve'],
         raises={'HTTPClientError': True},
         trace=[_info_srs_supported])


def _info_query_params(ex, st, post, result):
    import z3
    from pyvc.values import eq
    q = post.env['query']
    cp = [e for i, e in T.evs(st, 'copy')]
    sets = {e.name.split(':')[1]: e for e in st.trace if e.name.startswith('setattr:')}
    ok = len(cp) == 1 and all(k in sets for k in ('bbox', 'size', 'pos', 'srs'))
    g = z3.BoolVal(bool(ok))
    if ok:
        g = z3.And(g, eq(sets['bbox'].args[1], ex.opaque_field_at(st, sets['bbox'], q, 'bbox')),
                   eq(sets['size'].args[1], ex.opaque_field_at(st, sets['size'], q, 'size')),
                   eq(sets['pos'].args[1], ex.opaque_field_at(st, sets['pos'], q, 'pos')),
                   eq(sets['srs'].args[1], ex.opaque_field_at(st, sets['srs'], ex.opaque_field_at(st, sets['srs'], q, 'srs'), 'srs_code')))
        params = ex.opaque_field_at(st, sets['bbox'], cp[0].result, 'params')
        g = z3.And(g, z3.BoolVal(all(sets[k].recv is not None and sets[k].recv.t.eq(params.t) for k in ('bbox', 'size', 'pos', 'srs'))))
    yield ('info_request_carries_the_query', g,
           'a COPY of the request template gets bbox, size and clicked pixel of the query and the code of its SRS')
    si = [e for i, e in T.evs(st, 'setitem') if len(e.args) == 3 and hasattr(e.args[1], 'conc') and e.args[1].conc() == 'query_layers']
    okl = False
    if len(si) == 1 and hasattr(si[0].args[2], 't'):
        t = si[0].args[2].t
        okl = z3.is_app(t) and t.decl().name().startswith('opaque_item_%s_' % abs(hash(('s', 'layers')))) and t.num_args() == 1 \
            and hasattr(si[0].args[0], 't') and t.arg(0).eq(si[0].args[0].t)
    yield ('queried_layers_are_the_configured_layers', z3.BoolVal(bool(okl)),
           "query_layers = the template's own layers (the upstream is asked about the layers of this source only)")


contract(CW + 'WMSInfoClient._query_url', props=['C17', 'C01'],
         types=dict(query='opaque'), returns='opaque', default_callee='opaque',
         opaque_fields={'bbox': 'opaque', 'size': 'opaque', 'pos': 'opaque', 'srs': 'opaque', 'srs_code': 'opaque', 'params': 'opaque'},
         stable_fields=['bbox', 'size', 'pos', 'srs', 'srs_code', 'params'],
         opaque_spec={'copy': {'pure': True}, 'contains': {'returns': 'bool', 'pure': True}},
         trace=[_info_query_params])


# ---- PreferredSrcSRS.preferred_src: the SRS used upstream is an ENTRY of the source's list (equal SRS may carry other codes) ---------
def _result_is_an_entry(ex, st, post, result):
    import z3
    avail = post.env['available_src']
    t = getattr(result, 't', None)
    target = post.env['target']
    # taken out of available_src by subscription or iteration: available_src[...] / an element of `for avail in available_src`
    from_list = t is not None and z3.is_app(t) and t.num_args() >= 1 and t.arg(0).eq(avail.t) and \
        t.decl().name().startswith(('opaque_item2_', 'opaque_item_', 'available_src[]', 'iter'))
    loop_elem = 'avail' in st.env and getattr(st.env.get('avail'), 't', None) is not None and t is not None and t.eq(st.env['avail'].t)
    yield ('upstream_srs_is_an_entry_of_the_configured_list', z3.BoolVal(bool((from_list or loop_elem) and not t.eq(target.t))),
           'the SRS chosen for the upstream request is taken OUT OF the configured list (available_src[i] or an element met while '
           'iterating it) - never the target or a preference-rule entry that merely compares equal (EPSG:3857 == EPSG:900913, '
           'different codes)')


cls('mapproxy.srs:PreferredSrcSRS', fields=dict(target_proj='opaque'))
contract('mapproxy.srs:PreferredSrcSRS.preferred_src', props=['C17'],
         types=dict(target='opaque', available_src='opaque'), returns='opaque', default_callee='opaque',
         opaque_fields={'is_latlong': 'bool'}, stable_fields=['is_latlong'],
         opaque_spec={'contains': {'returns': 'bool', 'pure': True}, 'index': {'pure': True}},
         raises={'ValueError': True},
         loops={0: dict(inv=[], types={}), 1: dict(inv=[], types={})},
         trace=[_result_is_an_entry])
