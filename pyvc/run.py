"""Check one property: verify every contract target that carries it, replay refutations on the real code,
apply known findings and the obligation lock, write the evidence file, print VIOLATION / KNOWN-FINDING lines.

exit 0 held | 1 violation | 2 undecided (target left the supported subset, no failing input found) | 3 checker crash
"""
import argparse
import importlib
import json
import multiprocessing
import os
import subprocess
import sys
import time
import traceback

VERIF = os.path.dirname(os.path.dirname(os.path.abspath(__file__)))
REPO = os.environ.get('PYVC_REPO', '/repo')
VENV_PY = '/venv/bin/python'
OUT = os.environ.get('PYVC_OUT', VERIF)      # evidence/ and replays/ live here (scratch runs redirect it)


def _worker(job):
    kind, key, modules, timeout_ms, findings = job
    try:
        # one runaway query (string theory on changed code has been seen to allocate > 60 GB) must not take the machine
        # down: z3 gives up at 6 GB ('unknown'), the address space of the worker is capped as a backstop
        import resource
        import z3 as _z3
        try:
            _z3.set_param('memory_max_size', 6000)
            resource.setrlimit(resource.RLIMIT_AS, (16 * 1024 ** 3, 16 * 1024 ** 3))
        except Exception:       # noqa
            pass
        for m in modules:
            importlib.import_module(m)
        from pyvc.api import REG
        from pyvc.progdb import ProgDB
        from pyvc import verify
        if kind == 'lemma':
            lem = [l for l in REG.lemmas if l['id'] == key][0]
            o = verify.verify_lemma(lem, timeout_ms, findings=findings, reg=REG)
            return {'key': key, 'kind': 'lemma', 'obligations': {key: o}, 'info': {'qualname': 'lemma:' + key},
                    'unsupported': None, 'error': None}
        db = ProgDB(REPO)
        r = verify.verify_target(db, REG, key, timeout_ms=timeout_ms, want_smt2=True, findings=findings, modules=modules)
        return {'key': key, 'kind': 'target', 'obligations': r.obligations, 'info': r.info,
                'unsupported': r.unsupported, 'error': r.error}
    except Exception as e:      # noqa
        return {'key': key, 'kind': kind, 'obligations': {}, 'info': {}, 'unsupported': None,
                'error': '%s: %s\n%s' % (type(e).__name__, e, traceback.format_exc())}


def load_json(path, default):
    try:
        with open(path) as f:
            return json.load(f)
    except FileNotFoundError:
        return default


def main():
    ap = argparse.ArgumentParser()
    ap.add_argument('prop')
    ap.add_argument('--tier', default=os.environ.get('VERIF_TIER', 'quick'))
    ap.add_argument('--replay', default=None)
    ap.add_argument('--update-lock', action='store_true')
    ap.add_argument('--only', default='')
    args = ap.parse_args()
    prop = args.prop
    tier = args.tier if args.tier in ('quick', 'thorough') else 'quick'
    seed = int(os.environ.get('VERIF_SEED', '0') or 0)
    t0 = time.time()
    sys.path.insert(0, VERIF)
    if args.replay:
        env = dict(os.environ, PYTHONPATH='%s:%s' % (VERIF, REPO))
        p = subprocess.run([VENV_PY, '-m', 'pyvc.replay', args.replay], env=env, cwd=VERIF)
        sys.exit(p.returncode)
    import contracts
    modules = contracts.PROP_MODULES[prop]
    for m in modules:
        importlib.import_module(m)
    from pyvc.api import REG
    findings_all = load_json(os.path.join(VERIF, 'known_findings.json'), {'findings': []})
    findings = [f for f in findings_all.get('findings', []) if f.get('property') == prop and 'fixed' not in f]
    lock = load_json(os.path.join(VERIF, 'obligations.lock.json'), {})
    # a finding is "live" while its recorded witness still fails on the real code; only live findings restrict
    # an obligation to the complement of their class
    os.makedirs(os.path.join(OUT, 'replays', prop), exist_ok=True)
    for f in os.listdir(os.path.join(OUT, 'replays', prop)):
        os.unlink(os.path.join(OUT, 'replays', prop, f))
    env = dict(os.environ, PYTHONPATH='%s:%s' % (VERIF, REPO))
    live = []
    n_witness = 0
    for fnd in findings:
        if fnd.get('witness_script'):
            p = subprocess.run([VENV_PY, os.path.join(VERIF, fnd['witness_script'])], env=dict(os.environ, PYTHONPATH=REPO),
                               cwd='/tmp', capture_output=True, text=True, timeout=300)
            n_witness += 1
            with open(os.path.join(OUT, 'replays', prop, 'known-%s.log' % fnd.get('id')), 'w') as fh:
                fh.write('exit=%d\n%s\n%s' % (p.returncode, p.stdout[-2000:], p.stderr[-2000:]))
            if p.returncode == 1:
                live.append(fnd)
            continue
        wfile = os.path.join(OUT, 'replays', prop, 'known-%s.json' % fnd.get('id'))
        rp = dict(fnd['witness_replay'], property=prop, obligation=fnd['obligation'], modules=modules, finding=fnd.get('id'))
        with open(wfile, 'w') as fh:
            json.dump(rp, fh, indent=1)
        p = subprocess.run([VENV_PY, '-m', 'pyvc.replay', wfile], env=env, cwd=VERIF, capture_output=True, text=True,
                           timeout=300)
        n_witness += 1
        if p.returncode == 0:
            live.append(fnd)
    findings = live
    timeout_ms = 60000 if tier == 'quick' else 600000
    jobs = []
    for key, c in REG.contracts.items():
        if prop in c['props'] and c.get('verify', True) and args.only in key:
            fnd = [f for f in findings if f.get('target') == key]
            jobs.append(('target', key, modules, timeout_ms, fnd))
    for lem in REG.lemmas:
        if prop in lem['props'] and args.only in lem['id']:
            jobs.append(('lemma', lem['id'], modules, timeout_ms, [f for f in findings if f.get('target') == 'lemma:' + lem['id']]))
    assumed = sorted(k for k, c in REG.contracts.items() if not c.get('verify', True))
    results = []
    if jobs:
        nproc = min(len(jobs), max(1, (os.cpu_count() or 4)))
        import concurrent.futures as cf
        ctx = multiprocessing.get_context('fork')
        budget = 3600 if tier == 'quick' else 6 * 3600
        with cf.ProcessPoolExecutor(max_workers=nproc, mp_context=ctx) as pool:
            futs = {pool.submit(_worker, j): j for j in jobs}
            try:
                for fut in cf.as_completed(futs, timeout=budget):
                    j = futs[fut]
                    try:
                        results.append(fut.result())
                    except Exception as e:      # noqa  (a worker died: checker problem, never a verdict)
                        results.append({'key': j[1], 'kind': j[0], 'obligations': {}, 'info': {}, 'unsupported': None,
                                        'error': 'worker failed: %s: %s' % (type(e).__name__, e)})
            except cf.TimeoutError:
                for fut, j in futs.items():
                    if not fut.done():
                        results.append({'key': j[1], 'kind': j[0], 'obligations': {}, 'info': {}, 'unsupported': None,
                                        'error': 'worker timed out after %ds' % budget})
                        fut.cancel()
    results.sort(key=lambda r: r['key'])

    # ---- collect obligations ---------------------------------------------------------------------------
    obligations = {}
    crashed = []
    unsupported = []
    funcs = []
    trusted = set()
    dropped = set()
    for r in results:
        if r['error']:
            crashed.append((r['key'], r['error']))
        if r['unsupported']:
            unsupported.append((r['key'], r['unsupported']))
        if r['kind'] == 'target' and r['info'].get('file'):
            funcs.append({k: r['info'].get(k) for k in ('qualname', 'file', 'lines', 'sha256', 'paths', 'inlined',
                                                        'callee_contracts', 'opaque', 'wall_s')})
        for s in r['info'].get('stubs', []):
            trusted.add(s)
        for s in r['info'].get('dropped', []):
            dropped.add(s)
        for oid, o in r['obligations'].items():
            o['target'] = r['key']
            obligations['%s.%s' % (prop, oid)] = o

    os.makedirs(os.path.join(OUT, 'evidence'), exist_ok=True)
    rdir = os.path.join(OUT, 'replays', prop)

    # ---- lock: every locked obligation must be produced ---------------------------------------------------
    locked = lock.get(prop, [])
    if args.update_lock:
        lock[prop] = sorted(obligations)
        with open(os.path.join(VERIF, 'obligations.lock.json'), 'w') as f:
            json.dump(lock, f, indent=1, sort_keys=True)
        locked = lock[prop]
    missing = [oid for oid in locked if oid not in obligations and args.only == '']

    # ---- verdicts -----------------------------------------------------------------------------------------
    violations = []
    fuzz_cache = {}
    known_lines = []
    degraded = []
    n_replayed = n_witness
    for oid in sorted(obligations):
        o = obligations[oid]
        v = o['verdict']
        if v in ('unsat', 'pending'):
            continue      # 'pending' only occurs when the worker crashed (reported as CHECKER-ERROR, exit 3)
        if v == 'known':
            known_lines.append('KNOWN-FINDING: property=%s %s: %s [%s proved outside the recorded class; witness replayed]'
                               % (prop, o.get('finding_id'), o.get('finding_what', ''), oid))
            continue
        rfile = os.path.join(rdir, oid.replace('/', '_').replace('#', '-') + '.json')
        rp = {'property': prop, 'obligation': oid, 'target': o['target'], 'kind': o['kind'], 'clause': o.get('clause'),
              'verdict': v, 'modules': modules, 'inputs': o.get('model'), 'where': o.get('where'),
              'solver': {'backend': o.get('backend'), 'why': o.get('why'), 'ms': o.get('ms')},
              'smt2': o.get('smt2', '')[:20000], 'repo': REPO}
        status = None
        if v == 'sat' and o.get('model') is not None and o['kind'] in ('ensures', 'noexc', 'raises'):
            with open(rfile, 'w') as f:
                json.dump(rp, f, indent=1, default=str)
            try:
                p = subprocess.run([VENV_PY, '-m', 'pyvc.replay', rfile], env=env, cwd=VERIF, capture_output=True,
                                   text=True, timeout=120)
                n_replayed += 1
                try:
                    rp['replay'] = json.loads(p.stdout)
                except Exception:
                    rp['replay'] = {'status': 'replay-error', 'stdout': p.stdout[-2000:], 'stderr': p.stderr[-2000:]}
                rp['replay_exit'] = p.returncode
                status = 'reproduced' if p.returncode == 0 else rp['replay'].get('status')
            except subprocess.TimeoutExpired:
                status = 'replay-timeout'
        if status != 'reproduced' and o.get('target', '').count(':') == 1 and o['target'] in REG.contracts:
            # no replayable counter-model: bounded search for a concrete failing input of this contract on the
            # real code (pyvc.fuzz under /venv/bin/python); a hit is a replayed counterexample
            try:
                if o['target'] not in fuzz_cache:
                    p = subprocess.run([VENV_PY, '-m', 'pyvc.fuzz', ','.join(modules), o['target'], '--n', '4000',
                                        '--seconds', '25', '--seed', str(seed)], env=env, cwd=VERIF,
                                       capture_output=True, text=True, timeout=180)
                    fuzz_cache[o['target']] = json.loads(p.stdout)
                fz = fuzz_cache[o['target']]
                rp['bounded_search'] = {k: fz.get(k) for k in ('tried', 'accepted', 'errors', 'seconds')}
                if fz.get('failures'):
                    hit = fz['failures'][0]
                    rp['bounded_search']['failing_input'] = hit
                    rp['inputs'] = hit['inputs']
                    rp['clause'] = hit['clause'] if hit['index'] >= 0 else rp['clause']
                    rp['kind'] = 'ensures' if hit['index'] >= 0 else 'noexc'
                    rp['note'] = 'failing input found by bounded search on the real function (contract clause #%s)' % hit['index']
                    status = 'reproduced'
            except Exception as e:      # noqa
                rp['bounded_search'] = {'error': str(e)}
        rp['replay_status'] = status
        with open(rfile, 'w') as f:
            json.dump(rp, f, indent=1, default=str)
        o['replay_status'] = status
        o['replay_file'] = os.path.relpath(rfile, OUT)
        tail = '' if status == 'reproduced' else ' no-failing-input-found'
        violations.append('VIOLATION property=%s replay=%s obligation=%s verdict=%s%s'
                          % (prop, os.path.relpath(rfile, OUT), oid, v, tail))
    for oid in missing:
        tgt = None
        for k, msg in unsupported:
            if k.split(':')[1] in oid:
                tgt = (k, msg)
        degraded.append({'obligation': oid, 'reason': tgt[1] if tgt else 'not generated'})

    # ---- a function that left the verifier's subset (DEGRADED): its contract is still checked on the real code by the
    # bounded search where inputs can be generated - a failing input found there is a replayed counterexample
    for k, msg in unsupported:
        c = REG.contracts.get(k)
        if c is None or c.get('bounded') or not any(isinstance(e, str) for e in c.get('ensures', [])):
            continue
        try:
            p = subprocess.run([VENV_PY, '-m', 'pyvc.fuzz', ','.join(modules), k, '--n', '4000', '--seconds', '25',
                                '--seed', str(seed)], env=env, cwd=VERIF, capture_output=True, text=True, timeout=180)
            fz = json.loads(p.stdout)
        except Exception as e:      # noqa
            continue
        if fz.get('failures'):
            hit = fz['failures'][0]
            oid = '%s.%s.%s' % (prop, k.split(':')[1], 'ensures#%d' % hit['index'] if hit['index'] >= 0 else 'no_unexpected_exception')
            rfile = os.path.join(rdir, oid.replace('/', '_').replace('#', '-') + '.json')
            os.makedirs(rdir, exist_ok=True)
            with open(rfile, 'w') as f:
                json.dump({'property': prop, 'obligation': oid, 'target': k, 'kind': 'ensures' if hit['index'] >= 0 else 'noexc',
                           'clause': hit['clause'], 'verdict': 'bounded-counterexample', 'modules': modules, 'inputs': hit['inputs'],
                           'repo': REPO, 'replay_status': 'reproduced',
                           'note': 'the function is outside the verifier\'s subset (%s); failing input found by the bounded '
                                   'search on the real function' % msg}, f, indent=1, default=str)
            violations.append('VIOLATION property=%s replay=%s obligation=%s verdict=bounded-counterexample'
                              % (prop, os.path.relpath(rfile, OUT), oid))

    # ---- bounded stand-ins (never counted as proved): contracts marked bounded={...} are searched on the real code --------
    bounded = []
    for key, c in REG.contracts.items():
        if prop in c['props'] and c.get('bounded') and args.only in key:
            b = c['bounded']
            try:
                p = subprocess.run([VENV_PY, '-m', 'pyvc.fuzz', ','.join(modules), key, '--n', str(b.get('n', 3000)),
                                    '--seconds', str(b.get('seconds', 20) * (1 if tier == 'quick' else 10)), '--seed', str(seed)],
                                   env=env, cwd=VERIF, capture_output=True, text=True, timeout=1200)
                fz = json.loads(p.stdout)
            except Exception as e:      # noqa
                fz = {'errors': ['%s' % e], 'failures': [], 'tried': 0, 'accepted': 0}
            rec = {'function': key, 'tool': 'pyvc.fuzz (generated inputs on the real function, concrete contract evaluation)',
                   'bound': '%d inputs / %ss, seed %d' % (b.get('n', 3000), b.get('seconds', 20), seed),
                   'tried': fz.get('tried'), 'accepted': fz.get('accepted'), 'result': 'no failing input' if not fz.get('failures') else 'FAILING INPUT',
                   'errors': fz.get('errors')}
            bounded.append(rec)
            if fz.get('errors') and not fz.get('accepted'):
                crashed.append((key, 'bounded check could not run: %s' % fz.get('errors')))
            for hit in fz.get('failures', [])[:1]:
                oid = '%s.%s.bounded' % (prop, key.split(':')[1])
                rfile = os.path.join(rdir, oid.replace('/', '_') + '.json')
                with open(rfile, 'w') as f:
                    json.dump({'property': prop, 'obligation': oid, 'target': key, 'kind': 'ensures', 'clause': hit['clause'],
                               'inputs': hit['inputs'], 'result': hit.get('result'), 'modules': modules,
                               'note': 'failing input found by the bounded check on the real function', 'replay_status': 'reproduced'},
                              f, indent=1, default=str)
                violations.append('VIOLATION property=%s replay=%s obligation=%s verdict=bounded-counterexample'
                                  % (prop, os.path.relpath(rfile, OUT), oid))
    # ---- thorough tier: CPython cross-check of the proved value contracts (translation validation of the encoder) ------
    crosscheck = []
    if tier == 'thorough':
        for r in results:
            key = r['key']
            c = REG.contracts.get(key)
            if r['kind'] != 'target' or c is None or c.get('bounded') or c.get('default_callee') == 'opaque':
                continue
            if not any(isinstance(e, str) for e in c['ensures']):
                continue
            try:
                p = subprocess.run([VENV_PY, '-m', 'pyvc.fuzz', ','.join(modules), key, '--n', '3000', '--seconds', '15',
                                    '--seed', str(seed)], env=env, cwd=VERIF, capture_output=True, text=True, timeout=300)
                fz = json.loads(p.stdout)
            except Exception as e:      # noqa
                fz = {'errors': [str(e)], 'failures': [], 'tried': 0, 'accepted': 0}
            rec = {'function': key, 'tried': fz.get('tried'), 'accepted': fz.get('accepted'),
                   'failures': len(fz.get('failures', [])), 'errors': (fz.get('errors') or [])[:2]}
            crosscheck.append(rec)
            if fz.get('failures'):
                # the contract is proved but a generated input violates it on the real code: encoder/contract
                # disagreement (or float noise) -- a checker problem to look at, not a property violation
                print('CROSSCHECK-NOTE target=%s clause=%s (proved over reals / outside a known finding; see replays)' % (key, fz['failures'][0]['clause'][:120]))
                with open(os.path.join(rdir, 'crosscheck-%s.json' % key.split(':')[1]), 'w') as f:
                    json.dump(fz['failures'][0], f, indent=1, default=str)
    # ---- thorough tier: self-test of the check.  Every one-line change under selftest/<prop>/ breaks the property; the
    # quick check is run against a scratch copy of the CURRENT tree with that change and has to report it.  A miss says the
    # check is weaker than believed (a checker problem): it is recorded and printed, it is never a verdict about /repo.
    selftest = []
    if tier == 'thorough' and not os.environ.get('PYVC_IN_SELFTEST') and REPO == '/repo':
        import glob
        import shutil
        import tempfile
        for diff in sorted(glob.glob(os.path.join(VERIF, 'selftest', prop, '*.diff'))):
            d = tempfile.mkdtemp(prefix='pyvc-selftest.')
            rec = {'mutation': os.path.relpath(diff, VERIF)}
            try:
                shutil.copytree(os.path.join(REPO, 'mapproxy'), os.path.join(d, 'mapproxy'))
                pr = subprocess.run(['patch', '-p1', '-s', '-i', diff], cwd=d, capture_output=True, text=True)
                if pr.returncode != 0:
                    rec['result'] = 'patch does not apply to the current tree (skipped)'
                else:
                    env2 = dict(os.environ, PYVC_REPO=d, PYVC_OUT=os.path.join(d, 'out'), PYVC_IN_SELFTEST='1', PYTHONPATH=VERIF)
                    p2 = subprocess.run([sys.executable, '-m', 'pyvc.run', prop, '--tier', 'quick'], cwd=VERIF, env=env2,
                                        capture_output=True, text=True, timeout=3600)
                    first = [ln for ln in p2.stdout.splitlines() if ln.startswith('VIOLATION')]
                    rec['exit'] = p2.returncode
                    rec['result'] = 'detected' if p2.returncode == 1 else 'MISSED'
                    rec['first_violation'] = first[0].split('obligation=')[1].split()[0] if first else None
            except Exception as e:      # noqa
                rec['result'] = 'error: %s' % e
            finally:
                shutil.rmtree(d, ignore_errors=True)
            selftest.append(rec)
            if rec['result'] != 'detected':
                print('SELFTEST-NOTE property=%s %s: %s' % (prop, rec['mutation'], rec['result']))
    n_obl = len(obligations)
    n_dis = sum(1 for o in obligations.values() if o['verdict'] in ('unsat', 'known'))
    n_known = sum(1 for o in obligations.values() if o['verdict'] == 'known')
    solver_ms = sum(o.get('ms', 0) for o in obligations.values())
    samples = []
    for r in results:
        if r['info'].get('sample_smt2'):
            samples.append({'obligation': '%s.%s' % (prop, r['info'].get('sample_oid')), 'smt2': r['info']['sample_smt2'][:3000]})
        if len(samples) >= 3:
            break
    for oid in sorted(obligations)[:12]:
        samples.append({'obligation': oid, 'clause': obligations[oid].get('clause'), 'verdict': obligations[oid]['verdict']})
    assumptions = list(getattr(contracts, 'ASSUMPTIONS', [])) + list(getattr(contracts, 'PROP_ASSUMPTIONS', {}).get(prop, []))
    level = 'proof'
    ev = {
        'property_id': prop, 'tier': tier, 'seed': seed, 'level': level,
        'coverage': {
            'obligations': n_obl, 'discharged': n_dis, 'known_findings': n_known,
            'checker_cmd': 'cd /verif && ./check %s --tier %s' % (prop, tier),
            'trusted_base': sorted(trusted) + ['assumed contract (not verified here): ' + k for k in assumed
                                               if any(k in (f.get('callee_contracts') or []) for f in funcs)],
            'functions_under_contract': funcs,
            'per_obligation': [{'id': oid, 'kind': o['kind'], 'verdict': o['verdict'], 'backend': o.get('backend'),
                                'ms': o.get('ms'), 'paths': o.get('paths'), 'clause': o.get('clause')}
                               for oid, o in sorted(obligations.items())],
            'solver_ms_total': solver_ms,
            'vacuity': {'pre_sat': sum(1 for o in obligations.values() if o['kind'] == 'vacuity' and o['verdict'] == 'unsat'),
                        'must_fail_refuted': sum(1 for o in obligations.values() if o['kind'] == 'must_fail' and o['verdict'] == 'unsat')},
            'traces_validated_against_impl': n_replayed,
            'bounded': bounded,
            'crosscheck_against_cpython': crosscheck,
            'selftest_mutations': selftest,
            'dropped_constructs': sorted(dropped),
            'degraded': degraded, 'unsupported_targets': [{'target': k, 'reason': m} for k, m in unsupported],
            'unverified_remainder': list(getattr(contracts, 'NOT_COVERED', {}).get(prop, [])),
            'samples': samples,
            'explanation': 'contract-based deductive verification: VCs generated from the real AST of /repo by pyvc, '
                           'discharged by SMT; see DESIGN.md',
        },
        'assumptions': assumptions,
        'wall_s': round(time.time() - t0, 2),
        'violations': len(violations),
    }
    if degraded or unsupported or crashed:
        ev['coverage']['note'] = 'run degraded: some obligations could not be generated; not a full proof run'
    with open(os.path.join(OUT, 'evidence', '%s.json' % prop), 'w') as f:
        json.dump(ev, f, indent=1, default=str)

    print('%s tier=%s targets=%d obligations=%d discharged=%d solver_ms=%d wall=%.1fs'
          % (prop, tier, len(jobs), n_obl, n_dis, solver_ms, time.time() - t0))
    for line in known_lines:
        print(line)
    for k, msg in unsupported:
        print('DEGRADED target=%s reason=%s' % (k, msg))
    for d in degraded:
        print('DEGRADED obligation=%s reason=%s' % (d['obligation'], d['reason']))
    for k, msg in crashed:
        print('CHECKER-ERROR target=%s\n%s' % (k, '\n'.join(msg.splitlines()[:2] + msg.splitlines()[-8:])))
    for v in violations:
        print(v)
    if violations:
        sys.exit(1)
    if crashed:
        sys.exit(3)
    if n_obl == 0:
        print('CHECKER-ERROR no obligations generated')
        sys.exit(3)
    if unsupported or degraded:
        print('UNDECIDED property=%s (no violation found; proof incomplete)' % prop)
        sys.exit(2)
    sys.exit(0)


if __name__ == '__main__':
    main()
