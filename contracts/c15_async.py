"""C15 - parallel fan-out returns every result exactly once and in input order (for EVERY arrival order)."""
from pyvc.api import contract, cls, ghost, lemma
from pyvc import tracelib as T
A = 'mapproxy.util.async_:'

cls(A + 'ThreadPool', fields=dict(pool_size='int', task_queue='opaque', result_queue='opaque', pool='opaque'))


# The arrival sequence produced by the workers, in the order in which the consumer receives it: arrival j carries
# index arr_idx(j) and value arr_val(arr_idx(j)).  "Any completion order" = any injective arr_idx.  arr_pos is the
# inverse (position at which an index arrives), used instead of an existential quantifier.
def _mk(name, dom, rng):
    def fn(ex, st, *args):
        import z3
        from pyvc.values import VInt, VOpaque, ObjSort
        sorts = {'int': z3.IntSort(), 'obj': ObjSort}
        f = z3.Function(name, *([sorts[d] for d in dom] + [sorts[rng]]))
        r = f(*[a.t for a in args])
        return VInt(r) if rng == 'int' else VOpaque(r)
    return fn


ghost('arr_idx', ['j'], _mk('arr_idx', ['int'], 'int'))
ghost('arr_pos', ['i'], _mk('arr_pos', ['int'], 'int'))
ghost('arr_val', ['i'], _mk('arr_val', ['int'], 'obj'))
ghost('arr_len', [], _mk('arr_len', [], 'int'))
# index i has arrived among the first k arrivals
ghost('arrived', ['i', 'k'], "0 <= arr_pos(i) and arr_pos(i) < k and arr_idx(arr_pos(i)) == i")


def _make_arrivals(ex, st, args, kwargs):
    import z3
    from pyvc.values import VSeq, VInt, VOpaque, ObjSort
    idx = z3.Function('arr_idx', z3.IntSort(), z3.IntSort())
    val = z3.Function('arr_val', z3.IntSort(), ObjSort)
    n = z3.Function('arr_len')() if False else z3.Const('arr_len', z3.IntSort())
    return VSeq(length=z3.Function('arr_len', z3.IntSort())(), kind='list',
                elem=lambda j: VSeq([VInt(idx(j)), VOpaque(val(idx(j)))], kind='tuple'))


contract(A + 'ThreadPool._get_results', props=['C15'],
         types=dict(next_result='int', results='dict[int,opaque]', raise_exceptions='bool'),
         returns='list[opaque]', default_callee='opaque',
         opaque_spec={'_fetch_results': {'make': _make_arrivals, 'raises': ['Exception'], 'pure': True}},
         raises={'Exception': True},
         requires=[
             'arr_len() >= 0',
             # arrivals are distinct indices (arr_pos inverts arr_idx), not before next_result, not already stashed
             """forall(lambda j: implies(0 <= j < arr_len(), arr_pos(arr_idx(j)) == j and arr_idx(j) >= next_result
                       and not (arr_idx(j) in results)))""",
             # stashed (out-of-order) results of an earlier pass are all later than next_result
             'forall(lambda i: implies(i in results, i > next_result))',
         ],
         ensures=[
             # what was yielded: the values of indices next_result, next_result+1, ... without gap, duplicate or reordering
             """forall(lambda m: implies(0 <= m < len(result), result[m] ==
                       (old(results)[next_result + m] if (next_result + m) in old(results) else arr_val(next_result + m))))""",
             # every yielded index was really available, and the first index NOT yielded is not available
             """forall(lambda m: implies(0 <= m < len(result), ((next_result + m) in old(results)) or arrived(next_result + m, arr_len())))""",
             'not ((next_result + len(result)) in old(results)) and not arrived(next_result + len(result), arr_len())',
         ],
         loops={
             0: dict(yield_type='opaque', types={'results': 'dict[int,opaque]', 'next_result': 'int'}, inv=[
                 'next_result == old(next_result) + len(yielded) and len(yielded) >= 0',
                 """forall(lambda m: implies(0 <= m < len(yielded), yielded[m] ==
                       (old(results)[old(next_result) + m] if (old(next_result) + m) in old(results) else arr_val(old(next_result) + m))))""",
                 """forall(lambda m: implies(0 <= m < len(yielded), ((old(next_result) + m) in old(results)) or arrived(old(next_result) + m, _k)))""",
                 # the stash: exactly the available, not yet yielded indices; the next index is not available yet
                 """forall(lambda i: (i in results) == (i > next_result and ((i in old(results)) or arrived(i, _k))))""",
                 """forall(lambda i: implies(i in results, results[i] == (old(results)[i] if i in old(results) else arr_val(i))))""",
                 'not (next_result in old(results)) and not arrived(next_result, _k)',
             ]),
             1: dict(yield_type='opaque', types={'results': 'dict[int,opaque]', 'next_result': 'int'}, inv=[
                 'next_result == old(next_result) + len(yielded) and len(yielded) >= 1',
                 """forall(lambda m: implies(0 <= m < len(yielded), yielded[m] ==
                       (old(results)[old(next_result) + m] if (old(next_result) + m) in old(results) else arr_val(old(next_result) + m))))""",
                 """forall(lambda m: implies(0 <= m < len(yielded), ((old(next_result) + m) in old(results)) or arrived(old(next_result) + m, _k0 + 1)))""",
                 """forall(lambda i: (i in results) == (i >= next_result and ((i in old(results)) or arrived(i, _k0 + 1))))""",
                 """forall(lambda i: implies(i in results, results[i] == (old(results)[i] if i in old(results) else arr_val(i))))""",
             ]),
         },
         must_fail='len(result) == 0')

lemma('all_results_in_order', ['C15'],
      doc='if the available indices are exactly [n0, N) then the maximal contiguous run starting at n0 (what _get_results '
          'yields) has length N - n0: nothing lost, nothing duplicated',
      fn=lambda z3: (lambda n0, N, L, avail: (
          [n0 <= N, L >= 0,
           z3.ForAll([z3.Int('i')], avail(z3.Int('i')) == z3.And(n0 <= z3.Int('i'), z3.Int('i') < N)),
           z3.ForAll([z3.Int('m')], z3.Implies(z3.And(0 <= z3.Int('m'), z3.Int('m') < L), avail(n0 + z3.Int('m')))),
           z3.Not(avail(n0 + L))],
          L == N - n0))(z3.Int('n0'), z3.Int('N'), z3.Int('L'), z3.Function('avail', z3.IntSort(), z3.BoolSort())))


# ---- worker: exactly one result per task, delivered before the task is marked done --------------------------------------
cls(A + 'ThreadWorker', fields=dict(task_queue='opaque', result_queue='opaque', base_config='opaque'))


def _one_put_per_task(ex, st, k):
    import z3
    from pyvc.values import eq
    n0 = getattr(st, 'iter_start_trace', 0)
    evs_ = st.trace[n0:]
    gets = [e for e in evs_ if e.name == 'get']
    puts = [(i, e) for i, e in enumerate(evs_) if e.name == 'put']
    dones = [(i, e) for i, e in enumerate(evs_) if e.name == 'task_done']
    calls = [e for e in evs_ if e.name == 'func']
    ok = len(gets) == 1 and len(puts) == 1 and len(dones) == 1 and len(calls) == 1 and puts[0][0] < dones[0][0]
    goal = z3.BoolVal(ok)
    if ok:
        task = gets[0].result.val
        payload = puts[0][1].args[0]
        goal = z3.And(goal, eq(payload.items[0], task.items[0]))        # the result carries the task's own id
        if not calls[0].raised:
            goal = z3.And(goal, eq(payload.items[1], calls[0].result))  # ... and the task's own return value
    yield ('one_result_per_task_before_done', goal,
           'each non-sentinel task: one result_queue.put((exec_id, result-or-exc_info)) with the task\'s own id, BEFORE '
           'task_queue.task_done() (so join() cannot return before the last result is queued)')


contract(A + 'ThreadWorker.run', props=['C15'], types={}, returns='none', default_callee='opaque',
         opaque_spec={'get': {'returns': 'opt[tuple[int,opaque,opaque]]', 'pure': True}, 'func': {'raises': ['Exception'], 'pure': True},
                      'put': {'pure': True}, 'task_done': {'pure': True}, 'local_base_config': {'pure': True},
                      'exc_info': {'pure': True}},
         loops={0: dict(inv=[], body_trace=[_one_put_per_task])},
         trace=[])


# ---- map_each: sequential branch (pool size < 2) -----------------------------------------------------------------------
def _sequential_item(ex, st, k):
    import z3
    n0 = getattr(st, 'iter_start_trace', 0)
    evs_ = st.trace[n0:]
    calls = [e for e in evs_ if e.name == 'func']
    ok = len(calls) == 1
    rm = st.env['raise_exceptions']
    goal = z3.BoolVal(ok)
    if ok and calls[0].raised:
        # the item failed and the iteration went on: only allowed when exceptions are reported as values
        goal = z3.And(goal, z3.Not(rm.t))
    yield ('sequential_exception_mode', goal,
           'sequential branch: with raise_exceptions an item\'s exception is re-raised, never handed out as a result value')


contract(A + 'ThreadPool.map_each', props=['C15'],
         types=dict(func_args='list[tuple[opaque,opaque]]', raise_exceptions='bool'), returns='list[opaque]',
         default_callee='opaque', requires=['self.pool_size < 2'],
         opaque_spec={'func': {'raises': ['Exception'], 'pure': True}, 'exc_info': {'pure': True}},
         raises={'Exception': 'raise_exceptions'},
         ensures=['len(result) == len(func_args)'],
         loops={0: dict(yield_type='opaque', inv=['len(yielded) == _k'], body_trace=[_sequential_item])},
         must_fail='len(result) == 0')
