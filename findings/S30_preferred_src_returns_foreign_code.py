"""S30 (C17): PreferredSrcSRS.preferred_src returned the target / the rule entry instead of the equal entry of the source's
supported_srs list: EPSG:3857 and EPSG:900913 are equal SRS with different codes, so a code that is NOT configured was sent
upstream.  exit 1 = reproduces."""
import sys
from mapproxy.srs import SRS, SupportedSRS, PreferredSrcSRS
bad = []
pref = PreferredSrcSRS()
pref.add(SRS(25832), [SRS(3857), SRS(4326)])
sup = SupportedSRS([SRS(4326), SRS(900913)], pref)
codes = [s.srs_code for s in sup.supported_srs]
for target in (SRS(25832), SRS(3857), SRS(900913), SRS(4326), SRS(31467)):
    got = sup.best_srs(target)
    if got.srs_code not in codes:
        bad.append('best_srs(%s) -> %s, configured codes are %s' % (target.srs_code, got.srs_code, codes))
print('\n'.join(bad) or 'ok')
sys.exit(1 if bad else 0)
