"""placeholder; the file-system / file-object model is added with C05/C19/C06"""
from .values import Unsupported


def b_open(ex, st, args, kwargs, node):
    raise Unsupported('open()')


def blob_concat(a, b):
    raise Unsupported('blob concat')


def blob_slice(ex, st, base, lo, hi):
    raise Unsupported('blob slice')
